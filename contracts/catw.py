"""Continuum.category_weights and CorpusShufflingTool.false_pos_shuffle (C19): false positives only add units."""
import pyvc.models.strdict  # noqa: F401  (registers the SortedDict str -> number model)
from pyvc.contract import contract, cl, Macro, RealT, IntT
from pyvc.heap import ObjT
from .continuum import F as CF, CONT, ITER_MACROS

DICT = lambda: ObjT("DictStrNum")   # noqa: E731
contract(CF + "Continuum.category_weights", params={"self": CONT()}, returns=DICT(), is_property=True, modifies=[], macros=ITER_MACROS,
         locals={"weights": DICT()}, coerce={"nb_units": "Int"},
         requires=["RI(self)", "forall([(a, Real), (u, Unit)], implies(Us(self)[a][u], u.haslab))"],
         ensures=[cl("fresh_obj(result)", "C19 C14", name="a-new-map"),
                  cl("forall([(a, Real), (u, Unit)], implies(Us(self)[a][u], members(result)[u.lab]))", "C19",
                     name="every-category-in-use-is-a-key")],
         loops={"L0": dict(match="for _, unit in self", index="kz", seq_name="YS", modifies=["weights"],
                           inv=["nb_units == kz", "forall(q, 0, kz, members(weights)[YS[q][1].lab])",
                                "forall([(l, Real)], implies(members(weights)[l], kz >= 1))"]),
                "L1": dict(match="for annotation in weights.keys()", index="kk", modifies=["weights"],
                           inv=["members(weights) == KEYS0"])},
         ghost_vars={"KEYS0": ("RSet", None)},
         hooks=[("before", "for _, unit in self: ...", "model_inv wfmap(self)"),
                ("before", "for annotation in weights.keys(): ...", "KEYS0 = members(weights)"),
                ("before", "for annotation in weights.keys(): ...",
                 "assert forall([(a, Real), (u, Unit)], implies(Us(self)[a][u], 0 <= flat(self, a, u) and flat(self, a, u) < NumUnits(self) and "
                 "YS[flat(self, a, u)][1] == u))"),
                ("before", "for annotation in weights.keys(): ...",
                 "assert forall([(a, Real), (u, Unit)], implies(Us(self)[a][u], KEYS0[u.lab]))")],
         serves={"C19"})

# ---- false positives: units are only added (to every annotator of the corpus), with labels drawn among the reference's categories
from .types import StrT   # noqa: E402
from .speclib import VIEW_MACROS   # noqa: E402
from .cst import F as KF   # noqa: E402
CSTF = lambda: ObjT("CorpusShufflingTool", magnitude=RealT(), _reference_annotator=StrT(), _reference_continuum=CONT(),     # noqa: E731
                    _categories=ObjT("SetStr"), SHIFT_FACTOR=RealT(), SPLIT_FACTOR=RealT(), FALSE_POS_FACTOR=RealT())
_NONEMPTY_ALL = "forall([(a, Real)], implies(Ann(continuum)[a], exists([(u, Unit)], Us(continuum)[a][u])))"
_FM = VIEW_MACROS + [Macro("ref", [], "self._reference_continuum"), Macro("ra", [], "self._reference_annotator")]
contract(KF + "CorpusShufflingTool.false_pos_shuffle",
         params={"self": CSTF(), "continuum": CONT()}, modifies=["continuum"], macros=_FM,
         ghost_vars={"U0": ("RUSet", None)},
         requires=["RI(continuum)", "not same_obj(continuum, self._reference_continuum)", _NONEMPTY_ALL,
                   "RI(ref())", "Ann(ref())[ra()]", "Cnt(ref())[ra()] >= 1",
                   "forall([(a, Real), (u, Unit)], implies(Us(ref())[a][u], u.haslab))"],
         raises={"ValueError": {}},
         ensures=[cl("Ann(continuum) == old(Ann(continuum))", "C19", name="same-annotators"),
                  cl(_NONEMPTY_ALL, "C19", name="K2-no-annotator-becomes-empty"),
                  cl("RI(continuum)", "C19", name="RI"),
                  cl("forall([(a, Real), (u, Unit)], implies(old(Us(continuum))[a][u], Us(continuum)[a][u]))", "C19", name="K4-only-adds-units")],
         loops={"L0": dict(match="for annotator in continuum.annotators", index="kA", modifies=["continuum"],
                           inv=["Ann(continuum) == old(Ann(continuum))", "RI(continuum)",
                                "forall([(a, Real), (u, Unit)], implies(U0[a][u], Us(continuum)[a][u]))"]),
                "L0.0": dict(match="for _ in range(int(self.magnitude * self.FALSE_POS_FACTOR * len(self._reference_continuum)))", index="jF",
                             modifies=["continuum"],
                             inv=["Ann(continuum) == old(Ann(continuum))", "RI(continuum)", "Ann(continuum)[annotator]",
                                  "forall([(a, Real), (u, Unit)], implies(U0[a][u], Us(continuum)[a][u]))"])},
         hooks=[("before", "@entry", "U0 = Us(continuum)"),
                ("before", "@entry", "model_inv wfmap(ref())"),
                ("before", "for annotator in continuum.annotators: ...", "model_inv wfmap(continuum)")],
         serves={"C19"})
