"""Contracts for pygamma_agreement/alignment.py."""
from pyvc.contract import (contract, cl, GhostFun, Macro, Lemma, NdArray, ListOf, IntT, RealT, BoolT, TupleOf, FnT, OptT, RecT)
from pyvc.heap import ObjT, UnitT, OptObjT
from .types import StrT, SegT
from .speclib import VIEW_MACROS

F = "pygamma_agreement/alignment.py::"
SlotT = lambda: TupleOf(StrT(), OptT(UnitT()))                                    # noqa: E731  (annotator, unit | None)
UAT = lambda: RecT("UnitaryAlignment", _n_tuple=ListOf(SlotT()), _disorder=OptT(RealT()))   # noqa: E731
ALIGN = lambda cls="Alignment": ObjT(cls, unitary_alignments=ListOf(UAT()),         # noqa: E731
                                     continuum=OptObjT(ObjT("Continuum")), _disorder=OptT(RealT()))

# ------------------------------------------------------------------------------------------ UnitaryAlignment (record by value)
contract(F + "UnitaryAlignment.__init__",
         params={"self": UAT(), "n_tuple": ListOf(SlotT())}, value_self=True,
         raises={"AssertionError": {"iff": "len(n_tuple) < 2"}},
         binds={"self._n_tuple": "n_tuple"},
         ensures=[cl("isnone(self._disorder)", name="no-disorder-yet"), cl("len(self._n_tuple) >= 2", name="arity")],
         serves={"C01", "C03", "C10", "C11"})

contract(F + "UnitaryAlignment.disorder@setter",
         params={"self": UAT(), "value": RealT()}, value_self=True,
         binds={"self._disorder": "value"},
         ensures=[cl("self._n_tuple == old(self._n_tuple)", name="tuple-unchanged")],
         serves={"C01", "C03", "C10", "C11"})

# ------------------------------------------------------------------------------------------ Alignment.__init__
for cls in ("Alignment",):
    contract(F + f"{cls}.__init__",
             params={"self": ALIGN(cls), "unitary_alignments": ListOf(UAT()), "continuum": OptObjT(ObjT("Continuum")),
                     "check_validity": BoolT(), "disorder": OptT(RealT())},
             modifies=["self"],
             requires=["not check_validity"],      # the validating path is the contract of Alignment.check (C17)
             binds={"self.unitary_alignments": "unitary_alignments", "self.continuum": "continuum", "self._disorder": "disorder"},
             serves={"C01", "C03", "C10", "C11", "C17"})

contract(F + "SoftAlignment.__init__",
         params={"self": ALIGN("SoftAlignment"), "unitary_alignments": ListOf(UAT()), "continuum": OptObjT(ObjT("Continuum")),
                 "check_validity": BoolT(), "disorder": OptT(RealT())},
         modifies=["self"],
         requires=["not check_validity"],
         binds={"self.unitary_alignments": "unitary_alignments", "self.continuum": "continuum", "self._disorder": "disorder"},
         serves={"C11", "C03", "C17"})

# ------------------------------------------------------------------------------------------ UnitaryAlignment accessors
contract(F + "UnitaryAlignment.n_tuple", params={"self": UAT()}, returns=ListOf(SlotT()), is_property=True,
         ensures=[cl("result == self._n_tuple", name="the-tuple")], serves={"C12", "C17", "C10", "C03"})

contract(F + "UnitaryAlignment.nb_units", params={"self": UAT()}, returns=IntT(), is_property=True,
         ensures=[cl("result == psum(lam(k, ite(isnone(self._n_tuple[k][1]), 0, 1)), len(self._n_tuple))", name="number-of-real-units")],
         serves={"C12", "C03"})

contract(F + "UnitaryAlignment.disorder", params={"self": UAT()}, returns=RealT(), is_property=True,
         raises={"ValueError": {"iff": "isnone(self._disorder)"}},
         ensures=[cl("result == some(self._disorder)", name="the-cached-value")], serves={"C03", "C10"})

contract(F + "Alignment.__iter__", params={"self": ALIGN()}, returns_expr="self.unitary_alignments",
         ensures=[cl("result == self.unitary_alignments", name="the-list")], serves={"C12", "C17"})

# ------------------------------------------------------------------------------------------ gamma_k_disorder  (C12, appendix A.4)
# The categorical component is any CategoricalDissimilarity: its d() is the abstract interface contract below (assumed for the
# abstract method, proved for AbsoluteCategoricalDissimilarity.d): a non-negative function of the two category names.
from .dissimilarity import POS_MACROS     # noqa: E402

CATD = ObjT("CategoricalDissimilarity", delta_empty=RealT())
contract("pygamma_agreement/dissimilarity.py::CategoricalDissimilarity.d",
         params={"self": CATD, "unit1": UnitT(), "unit2": UnitT()}, returns=RealT(), trusted=True,
         ensures=["result == catd(self, unit1, unit2)", "result >= 0"],
         notes="interface contract of the abstract method: the value depends on the two category names only and is >= 0")

COMB = lambda: ObjT("CombinedCategoricalDissimilarity", alpha=RealT(), beta=RealT(), delta_empty=RealT(),     # noqa: E731
                    positional_dissim=ObjT("PositionalSporadicDissimilarity", delta_empty=RealT()),
                    categorical_dissim=ObjT("CategoricalDissimilarity", delta_empty=RealT()))

GK_MACROS = POS_MACROS + [
    Macro("UL", [], "self.unitary_alignments"),
    Macro("nlen", ["t"], "len(self.unitary_alignments[t]._n_tuple)"),
    Macro("su", ["t", "i"], "self.unitary_alignments[t]._n_tuple[i][1]"),
    Macro("nb", ["t"], "psum(lam(k, ite(isnone(self.unitary_alignments[t]._n_tuple[k][1]), 0, 1)), nlen(t))"),
    Macro("wb", ["t"], "ite(nb(t) < 2, 0, 1 / toreal(nb(t) - 1))"),
    Macro("hascat", ["t", "i"], "not isnone(su(t, i)) and some(su(t, i)).annotation == category"),
    Macro("counts", ["t", "i", "j"], "isnone(category) or hascat(t, i) or hascat(t, j)"),
    Macro("posd", ["u", "v"], "POS(u.s, u.e, u.e - u.s, v.s, v.e, v.e - v.s) * dissimilarity.positional_dissim.delta_empty"),
    Macro("wgt", ["t", "i", "j"], "wb(t) * max(0, 1 - dissimilarity.alpha * posd(some(su(t, i)), some(su(t, j))))"),
    Macro("tnum", ["t", "i", "j"],
          "ite(not counts(t, i, j) or (isnone(su(t, i)) and isnone(su(t, j))), 0, "
          "ite(isnone(su(t, i)) or isnone(su(t, j)), dissimilarity.delta_empty * dissimilarity.delta_empty, "
          "catd(dissimilarity.categorical_dissim, some(su(t, i)), some(su(t, j))) * wgt(t, i, j)))"),
    Macro("tden", ["t", "i", "j"],
          "ite(not counts(t, i, j) or (isnone(su(t, i)) and isnone(su(t, j))), 0, "
          "ite(isnone(su(t, i)) or isnone(su(t, j)), dissimilarity.delta_empty, wgt(t, i, j)))"),
    Macro("tany", ["t", "i", "j"], "counts(t, i, j)"),
    Macro("treal", ["t", "i", "j"], "counts(t, i, j) and not isnone(su(t, i)) and not isnone(su(t, j))"),
    Macro("N", [], "len(self.unitary_alignments)"),
    Macro("acc_inv", ["t", "i", "j"],
          "total_disorder == GN(t, i, j) and total_weight == GD(t, i, j) and no_cat == (not FA(t, i, j)) and no_loop == (not FR(t, i, j)) "
          "and total_disorder >= 0 and total_weight >= 0 and implies(total_weight == 0, total_disorder == 0)"),
]


def fold_axioms(name, term, zero, plus):
    return [f"{name}(0, 0, 0) == {zero}",
            f"forall([t, i, j], implies(0 <= t and t < N() and 0 <= i and i < nlen(t) and 0 <= j and j < nlen(t) - i - 1, "
            f"{name}(t, i, j + 1) == ({name}(t, i, j) {plus} {term}(t, i, i + 1 + j))), pat=[{name}(t, i, j + 1)])",
            f"forall([t, i], implies(0 <= t and t < N() and 0 <= i and i < nlen(t), {name}(t, i + 1, 0) == {name}(t, i, nlen(t) - i - 1)),"
            f" pat=[{name}(t, i + 1, 0)])",
            f"forall(t, implies(0 <= t and t < N(), {name}(t + 1, 0, 0) == {name}(t, nlen(t), 0)), pat=[{name}(t + 1, 0, 0)])"]


contract(F + "Alignment.gamma_k_disorder",
         params={"self": ALIGN(), "dissimilarity": COMB(), "category": OptT(StrT())}, returns=RealT(), modifies=[],
         coerce={"total_disorder": "Real", "total_weight": "Real", "weight_base": "Real"},
         ghost_funs=[GhostFun("GN", "Int Int Int -> Real"), GhostFun("GD", "Int Int Int -> Real"),
                     GhostFun("FA", "Int Int Int -> Bool"), GhostFun("FR", "Int Int Int -> Bool")],
         macros=GK_MACROS,
         axioms=fold_axioms("GN", "tnum", "0", "+") + fold_axioms("GD", "tden", "0", "+")
                + fold_axioms("FA", "tany", "False", "or") + fold_axioms("FR", "treal", "False", "or"),
         requires=["dissimilarity.delta_empty >= 0",
                   "forall(t, 0, N(), forall(i, 0, nlen(t), implies(not isnone(su(t, i)), some(su(t, i)).e - some(su(t, i)).s > 1e-6)))"],
         ensures=[cl("result == ite(not FR(N(), 0, 0), ite(not FA(N(), 0, 0), 1, 0), "
                     "ite(GN(N(), 0, 0) == 0, 0, GN(N(), 0, 0) / GD(N(), 0, 0)))", "C12", name="weighted-mean-of-categorical-dissimilarity"),
                  cl("result >= 0", "C12", name="non-negative")],
         loops={"L0": dict(match="for unitary_alignment in self", index="tt", inv=["acc_inv(tt, 0, 0)"]),
                "L0.0": dict(match="for i, (_, unit1) in enumerate(unitary_alignment.n_tuple)",
                             inv=["acc_inv(tt, i, 0)", "nv == nb(tt)", "weight_base == wb(tt)"]),
                "L0.0.0": dict(match="for _, unit2 in unitary_alignment.n_tuple[i + 1:]", index="jj",
                               inv=["acc_inv(tt, i, jj)", "nv == nb(tt)", "weight_base == wb(tt)"])},
         serves={"C12"})

contract(F + "Alignment.gamma_k_disorder#not-combined",
         params={"self": ALIGN(), "dissimilarity": ObjT("PositionalSporadicDissimilarity", delta_empty=RealT()), "category": OptT(StrT())},
         returns=RealT(), modifies=[],
         raises={"TypeError": {"iff": "true()"}},
         notes="gamma-cat / gamma-k are refused for dissimilarities that are not the combined one",
         serves={"C12"})

# ------------------------------------------------------------------------------------------ Alignment.disorder (cached case)
contract(F + "Alignment.disorder", params={"self": ALIGN()}, returns=RealT(), is_property=True, modifies=["self._disorder"],
         requires=["not isnone(self._disorder)"],
         ensures=[cl("result == some(old(self._disorder)) and self._disorder == old(self._disorder)", "C03 C05", name="the-cached-value")],
         notes="the uncached branch (sum of unitary disorders over the mean number of units) is the variant Alignment.disorder#lazy (contracts/lazy.py)",
         serves={"C03", "C05", "C10"})

# ------------------------------------------------------------------------------------------ take_until_limit  (C10: progress of the fast alignment)
contract(F + "UnitaryAlignment.bounds", params={"self": UAT()}, returns=TupleOf(RealT(), RealT()), is_property=True, trusted=True,
         notes="abstract: a pair of floats (np.inf / -np.inf arithmetic is outside the encoding); no obligation relies on its value - "
               "take_until_limit's progress and subset clauses hold whatever the bounds are",
         serves={"C10"})

contract(F + "Alignment.take_until_limit",
         params={"self": ALIGN(), "x_limit": RealT()}, returns=UAT(),
         lets={"nU": "len(self.unitary_alignments)"},
         ghost_vars={"PI": ("AInt", None)},
         calls={"bounds": F + "UnitaryAlignment.bounds"},
         yields=[cl("0 <= PI[nyield] and PI[nyield] < nU and yielded == self.unitary_alignments[PI[nyield]]", "C10",
                    name="a-unitary-alignment-of-this-alignment"),
                 cl("forall(k2, 0, nyield, PI[k2] != PI[nyield])", "C10", name="each-at-most-once")],
         count_facts=[cl("nyield <= nU", "C10", name="at-most-all"),
                      cl("implies(nU >= 1, nyield >= 1)", "C10", name="progress-the-leftmost-is-always-taken")],
         loops={"L0": dict(match="for i, unitary_alignment in enumerate(sorted(...", iter_name="SRT", iter_ghost={"PI": "last_perm()"},
                           inv=["nyield == i", "len(SRT) == nU",
                                "forall(k, 0, nU, 0 <= PI[k] and PI[k] < nU and SRT[k] == self.unitary_alignments[PI[k]])",
                                "forall(k, 0, nU, forall(k2, 0, k, PI[k2] != PI[k]))"])},
         serves={"C10"})

# ------------------------------------------------------------------------------------------ validity checks  (C17)
from .continuum import ITER_MACROS, ITER_LEMMAS, CONT   # noqa: E402
from .speclib import RI  # noqa: E402,F401
PairT = lambda: TupleOf(StrT(), UnitT())       # noqa: E731
CHECK_MACROS = ITER_MACROS + [
    Macro("L", [], "self.unitary_alignments"),
    Macro("nL", [], "len(self.unitary_alignments)"),
    Macro("width", ["t"], "len(self.unitary_alignments[t]._n_tuple)"),
    Macro("real", ["t", "i"], "not isnone(self.unitary_alignments[t]._n_tuple[i][1])"),
    Macro("holds", ["t", "i", "a", "u"], "self.unitary_alignments[t]._n_tuple[i][0] == a and "
                                         "not isnone(self.unitary_alignments[t]._n_tuple[i][1]) and "
                                         "some(self.unitary_alignments[t]._n_tuple[i][1]) == u"),
    Macro("inrange", ["t", "i"], "0 <= t and t < nL() and 0 <= i and i < width(t)"),
    Macro("once", ["a", "u"], "exists([t, i], inrange(t, i) and holds(t, i, a, u))"),
    Macro("twice", ["a", "u"], "exists([t1, i1, t2, i2], inrange(t1, i1) and inrange(t2, i2) and (t1 != t2 or i1 != i2) and "
                               "holds(t1, i1, a, u) and holds(t2, i2, a, u))"),
    Macro("same_width", [], "forall(t, 0, nL(), width(t) == width(0))"),
    # lexicographic order of slots
    Macro("before", ["t1", "i1", "t2", "i2"], "t1 < t2 or (t1 == t2 and i1 < i2)"),
    # the flattened list of real slots built by the second pair of loops, up to slot (tt, ii) exclusive
    Macro("flat_upto", ["tt", "ii"],
          "NAT == len(alignment_tuples) and "
          "forall(k, 0, NAT, inrange(TOF[k], IOF[k]) and before(TOF[k], IOF[k], tt, ii) and "
          "          holds(TOF[k], IOF[k], alignment_tuples[k][0], alignment_tuples[k][1])) and "
          "forall(k1, 0, NAT, forall(k2, k1 + 1, NAT, before(TOF[k1], IOF[k1], TOF[k2], IOF[k2]))) and "
          "forall([t, i], implies(inrange(t, i) and before(t, i, tt, ii) and real(t, i), "
          "                        exists(k, 0, NAT, TOF[k] == t and IOF[k] == i)))"),
]


def lemmas_for(lemmas, expr):
    """the continuum lemmas (stated about `self`) restated about another continuum expression"""
    import re
    r = lambda t: re.sub(r"\bself\b", expr, t)     # noqa: E731
    return [Lemma(l.name, r(l.statement.text), method=l.method, binders=l.binders, hyps=[r(h.text) for h in l.hyps],
                  pats=l.pats, hints=[r(h.text) for h in l.hints]) for l in lemmas]


# Order independence (C17, last clause): the verdicts of both checks are functions of same_width / once / twice / foreign; each of
# these is invariant under a permutation of the unitary alignments.  Stated over explicit arrays (width, name, is-None, unit per slot)
# for two alignments related by a bijection P (inverse Q) of their positions, with the same formulas as the CHECK macros.
from pyvc.contract import SORTS as _SORTS   # noqa: E402
import z3 as _z3   # noqa: E402
_SORTS.setdefault("A2Bool", _z3.ArraySort(_z3.IntSort(), _z3.ArraySort(_z3.IntSort(), _z3.BoolSort())))
_SORTS.setdefault("A2Unit", _z3.ArraySort(_z3.IntSort(), _z3.ArraySort(_z3.IntSort(), _SORTS["Unit"])))


def _arr_macros(k):
    W, N, E, U = f"W{k}", f"N{k}", f"E{k}", f"U{k}"
    return [Macro(f"inr{k}", ["t", "i"], f"0 <= t and t < n and 0 <= i and i < {W}[t]"),
            Macro(f"hold{k}", ["t", "i", "a", "u"], f"{N}[t][i] == a and not {E}[t][i] and {U}[t][i] == u"),
            Macro(f"once{k}", ["a", "u"], f"exists([t, i], inr{k}(t, i) and hold{k}(t, i, a, u))"),
            Macro(f"twice{k}", ["a", "u"], f"exists([t1, i1, t2, i2], inr{k}(t1, i1) and inr{k}(t2, i2) and (t1 != t2 or i1 != i2) and "
                                           f"hold{k}(t1, i1, a, u) and hold{k}(t2, i2, a, u))"),
            Macro(f"allw{k}", ["w"], f"forall(t, 0, n, {W}[t] == w)")]


PERM_BINDERS = [("n", "Int"), ("P", "AInt"), ("Q", "AInt")] + [(f"{x}{k}", srt) for k in (1, 2) for x, srt in
                                                                 (("W", "AInt"), ("N", "A2Real"), ("E", "A2Bool"), ("U", "A2Unit"))]
PERM_HYPS = ["n >= 1",
             "forall(t, 0, n, 0 <= P[t] and P[t] < n and Q[P[t]] == t and 0 <= Q[t] and Q[t] < n and P[Q[t]] == t)",
             "forall(t, 0, n, W2[t] == W1[P[t]] and W1[t] >= 0 and forall(i, 0, W2[t], N2[t][i] == N1[P[t]][i] and E2[t][i] == E1[P[t]][i] and "
             "U2[t][i] == U1[P[t]][i]))"]
ORDER_LEMMAS = [
    Lemma("once_is_order_independent", "once1(a, u) == once2(a, u)", binders=PERM_BINDERS + [("a", "Real"), ("u", "Unit")], hyps=PERM_HYPS,
          hints=["forall([t, i], implies(inr1(t, i) and hold1(t, i, a, u), inr2(Q[t], i) and hold2(Q[t], i, a, u)))",
                 "implies(once1(a, u), once2(a, u))", "implies(once2(a, u), once1(a, u))"]),
    Lemma("twice_is_order_independent", "twice1(a, u) == twice2(a, u)", binders=PERM_BINDERS + [("a", "Real"), ("u", "Unit")], hyps=PERM_HYPS,
          hints=["implies(twice1(a, u), twice2(a, u))", "implies(twice2(a, u), twice1(a, u))"]),
    Lemma("same_width_is_order_independent", "allw1(W1[0]) == allw2(W2[0])", binders=PERM_BINDERS, hyps=PERM_HYPS,
          hints=["implies(allw1(W1[0]), allw2(W2[0]))", "implies(allw2(W2[0]), allw1(W1[0]))"]),
]


def check_contract(variant, cexpr, extra_requires):
    """Alignment.check: returns normally iff every (annotator, unit) of the continuum is held by exactly one slot; SetPartitionError
    otherwise (ValueError for unitary alignments of unequal widths, IndexError for an alignment without unitary alignment)"""
    C = cexpr
    part_ok = f"forall([(a, Real), (u, Unit)], implies(Us({C})[a][u], once(a, u) and not twice(a, u)))"
    contract(F + "Alignment.check#" + variant,
             params={"self": ALIGN(), "continuum": OptObjT(CONT())}, modifies=[],
             macros=CHECK_MACROS + [Macro("C", [], C)] + (_arr_macros(1) + _arr_macros(2) if variant == "given" else []),
             lemmas=ORDER_LEMMAS if variant == "given" else [],
             locals={"alignment_tuples": PairT(), "continuum_tuples": PairT()},
             ghost_vars={"TOF": ("AInt", None), "IOF": ("AInt", None), "NAT": ("Int", "0")},
             requires=extra_requires + [
                 f"RI({C})",
                 "nL() >= 1",       # an alignment without unitary alignment: self.unitary_alignments[0] raises IndexError (DESIGN.md C17)
                 # domain of the statement: a pair that is not a pair of the continuum is never held twice (the code rejects that too;
                 # the statement's dichotomy speaks of the continuum's pairs only) - see DESIGN.md C17
                 f"forall([(a, Real), (u, Unit)], implies(twice(a, u), Us({C})[a][u]))"],
             raises={"ValueError": {"iff": "not same_width()"},
                     "SetPartitionError": {"iff": f"same_width() and not {part_ok}"}},
             ensures=[cl(part_ok, "C17", name="every-pair-of-the-continuum-held-exactly-once")],
             loops={"L0": dict(match="for unit_align in self.unitary_alignments", index="t0",
                               inv=["forall(t, 0, t0, width(t) == width(0))", "first_len == width(0)"]),
                    "L1": dict(match="for annotator, unit in continuum", index="iU",
                               inv=[f"forall([(a, Real), (u, Unit)], has(continuum_tuples, (a, u)) == (Us({C})[a][u] and flat({C}, a, u) < iU))"]),
                    "L2": dict(match="for unitary_alignment in self.unitary_alignments", index="tU",
                               inv=["flat_upto(tU, 0)"]),
                    "L2.0": dict(match="for annotator, unit in unitary_alignment.n_tuple", index="iS",
                                 inv=["flat_upto(tU, iS)"])},
             hooks=[("before", "for annotator, unit in continuum: ...", f"model_inv wfmap({C})"),
                    ("before", "alignment_tuples.append((annotator, unit))", "TOF = store(TOF, NAT, tU)"),
                    ("before", "alignment_tuples.append((annotator, unit))", "IOF = store(IOF, NAT, iS)"),
                    ("after", "alignment_tuples.append((annotator, unit))", "NAT = NAT + 1"),
                    ("before", "alignment_tuples = list()",
                     f"assert forall([(a, Real), (u, Unit)], implies(Us({C})[a][u], flat({C}, a, u) < NumUnits({C})))"),
                    ("before", "alignment_tuples = list()",
                     f"assert forall([(a, Real), (u, Unit)], has(continuum_tuples, (a, u)) == Us({C})[a][u])"),
                    # nothing missing: every pair of the continuum sits at some position of the flattened list, hence in a slot
                    ("before", "tuples_counts = Counter(alignment_tuples)",
                     f"assert forall([(a, Real), (u, Unit)], implies(Us({C})[a][u], has(continuum_tuples, (a, u)) and "
                     "not has(missing_tuples, (a, u)) and exists(k, 0, NAT, alignment_tuples[k][0] == a and alignment_tuples[k][1] == u)))"),
                    ("before", "tuples_counts = Counter(alignment_tuples)",
                     f"assert forall([(a, Real), (u, Unit)], implies(Us({C})[a][u], once(a, u)))"),
                    # two distinct slots holding the same pair are two distinct positions of the flattened list
                    ("after", "repeated_tuples = {...", "assert forall([(a, Real), (u, Unit)], implies(twice(a, u), "
                     "exists([k1, k2], 0 <= k1 and k1 < k2 and k2 < NAT and alignment_tuples[k1][0] == a and alignment_tuples[k1][1] == u and "
                     "alignment_tuples[k2][0] == a and alignment_tuples[k2][1] == u)))"),
                    ("after", "repeated_tuples = {...", "assert forall([(a, Real), (u, Unit)], implies(has(repeated_tuples, (a, u)), "
                     "exists([k1, k2], 0 <= k1 and k1 < k2 and k2 < NAT and alignment_tuples[k1][0] == a and alignment_tuples[k1][1] == u and "
                     "alignment_tuples[k2][0] == a and alignment_tuples[k2][1] == u)))"),
                    ("after", "repeated_tuples = {...", f"assert forall([(a, Real), (u, Unit)], implies(has(repeated_tuples, (a, u)), twice(a, u) and Us({C})[a][u]))"),
                    ("after", "repeated_tuples = {...", "assert forall([(a, Real), (u, Unit)], implies(twice(a, u), has(repeated_tuples, (a, u))))"),
                    ("after", "repeated_tuples = {...", f"assert forall([(a, Real), (u, Unit)], implies(Us({C})[a][u] and twice(a, u), "
                     f"has(repeated_tuples, (a, u))), pat=[Us({C})[a][u]])")],
             serves={"C17"})


check_contract("given", "some(continuum)", ["not isnone(continuum)"])
check_contract("own", "some(self.continuum)", ["isnone(continuum)", "not isnone(self.continuum)"])
contract(F + "Alignment.check#none", params={"self": ALIGN(), "continuum": OptObjT(CONT())}, modifies=[],
         requires=["isnone(continuum)", "isnone(self.continuum)"],
         raises={"ValueError": {"iff": "true()"}},
         notes="no continuum anywhere: ValueError before anything is inspected", serves={"C17"})


def init_validity_contract(cls, check_variant, part_kind, name=None, recv_cls=None, calls=None):
    """Alignment(..., continuum, check_validity=True): the constructor stores its arguments and applies exactly self.check()"""
    import re
    ren = lambda t: re.sub(r"\bself\.unitary_alignments\b", "unitary_alignments", t)      # noqa: E731
    macros = [Macro(m.name, m.params, ren(m.body.text)) for m in CHECK_MACROS]
    C = "some(continuum)"
    if part_kind == "partition":
        ok = f"forall([(a, Real), (u, Unit)], implies(Us({C})[a][u], once(a, u) and not twice(a, u)))"
        dom = [f"forall([(a, Real), (u, Unit)], implies(twice(a, u), Us({C})[a][u]))"]
    else:
        ok = f"forall([(a, Real), (u, Unit)], implies(Us({C})[a][u], once(a, u)))"
        dom = [f"forall([t, i], implies(inrange(t, i) and real(t, i), Us({C})[unitary_alignments[t]._n_tuple[i][0]]"
               "[some(unitary_alignments[t]._n_tuple[i][1])]))"]
    contract(F + (name or f"{cls}.__init__#validity"),
             params={"self": ALIGN(recv_cls or cls), "unitary_alignments": ListOf(UAT()), "continuum": OptObjT(CONT()),
                     "check_validity": BoolT(), "disorder": OptT(RealT())},
             modifies=["self"], macros=macros,
             requires=["check_validity", "not isnone(continuum)", f"RI({C})", "len(unitary_alignments) >= 1"] + dom,
             raises={"ValueError": {"iff": "not same_width()"},
                     "SetPartitionError": {"iff": f"same_width() and not {ok}"}},
             ensures=[cl(ok, "C17", name="constructed-only-if-the-check-passes")],
             binds={"self.unitary_alignments": "unitary_alignments", "self.continuum": "continuum", "self._disorder": "disorder"},
             calls=calls or {"self.check": F + f"{cls}.check#" + check_variant},
             serves={"C17"})


init_validity_contract("Alignment", "own", "partition")


def soft_check_contract(variant, cexpr, extra_requires):
    """SoftAlignment.check: returns normally iff every (annotator, unit) of the continuum is held by at least one slot (and every held
    pair is a pair of the continuum: a foreign pair makes the counting raise KeyError)"""
    C = cexpr
    cover_ok = f"forall([(a, Real), (u, Unit)], implies(Us({C})[a][u], once(a, u)))"
    foreign = (f"exists([t, i], inrange(t, i) and real(t, i) and not (Ann({C})[L()[t]._n_tuple[i][0]] and "
               f"Us({C})[L()[t]._n_tuple[i][0]][some(L()[t]._n_tuple[i][1])]))")
    counted = ("forall([(a, Real), (u, Unit)], occ(unit_occurences, a, u) >= 0 and "
               "(occ(unit_occurences, a, u) >= 1) == exists([t, i], inrange(t, i) and before(t, i, {tt}, {ii}) and holds(t, i, a, u)))")
    nf_upto = (f"forall([t, i], implies(inrange(t, i) and before(t, i, {{tt}}, {{ii}}) and real(t, i), Ann({C})[L()[t]._n_tuple[i][0]] and "
               f"Us({C})[L()[t]._n_tuple[i][0]][some(L()[t]._n_tuple[i][1])]))")
    contract(F + "SoftAlignment.check#" + variant,
             params={"self": ALIGN("SoftAlignment"), "continuum": OptObjT(CONT())}, modifies=[],
             macros=CHECK_MACROS + [Macro("C", [], C)],
             requires=extra_requires + [f"RI({C})", "nL() >= 1"],
             raises={"ValueError": {"iff": "not same_width()"},
                     "KeyError": {"iff": f"same_width() and {foreign}"},
                     "SetPartitionError": {"iff": f"same_width() and not {foreign} and not {cover_ok}"}},
             ensures=[cl(cover_ok, "C17", name="every-pair-of-the-continuum-held-at-least-once")],
             loops={"L0": dict(match="for unit_align in self.unitary_alignments", index="t0",
                               inv=["forall(t, 0, t0, width(t) == width(0))", "first_len == width(0)"]),
                    "L1": dict(match="for i, unitary_align in enumerate(self)", index="tU",
                               inv=[counted.format(tt="tU", ii="0"), nf_upto.format(tt="tU", ii="0")]),
                    "L1.0": dict(match="for annotator, unit in unitary_align.n_tuple", index="iS",
                                 inv=[counted.format(tt="tU", ii="iS"), nf_upto.format(tt="tU", ii="iS")]),
                    "L2": dict(match="for annotator, factors in unit_occurences.items()", index="kA",
                               inv=[f"forall(k, 0, kA, forall(j, 0, Cnt({C})[Kseq({C})[k]], occ(unit_occurences, Kseq({C})[k], Useq({C})[Kseq({C})[k]][j]) != 0))"]),
                    "L2.0": dict(match="for unit, factor in factors.items()", index="jU",
                                 inv=[f"forall(j, 0, jU, occ(unit_occurences, annotator, Useq({C})[annotator][j]) != 0)",
                                      f"annotator == Kseq({C})[kA]"])},
             hooks=[("before", "for annotator, factors in unit_occurences.items(): ...", f"model_inv wfmap({C})")],
             serves={"C17"})


soft_check_contract("given", "some(continuum)", ["not isnone(continuum)"])
soft_check_contract("own", "some(self.continuum)", ["isnone(continuum)", "not isnone(self.continuum)"])
contract(F + "SoftAlignment.check#none", params={"self": ALIGN("SoftAlignment"), "continuum": OptObjT(CONT())}, modifies=[],
         requires=["isnone(continuum)", "isnone(self.continuum)"], raises={"ValueError": {"iff": "true()"}},
         notes="no continuum anywhere: ValueError before anything is inspected", serves={"C17"})
# SoftAlignment(..., check_validity=True) -> Alignment.__init__ run on a SoftAlignment receiver -> SoftAlignment.check()
init_validity_contract("Alignment", "own", "cover", name="Alignment.__init__#validity-soft", recv_cls="SoftAlignment",
                       calls={"self.check": F + "SoftAlignment.check#own"})
init_validity_contract("SoftAlignment", "own", "cover", calls={"super().__init__": F + "Alignment.__init__#validity-soft"})

# ------------------------------------------------------------------------------------------ observers used by the recomputation path (C03)
contract(F + "Alignment.annotators", params={"self": ALIGN()}, returns=ObjT("SetStr"), is_property=True, modifies=[],
         requires=["len(self.unitary_alignments) >= 1"],
         ensures=[cl("fresh_obj(result)", name="fresh"),
                  cl("forall([(a, Real)], members(result)[a] == exists(i, 0, len(self.unitary_alignments[0]._n_tuple), "
                     "self.unitary_alignments[0]._n_tuple[i][0] == a))", "C03", name="the-annotators-named-in-the-first-unitary-alignment"),
                  cl("wfset(result)", name="sorted-enumeration"),
                  cl("implies(forall(i1, 0, len(self.unitary_alignments[0]._n_tuple), forall(i2, i1 + 1, len(self.unitary_alignments[0]._n_tuple), "
                     "self.unitary_alignments[0]._n_tuple[i1][0] != self.unitary_alignments[0]._n_tuple[i2][0])), "
                     "size(result) == len(self.unitary_alignments[0]._n_tuple))", "C03", name="as-many-as-slots-when-no-name-repeats")],
         serves={"C03"})

contract(F + "Alignment.categories#attached", params={"self": ALIGN()}, is_property=True, returns_expr="some(self.continuum)._categories",
         requires=["not isnone(self.continuum)"],
         ensures=[cl("same_obj(result, some(self.continuum)._categories)", name="the-continuum's-live-category-set")],
         serves={"C03"})
