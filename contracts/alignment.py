"""Contracts for pygamma_agreement/alignment.py."""
from pyvc.contract import (contract, cl, GhostFun, Macro, Lemma, NdArray, ListOf, IntT, RealT, BoolT, TupleOf, FnT, OptT, RecT)
from pyvc.heap import ObjT, UnitT, OptObjT
from .types import StrT, SegT
from .speclib import VIEW_MACROS

F = "pygamma_agreement/alignment.py::"
SlotT = lambda: TupleOf(StrT(), OptT(UnitT()))                                    # noqa: E731  (annotator, unit | None)
UAT = lambda: RecT("UnitaryAlignment", _n_tuple=ListOf(SlotT()), _disorder=OptT(RealT()))   # noqa: E731
ALIGN = lambda cls="Alignment": ObjT(cls, unitary_alignments=ListOf(UAT()),         # noqa: E731
                                     continuum=OptObjT(ObjT("Continuum")), _disorder=OptT(RealT()))

# ------------------------------------------------------------------------------------------ UnitaryAlignment (record by value)
contract(F + "UnitaryAlignment.__init__",
         params={"self": UAT(), "n_tuple": ListOf(SlotT())}, value_self=True,
         raises={"AssertionError": {"iff": "len(n_tuple) < 2"}},
         binds={"self._n_tuple": "n_tuple"},
         ensures=[cl("isnone(self._disorder)", name="no-disorder-yet"), cl("len(self._n_tuple) >= 2", name="arity")],
         serves={"C01", "C03", "C10", "C11"})

contract(F + "UnitaryAlignment.disorder@setter",
         params={"self": UAT(), "value": RealT()}, value_self=True,
         binds={"self._disorder": "value"},
         ensures=[cl("self._n_tuple == old(self._n_tuple)", name="tuple-unchanged")],
         serves={"C01", "C03", "C10", "C11"})

# ------------------------------------------------------------------------------------------ Alignment.__init__
for cls in ("Alignment",):
    contract(F + f"{cls}.__init__",
             params={"self": ALIGN(cls), "unitary_alignments": ListOf(UAT()), "continuum": OptObjT(ObjT("Continuum")),
                     "check_validity": BoolT(), "disorder": OptT(RealT())},
             modifies=["self"],
             requires=["not check_validity"],      # the validating path is the contract of Alignment.check (C17)
             binds={"self.unitary_alignments": "unitary_alignments", "self.continuum": "continuum", "self._disorder": "disorder"},
             serves={"C01", "C03", "C10", "C11", "C17"})

contract(F + "SoftAlignment.__init__",
         params={"self": ALIGN("SoftAlignment"), "unitary_alignments": ListOf(UAT()), "continuum": OptObjT(ObjT("Continuum")),
                 "check_validity": BoolT(), "disorder": OptT(RealT())},
         modifies=["self"],
         requires=["not check_validity"],
         binds={"self.unitary_alignments": "unitary_alignments", "self.continuum": "continuum", "self._disorder": "disorder"},
         serves={"C11", "C03", "C17"})
