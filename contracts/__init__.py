"""Sidecar contracts for the functions of /repo (one module per source file)."""
