"""Alignment.disorder, uncached branch (C03): the sum of the disorders its unitary alignments carry over the mean number of units."""
from pyvc.contract import contract, cl, RealT
from .speclib import VIEW_MACROS
from .alignment import F, ALIGN
from pyvc.contract import Macro

from .alignment import UAT
contract(F + "UnitaryAlignment.disorder#value", params={"self": UAT()}, returns=RealT(), is_property=True, modifies=[], inline_result=True,
         raises={"ValueError": {"iff": "isnone(self._disorder)"}},
         ensures=[cl("result == some(self._disorder)", "C03", name="the-carried-value")], serves={"C03"})

_M = [Macro("L", [], "self.unitary_alignments"), Macro("CC", [], "some(self.continuum)")]
contract(F + "Alignment.disorder#lazy", params={"self": ALIGN()}, returns=RealT(), is_property=True, modifies=["self._disorder"],
         macros=VIEW_MACROS + _M,
         calls={"self.avg_num_annotations_per_annotator": F + "Alignment.avg_num_annotations_per_annotator#attached",
                "u_align.disorder": F + "UnitaryAlignment.disorder#value"},
         requires=["isnone(self._disorder)", "not isnone(self.continuum)", "Nkeys(CC()) >= 1", "NumUnits(CC()) >= 1",
                   "forall(t, 0, len(L()), not isnone(L()[t]._disorder))"],
         ensures=[cl("not isnone(self._disorder) and some(self._disorder) == result", "C03", name="the-value-is-memoised"),
                  cl("result * (toreal(NumUnits(CC())) / Nkeys(CC())) == rpsum(lam(t, some(L()[t]._disorder)), len(L()))", "C03",
                     name="sum-of-the-carried-unitary-disorders-over-the-mean-number-of-units")],
         serves={"C03"})
