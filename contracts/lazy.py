"""Alignment.disorder, uncached branch (C03): the sum of the disorders its unitary alignments carry over the mean number of units."""
from pyvc.contract import contract, cl, RealT
from .speclib import VIEW_MACROS
from .alignment import F, ALIGN
from pyvc.contract import Macro

from .alignment import UAT
contract(F + "UnitaryAlignment.disorder#value", params={"self": UAT()}, returns=RealT(), is_property=True, modifies=[], inline_result=True,
         raises={"ValueError": {"iff": "isnone(self._disorder)"}},
         ensures=[cl("result == some(self._disorder)", "C03", name="the-carried-value")], serves={"C03"})

_M = [Macro("L", [], "self.unitary_alignments"), Macro("CC", [], "some(self.continuum)")]
contract(F + "Alignment.disorder#lazy", params={"self": ALIGN()}, returns=RealT(), is_property=True, modifies=["self._disorder"],
         macros=VIEW_MACROS + _M,
         calls={"self.avg_num_annotations_per_annotator": F + "Alignment.avg_num_annotations_per_annotator#attached",
                "u_align.disorder": F + "UnitaryAlignment.disorder#value"},
         requires=["isnone(self._disorder)", "not isnone(self.continuum)", "Nkeys(CC()) >= 1", "NumUnits(CC()) >= 1",
                   "forall(t, 0, len(L()), not isnone(L()[t]._disorder))"],
         ensures=[cl("not isnone(self._disorder) and some(self._disorder) == result", "C03", name="the-value-is-memoised"),
                  cl("result * (toreal(NumUnits(CC())) / Nkeys(CC())) == rpsum(lam(t, some(L()[t]._disorder)), len(L()))", "C03",
                     name="sum-of-the-carried-unitary-disorders-over-the-mean-number-of-units")],
         serves={"C03"})

# ---- detached alignments (no continuum): the mean number of units per annotator is counted on the unitary alignments themselves
_MD = [Macro("L", [], "self.unitary_alignments"),
       Macro("nreal", ["t"], "psum(lam(k, ite(isnone(L()[t]._n_tuple[k][1]), 0, 1)), len(L()[t]._n_tuple))")]
from pyvc.contract import IntT   # noqa: E402
contract(F + "UnitaryAlignment.nb_units#value", params={"self": UAT()}, returns=IntT(), is_property=True, modifies=[], inline_result=True,
         ensures=[cl("result == psum(lam(k, ite(isnone(self._n_tuple[k][1]), 0, 1)), len(self._n_tuple))", "C03", name="number-of-real-units")],
         serves={"C03"})
contract(F + "Alignment.avg_num_annotations_per_annotator#detached", params={"self": ALIGN()}, returns=RealT(), is_property=True, modifies=[],
         macros=_MD,
         calls={"unitary_alignment.nb_units": F + "UnitaryAlignment.nb_units#value"},
         requires=["isnone(self.continuum)", "len(L()) >= 1"],
         raises={"ZeroDivisionError": {"iff": "len(L()[0]._n_tuple) == 0"}},
         ensures=[cl("result * len(L()[0]._n_tuple) == psum(lam(t, nreal(t)), len(L()))", "C03",
                     name="real-units-of-the-unitary-alignments-over-the-number-of-annotators")],
         serves={"C03"})
contract(F + "Alignment.disorder#lazy-detached", params={"self": ALIGN()}, returns=RealT(), is_property=True, modifies=["self._disorder"],
         macros=_MD,
         calls={"self.avg_num_annotations_per_annotator": F + "Alignment.avg_num_annotations_per_annotator#detached",
                "u_align.disorder": F + "UnitaryAlignment.disorder#value"},
         requires=["isnone(self._disorder)", "isnone(self.continuum)", "len(L()) >= 1", "len(L()[0]._n_tuple) >= 1",
                   "psum(lam(t, nreal(t)), len(L())) >= 1",
                   "forall(t, 0, len(L()), not isnone(L()[t]._disorder))"],
         ensures=[cl("not isnone(self._disorder) and some(self._disorder) == result", "C03", name="the-value-is-memoised"),
                  cl("result * psum(lam(t, nreal(t)), len(L())) == rpsum(lam(t, some(L()[t]._disorder)), len(L())) * len(L()[0]._n_tuple)", "C03",
                     name="sum-of-the-carried-unitary-disorders-over-real-units-per-annotator")],
         serves={"C03"})
contract(F + "Alignment.num_annotators", params={"self": ALIGN()}, returns=IntT(), is_property=True, modifies=[],
         requires=["len(self.unitary_alignments) >= 1"],
         ensures=[cl("result == len(self.unitary_alignments[0]._n_tuple)", "C03", name="arity-of-the-first-unitary-alignment")],
         serves={"C03"})
