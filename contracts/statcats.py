"""StatisticalContinuumSampler._set_categories_information (C15): the categorical law measured on the reference - the categories in
alphabetical order, each with the fraction of the reference's units that carry it."""
from pyvc.contract import contract, cl, Macro, NdArray, RealT
from pyvc.heap import ObjT, OptObjT
from .continuum import CONT, ITER_MACROS
from .sampler import F

STATC = lambda: ObjT("StatisticalContinuumSampler", _reference_continuum=OptObjT(CONT()),       # noqa: E731
                     _categories=NdArray("f64", 1), _categories_weight=NdArray("f64", 1))
_M = ITER_MACROS + [Macro("ref", [], "some(self._reference_continuum)"),
                    Macro("hits", ["c", "k"], "psum(lam(q, ite(LAB[q] == Cseq(ref())[c], 1, 0)), k)"),
                    Macro("hitsY", ["c", "k"], "psum(lam(q, ite(YS[q][1].lab == Cseq(ref())[c], 1, 0)), k)")]

contract(F + "StatisticalContinuumSampler._set_categories_information",
         params={"self": STATC()}, modifies=["self._categories", "self._categories_weight"], macros=_M,
         requires=["not isnone(self._reference_continuum)", "RI(ref())", "NumUnits(ref()) >= 1",
                   "forall([(a, Real), (u, Unit)], implies(Us(ref())[a][u], u.haslab))"],
         ghost_vars={"LAB": ("AReal", None)},
         calls={"self._reference_continuum.categories": "pygamma_agreement/continuum.py::Continuum.categories"},
         ensures=[cl("forall([(a, Real), (u, Unit)], implies(Us(ref())[a][u], LAB[flat(ref(), a, u)] == u.lab))", "C15",
                     name="one-label-per-unit-of-the-reference-in-iteration-order"),
                  cl("shape(self._categories) == (Ncat(ref()),) and forall(c, 0, Ncat(ref()), self._categories[c] == Cseq(ref())[c])", "C15",
                     name="the-categories-of-the-reference-in-alphabetical-order"),
                  cl("shape(self._categories_weight) == (Ncat(ref()),) and forall(c, 0, Ncat(ref()), "
                     "self._categories_weight[c] * NumUnits(ref()) == hits(c, NumUnits(ref())))", "C15",
                     name="weight-of-a-category-is-the-fraction-of-the-reference's-units-that-carry-it")],
         loops={"L0": dict(match="for _, unit in self._reference_continuum", index="kz", seq_name="YS",
                           modifies=["self._categories_weight"],
                           inv=["shape(self._categories_weight) == (Ncat(ref()),)",
                                "forall(c, 0, Ncat(ref()), self._categories_weight[c] == hitsY(c, kz))"])},
         hooks=[("before", "for _, unit in self._reference_continuum: ...", "model_inv wfmap(ref())"),
                ("before", "for _, unit in self._reference_continuum: ...", "model_inv wfcats(ref())"),
                ("after", "for _, unit in self._reference_continuum: ...", "LAB = lam(q, YS[q][1].lab)")],
         serves={"C15"})
