"""Property -> dependency cone: the functions under contract whose obligations decide the property, what the
contracts leave undecided, and what is trusted.  (The property statements themselves are in properties.jsonl.)"""
from .numba_utils import F as NU
from .dissimilarity import F as DS

S_COMMON = [
    "S1 python int / numba int64 are mathematical integers; narrowing stores carry range obligations; int64 overflow not modelled",
    "S2 float/float32/float64 are real numbers (no rounding, no NaN); 'up to single-precision rounding' is proved as exact equality",
    "S3 numpy arrays and lists by value (a mutated array is reached only through the name it was created under)",
    "S4 an @nb.njit function behaves as its Python source under S1-S3; decorators are read, not executed",
]

from .continuum import F as CT
from .alignment import F as AL
from .sampler import F as SP
from .cst import F as CS

CONT_OBSERVERS = [CT + "Continuum." + m for m in ("annotators", "__bool__", "num_annotators", "num_units",
                                                  "avg_num_annotations_per_annotator", "categories")]
ALIGN_CTORS = [AL + "UnitaryAlignment.__init__", AL + "UnitaryAlignment.disorder@setter", AL + "Alignment.__init__"]
KERNEL_CHAIN = [NU + "iter_tuples", NU + "extend_right_alignments", NU + "extend_right_disorders", NU + "build_A",
                DS + "AbstractDissimilarity._get_all_valid_alignments", DS + "AbstractDissimilarity._build_arrays_continuum",
                DS + "AbstractDissimilarity.valid_alignments"]
T_SOLVER = ["model: cvxpy boolean program / CBC / GLPK_MI (pyvc/models/numpy_cvx.py): solve() raises SolverError, or leaves x.value None "
            "only if infeasible, or returns a feasible 0/1 vector of minimal objective",
            "model: numpy np.where / fancy indexing", "model: sortedcontainers SortedSet / SortedDict (pyvc/heap.py); its "
            "precondition (Unit.__lt__ is a strict total order consistent with ==) is an obligation, not an assumption",
            "model: python lists / generator-expression aggregates", "S6 dataclass equality of Unit is field-wise"]

PROPS = {
    "C01": dict(
        functions=KERNEL_CHAIN + CONT_OBSERVERS + ALIGN_CTORS + [CT + "Unit.__lt__", CT + "Continuum.get_best_alignment"],
        oracles=[CT + "Continuum.get_best_alignment"],
        design_ref="DESIGN.md section 4 C01, appendix A.7",
        not_decided=["P4 feasibility of the 0/1 program (the all-singletons vector is feasible because singletons are candidates): "
                     "argued in DESIGN.md, not machine-checked; the solver's own termination",
                     "that CBC / GLPK honour the assumed solver contract (bounded stand-in: oracle runs in the thorough tier)"],
        trusted=S_COMMON + T_SOLVER,
    ),
    "C02": dict(
        functions=KERNEL_CHAIN + CONT_OBSERVERS + ALIGN_CTORS + [CT + "Continuum.get_best_alignment"],
        oracles=[CT + "Continuum.get_best_alignment"],
        design_ref="DESIGN.md section 4 C02",
        not_decided=["lifting of the pruning lemma from one unitary alignment to whole partitions (Mathet et al. 2015, 5.1.1): pen-and-paper",
                     "sum over the support of the 0/1 solution == dot product with the solution (stated as two clauses, the identity itself is not machine-checked)",
                     "float32 rounding of the objective (ties within rounding may select another argmin)",
                     "that CBC / GLPK return optima (assumed solver contract; bounded stand-in: brute force over all partitions in the oracle)"],
        trusted=S_COMMON + T_SOLVER,
    ),
    "C08": dict(
        functions=[NU + "build_A", DS + "AbstractDissimilarity.valid_alignments"] + CONT_OBSERVERS + ALIGN_CTORS
                  + [AL + "SoftAlignment.__init__", CT + "Continuum.get_best_alignment", CT + "Continuum.get_best_soft_alignment"],
        oracles=[CT + "Continuum.get_best_alignment", CT + "Continuum.get_best_soft_alignment"],
        design_ref="DESIGN.md section 4 C08",
        not_decided=["the solvers themselves (both back ends are given the same assumed contract; what is proved is that the CBC exit and the "
                     "GLPK exit - after ImportError or SolverError - pass the same program and satisfy the same partition / cover / optimality clauses)"],
        trusted=S_COMMON + T_SOLVER,
    ),
    "C11": dict(
        functions=KERNEL_CHAIN + CONT_OBSERVERS + [AL + "UnitaryAlignment.__init__", AL + "UnitaryAlignment.disorder@setter",
                                                   AL + "SoftAlignment.__init__", AL + "Alignment.__init__",
                                                   CT + "Continuum.get_best_soft_alignment", CT + "Continuum.get_best_alignment"],
        oracles=[CT + "Continuum.get_best_soft_alignment"],
        design_ref="DESIGN.md section 4 C11",
        not_decided=["S4 of the statement (soft disorder <= best disorder) follows from: both are optimal for programs with the same objective, "
                     "and every vector feasible for `== 1` is feasible for `>= 1`; this last implication is immediate but stated in DESIGN.md, "
                     "not as an obligation", "solver contract (as C02)"],
        trusted=S_COMMON + T_SOLVER,
    ),
    "C13": dict(
        functions=[CT + "Unit.__lt__"] + [CT + "Continuum." + m for m in (
            "__init__", "add", "add_annotator", "remove", "copy", "copy_flush", "merge", "__add__", "reset_bounds", "__iter__",
            "iter_annotator", "num_units", "num_annotators", "__len__", "__bool__", "annotators", "categories", "bounds",
            "avg_num_annotations_per_annotator", "__eq__", "__ne__", "__getitem__#annotator", "__getitem__#index")],
        oracles=[CT + "Continuum.merge"],
        bounded=[dict(oracle=CT + "Continuum.__eq__",
                      what="iterunits (a bare iterator object) is not under contract; __getitem__ by (annotator, index) is (the index-th unit in the documented "
                           "order, negative indexes from the end, KeyError / IndexError exactly); __eq__ / __ne__ are (exact characterisation) and are "
                           "exercised here as well: random operation histories (add / add_annotator / remove / merge / copy / reset_bounds) replayed "
                           "against a plain set-per-annotator model, equality checked for reflexivity, symmetry, transitivity and against the model")],
        design_ref="DESIGN.md section 4 C13, appendix A.6",
        not_decided=["__eq__ with an argument that is not a Continuum (returns False before anything is compared): not under contract",
                     "'any history' is the induction the per-operation contracts give: each operation requires RI and the whole old view "
                     "and ensures RI and the whole new view"],
        trusted=S_COMMON + ["model: sortedcontainers SortedSet / SortedDict incl. its enumeration invariant; precondition unit_order is "
                            "proved (lemmas unit_order_* + Unit.__lt__ == documented order)", "model: copy.deepcopy",
                            "model: pyannote Segment (duration / bool with SEGMENT_PRECISION)", "model: python aggregates over generator expressions",
                            "S6 dataclass equality"],
    ),
    "C15": dict(
        functions=[SP + "StatisticalContinuumSampler.sample_from_continuum", SP + "AbstractContinuumSampler._has_been_init",
                   SP + "StatisticalContinuumSampler._set_nb_units_information", SP + "StatisticalContinuumSampler._set_duration_information",
                   SP + "StatisticalContinuumSampler._set_categories_information", SP + "StatisticalContinuumSampler._set_gap_information",
                   SP + "StatisticalContinuumSampler.init_sampling#given", SP + "StatisticalContinuumSampler.init_sampling#default",
                   SP + "StatisticalContinuumSampler.init_sampling_custom",
                   SP + "AbstractContinuumSampler.init_sampling#given", SP + "AbstractContinuumSampler.init_sampling#default"]
                  + [CT + "Continuum." + m for m in ("copy_flush", "add", "add_annotator", "__bool__")] + [CT + "Unit.__lt__"],
        lawtags=True,
        oracles=[SP + "StatisticalContinuumSampler.sample_from_continuum"],
        bounded=[dict(oracle=SP + "StatisticalContinuumSampler.sample_from_continuum",
                      what="_set_nb_units_information and _set_duration_information are proved (mean / np.std of exactly the reference's per-annotator "
                           "counts / unit durations), _set_categories_information too (the reference's categories in alphabetical order, each "
                           "weighted by the fraction of the reference's units carrying it; for references whose units are all labelled) and "
                           "_set_gap_information (np.mean / np.std of a list that starts with 0 and otherwise holds only distances between two "
                           "units adjacent in iteration order of one annotator, or positive first starts; that EVERY such gap is in the list "
                           "is not stated), and the statistical sampler's init_sampling (after it, every law parameter is the one the four setters measure "
                           "on the reference; ground-truth annotators as given / all) and init_sampling_custom (the laws get exactly the supplied "
                           "parameters, weights None iff not supplied, ValueError iff their number differs from the categories', the supplied "
                           "annotators are the ground truth). Bounded: measured parameters "
                           "against numpy on random references, 40 seeded draws per case: validity clauses again, plus a loose 6-standard-error "
                           "check of the mean duration")],
        design_ref="DESIGN.md section 4 C15",
        not_decided=["convergence of empirical statistics over many draws is a statistical statement: the contracts pin the law and the parameters "
                     "of every draw site (law tags) and where the parameters come from; a subtly biased NumPy generator would not be noticed",
                     "the gap list is defined by the code (leading 0, inter-unit gaps, positive first-unit offsets): from-code, flagged",
                     "the boundary draw end - start == SEGMENT_PRECISION exits the redraw loop and is rejected by Continuum.add (ValueError, no "
                     "continuum emitted): measure-zero, declared as an exceptional exit"],
        trusted=S_COMMON + ["model: random generators return a value in the support of the requested law",
                            "law tags are syntactic data-flow facts (no SMT)", "model: sortedcontainers"],
    ),
    "C16": dict(
        functions=[SP + "ShuffleContinuumSampler.sample_from_continuum", SP + "ShuffleContinuumSampler._remove_pivot_segment",
                   SP + "AbstractContinuumSampler._has_been_init", CT + "Continuum.avg_length_unit", SP + "ShuffleContinuumSampler._random_from_segments",
                   SP + "AbstractContinuumSampler.init_sampling#given", SP + "AbstractContinuumSampler.init_sampling#default",
                   SP + "ShuffleContinuumSampler.init_sampling#given", SP + "ShuffleContinuumSampler.init_sampling#default"] + [CT + "Continuum." + m for m in (
            "copy_flush", "add", "add_annotator", "iter_annotator", "bounds", "__bool__")] + [CT + "Unit.__lt__"],
        oracles=[SP + "ShuffleContinuumSampler.sample_from_continuum"],
        bounded=[dict(oracle=SP + "ShuffleContinuumSampler.sample_from_continuum",
                      what="_random_from_segments is proved over the RNG model (the weights are a probability vector, so the ValueError fallback "
                           "`return 1` is dead code: an obligation), and the "
                           "integer-pivot separation is a known finding: seeded draws from random grid continua (2..5 annotators, ground-truth "
                           "subsets, both pivot types, non-zero lower bounds, integer timestamps) with the pivots recorded from the harness: "
                           "every sampled annotator is the wrapped translation of one ground-truth annotator by its pivot, pivots within bounds, "
                           "whole numbers in int mode, pairwise >= avg unit length / 2 apart; reference unchanged"),
                 dict(oracle=SP + "ShuffleContinuumSampler._random_from_segments#assumed-contract",
                      what="the contract of _random_from_segments (now proved over the RNG model) clause by clause on the real code, i.e. an exercise of that model: random lists of positive-length "
                           "segments (incl. very short ones and integer timestamps), both pivot types: returns, float pivot within a segment, "
                           "int pivot a whole number; avg_length_unit > 0")],
        design_ref="DESIGN.md section 4 C16, appendix A.5",
        not_decided=["uniformity of the pivots (statistical)",
                     "'same number' of units: the proved clause is set-level (the sampled annotator's units are exactly the shifted images of the "
                     "ground-truth annotator's); equal counts follow from injectivity of the shift, not machine-checked",
                     "separation is proved for float pivots drawn while a segment is still available ('as long as the continuum is long "
                     "enough'); integer pivots: whole numbers proved, separation is the known finding C16-int-pivot-separation",
                     "termination of the retry loop (probabilistic)"],
        trusted=S_COMMON + ["model: python lists (append / pop)", "model: pyannote Segment",
                            "model: random generators (support only; np.random.choice(list, p=float array) raises ValueError unless the weights are "
                            "a probability vector)",
                            "pt(x) = True: a trigger predicate for clauses quantified over real points"],
    ),
    "C03": dict(
        functions=[DS + "AbstractDissimilarity._compute_alignment_disorders", DS + "AbstractDissimilarity._build_arrays_continuum",
                   DS + "AbstractDissimilarity._build_arrays_alignment", AL + "Alignment.annotators", AL + "Alignment.categories#attached",
                   DS + "AbstractDissimilarity.compute_disorder", AL + "Alignment.compute_disorder", AL + "SoftAlignment.compute_disorder",
                   AL + "Alignment.avg_num_annotations_per_annotator#attached", AL + "Alignment.disorder#lazy", AL + "UnitaryAlignment.disorder#value", AL + "UnitaryAlignment.nb_units#value",
                   AL + "Alignment.num_annotators", AL + "Alignment.avg_num_annotations_per_annotator#detached", AL + "Alignment.disorder#lazy-detached",
                   CT + "Continuum.avg_num_annotations_per_annotator", CT + "Continuum.num_units", CT + "Continuum.num_annotators"]
                  + ALIGN_CTORS + [AL + "SoftAlignment.__init__", CT + "Continuum.get_best_alignment", CT + "Continuum.get_best_soft_alignment"],
        oracles=[AL + "Alignment.compute_disorder"],
        bounded=[dict(oracle=AL + "Alignment.compute_disorder",
                      what="proved: _build_arrays_alignment (each slot encoded at the RANK of its annotator, whatever its position: D5 at the encoding "
                           "level), AbstractDissimilarity.compute_disorder (kernel o encoding), Alignment.compute_disorder for an alignment "
                           "attached to its continuum (D2: every unitary alignment gets its recomputed disorder, the alignment their sum over "
                           "x-bar), the lazy Alignment.disorder property of an attached alignment whose unitary alignments carry their disorders (D3: their "
                           "sum over x-bar, memoised), and of a detached one (x-bar counted on the unitary alignments: real units over the number of "
                           "annotators). Not under contract: recomputation (compute_disorder) of detached alignments, "
                           "UnitaryAlignment.compute_disorder (known finding): best, soft and hand-built alignments (attached or not, annotators listed in shuffled order) of random "
                           "grid continua with 2..5 annotators, every built-in dissimilarity family: cached, per-unitary and recomputed "
                           "disorders against the definition written from the statement")],
        design_ref="DESIGN.md section 4 C03, appendix A.3",
        not_decided=["recomputation of detached alignments (no continuum) is bounded only; that the recomputed disorder of a library-returned "
                     "alignment equals the carried one (two different proved computations of the same pair fold) is bounded"],
        trusted=S_COMMON + T_SOLVER,
    ),
    "C04": dict(
        functions=[DS + q for q in ("PositionalSporadicDissimilarity.compile_d_mat.<locals>.d_mat", "PositionalSporadicDissimilarity.d",
                                    "AbsoluteCategoricalDissimilarity.compile_d_mat.<locals>.d_mat", "AbsoluteCategoricalDissimilarity.d",
                                    "PrecomputedCategoricalDissimilarity.compile_d_mat.<locals>.d_mat",
                                    "CombinedCategoricalDissimilarity.compile_d_mat.<locals>.d_mat",
                                    # constructors: the class invariant (the compiled kernel is the documented formula with the object's own
                                    # delta_empty) for the positional, absolute and default combined dissimilarities
                                    "PositionalSporadicDissimilarity.compile_d_mat", "AbstractDissimilarity.__init__#positional",
                                    "PositionalSporadicDissimilarity.__init__",
                                    "AbsoluteCategoricalDissimilarity.compile_d_mat", "AbstractDissimilarity.__init__#absolute",
                                    "CategoricalDissimilarity.__init__#absolute", "AbsoluteCategoricalDissimilarity.__init__",
                                    "CombinedCategoricalDissimilarity.compile_d_mat", "AbstractDissimilarity.__init__#combined",
                                    "CombinedCategoricalDissimilarity.__init__#defaults", "CombinedCategoricalDissimilarity.__init__#supplied",
                                    "CombinedCategoricalDissimilarity.d",
                                    "PrecomputedCategoricalDissimilarity.compile_d_mat", "AbstractDissimilarity.__init__#precomputed",
                                    "CategoricalDissimilarity.__init__#precomputed", "PrecomputedCategoricalDissimilarity.__init__",
                                    "PrecomputedCategoricalDissimilarity.d", "LambdaCategoricalDissimilarity.__init__", "AbstractDissimilarity.check_if_dissim",
                                    # ordinal / numerical: the entry of two NAMES is the distance of their positions over the largest distance,
                                    # whatever the order supplied (np.argsort enumeration == SortedSet enumeration: induction lemma)
                                    "OrdinalCategoricalDissimilarity.__init__#default", "OrdinalCategoricalDissimilarity.__init__#given",
                                    "NumericalCategoricalDissimilarity.__init__")],
        oracles=[DS + "CombinedCategoricalDissimilarity.__init__"],
        bounded=[dict(oracle=DS + "CombinedCategoricalDissimilarity.__init__",
                      what="Levenshtein's distance function itself (assumed: a function of the two names) is not under contract; check_if_dissim "
                           "is proved to change nothing (it may raise ValueError); the matrix-building constructors are proved (lambda family: matrix built from the "
                           "sorted SET of the labels; ordinal / numerical: np.argsort / np.unique / np.arange and the parse of number literals "
                           "are assumed library models, a list p of positions is covered as a float32 array only); that d() and d_mat(encoded units) coincide is the "
                           "corollary 'both equal the same formula' given an injective category index: every class, delta_empty in "
                           "{0.5,1,2,3}, shuffled label order, 1..300 categories, components built with another delta_empty: d_mat(encoded) == "
                           "d(units) == documented formula, symmetric, >= 0, 0 on identical units")],
        design_ref="DESIGN.md section 4 C04",
        not_decided=["Levenshtein DP == edit distance (not part of the statement)", "float32 rounding (S2)",
                     "class invariant kappa == delta_empty: proved for PositionalSporadic, AbsoluteCategorical and the default Combined "
                     "constructor, with default components and with supplied positional / absolute components built with any other delta_empty "
                     "(the one delta_empty reaches both components and their kernels), PrecomputedCategorical (kernel reads the object's matrix), "
                     "LambdaCategorical / Levenshtein (matrix from the sorted set of labels: independent of their order), Ordinal / Numerical "
                     "(entry of two names == distance of their positions / largest distance, for every supplied order; positions given as a "
                     "Python list instead of an array: bounded)"],
        trusted=S_COMMON + ["model: pyannote Segment.duration", "closure semantics: captured names are declared and checked against the "
                            "free variables of the closure body; a nested def yields a pure function value satisfying its own (separately "
                            "proved) contract with the captured names bound to their values at the definition (not re-assigned afterwards: checked)",
                            "model: stdlib random generator (support only; randrange of an empty range raises ValueError)"],
    ),
    "C09": dict(
        functions=[DS + "PositionalSporadicDissimilarity.compile_d_mat.<locals>.d_mat", DS + "AbsoluteCategoricalDissimilarity.compile_d_mat.<locals>.d_mat",
                   DS + "CombinedCategoricalDissimilarity.compile_d_mat.<locals>.d_mat",
                   DS + "AbstractDissimilarity._compute_alignment_disorders", DS + "AbstractDissimilarity._get_all_valid_alignments",
                   NU + "iter_tuples", NU + "extend_right_alignments", NU + "extend_right_disorders"],
        oracles=[DS + "PositionalSporadicDissimilarity.compile_d_mat.<locals>.d_mat#invariance"],
        bounded=[dict(oracle=DS + "PositionalSporadicDissimilarity.compile_d_mat.<locals>.d_mat#invariance",
                      what="the step from kernel-level invariance to the optimum of the MIP (an instance of the trusted lifting of C02) "
                           "for slot permutations: metamorphic runs of get_best_alignment / compute_gamma on grid continua up to 2x8, 3x4, 5x2 "
                           "under annotator renaming+permutation, category renaming, translation, scaling, delta_empty scaling")],
        design_ref="DESIGN.md section 4 C09 (I1-I4)",
        not_decided=["slot-permutation invariance for more than 5 annotators (lemmas ud_perm_2 .. ud_perm_5 cover the statement's 2..5)", "float32 rounding under translation / scaling (S2)",
                     "same candidate disorders => same optimum: instance of the trusted lifting of C02"],
        trusted=S_COMMON,
    ),
    "C12": dict(
        functions=[AL + "Alignment.gamma_k_disorder", AL + "Alignment.gamma_k_disorder#not-combined", AL + "UnitaryAlignment.nb_units",
                   AL + "UnitaryAlignment.n_tuple", AL + "Alignment.__iter__", DS + "PositionalSporadicDissimilarity.d",
                   DS + "AbsoluteCategoricalDissimilarity.d"],
        wiring_gamma="C12",
        oracles=[CT + "GammaResults.gamma_k"],
        bounded=[dict(oracle=CT + "GammaResults.gamma_k",
                      what="GammaResults.gamma_cat / gamma_k (thread-pool jobs): 8 data-flow (wiring) obligations; their run-time meaning: best / soft alignments and full gamma "
                           "computations (3 chance samples) on random grid continua, categories present and absent, every combined parameter set: "
                           "disorder against the definition, gamma-cat / gamma-k == 1 - observed/mean chance, <= 1, == 1 on identical annotators; "
                           "TypeError for a non-combined dissimilarity")],
        design_ref="DESIGN.md section 4 C12, appendix A.4",
        not_decided=["whether the weighting should use alpha (the statement says it does)",
                     "corner cases taken from the code: no counted pair at all -> 1.0, only unit/empty pairs -> 0.0 (flagged from-code)",
                     "gamma_cat / gamma_k themselves (1 - observed/expected over the thread pool): bounded only"],
        trusted=S_COMMON + ["interface contract of the abstract CategoricalDissimilarity.d (value depends on the two category names, >= 0): "
                            "assumed for the abstract method, proved for AbsoluteCategoricalDissimilarity.d",
                            "model: python list slicing / enumerate / filter / generator-expression sum"],
    ),
    "C05": dict(
        functions=[CT + q for q in ("GammaResults.n_samples", "GammaResults.observed_disorder", "GammaResults.expected_disorder",
                                    "GammaResults.gamma", "_compute_best_alignment_job", "_compute_soft_alignment_job", "_compute_gamma_k_job",
                                    "Continuum.get_best_alignment", "Continuum.get_best_soft_alignment")]
                  + [AL + "Alignment.disorder"] + CONT_OBSERVERS + ALIGN_CTORS + [AL + "SoftAlignment.__init__"],
        wiring_gamma="C05",
        oracles=[CT + "Continuum.compute_gamma"],
        bounded=[dict(oracle=CT + "Continuum.compute_gamma",
                      what="Continuum.compute_gamma runs its jobs through a thread pool (no executor model): what it adds to the proved job / GammaResults "
                           "contracts is decided as 12 data-flow (wiring) obligations; their run-time meaning on seeded computations on "
                           "random grid continua, n_samples in {1,3,5}, precision none / numeric / named, three samplers, ground-truth subsets, three "
                           "modes: number of chance alignments == max(n_samples, ceil((1.96 CV/p)^2)), every chance alignment is a valid alignment "
                           "of its own fresh valid sample over the ground-truth annotators, observed == brute-force optimum of the requested kind, "
                           "expected == mean, gamma formula, gamma == 1 on identical annotators")],
        design_ref="DESIGN.md section 4 C05, appendix A.9",
        not_decided=["G2/G3 (sample counts, one fresh sample per job) are bounded only", "statistical adequacy of the estimate"],
        trusted=S_COMMON + T_SOLVER + ["model: np.mean(list) = ghost prefix sum / length"],
    ),
    "C18": dict(
        functions=[CT + "Continuum." + m for m in ("to_csv", "from_csv", "add_annotation", "from_rttm", "add_timeline", "add_elan", "add_textgrid",
                                                   "__iter__", "add", "__init__")] + [CT + "Unit.__lt__"],
        oracles=[CT + "Continuum.to_csv"],
        bounded=[dict(oracle=CT + "Continuum.to_csv",
                      what="the readers' glue code (add_annotation, add_timeline, from_rttm, add_elan, add_textgrid) is proved over ASSUMED models of the "
                           "third-party objects (pyannote Annotation / Timeline = their tracks / segments, load_rttm = some dict, pympi.Eaf = tier "
                           "name -> annotations, textgrid.TextGrid = list of interval tiers, empty mark = None); the parsers themselves and the "
                           "conformance of these models are exercised here: generated TextGrid, "
                           "ELAN and RTTM files (tier selections, both label modes, empty marks) read back against what was written; csv round trips "
                           "with delimiters , ; tab |, quotes, unicode, line feeds and carriage returns inside fields; zero-length rows")],
        design_ref="DESIGN.md section 4 C18 (X1-X5)",
        not_decided=["the third-party parsers (textgrid, pympi, pyannote.database) and on-disk encodings",
                     "from_csv(to_csv(c)) == c is the composition of the two proved contracts over the assumed csv model (reader(writer(rows)) == rows)",
                     "unlabelled units are written as the empty string and read back as the label '' (the statement covers labelled units)"],
        trusted=S_COMMON + ["model: open / csv.reader / csv.writer / float(str(x)) == x (pyvc/models/csvio.py); its precondition newline='' is an obligation",
                            "model: sortedcontainers; Continuum.add / __iter__ contracts (proved in C13)"],
    ),
    "C19": dict(
        functions=[CS + "CorpusShufflingTool.corpus_from_reference#names", CS + "CorpusShufflingTool.corpus_from_reference#count",
                   CS + "CorpusShufflingTool.false_neg_shuffle", CS + "CorpusShufflingTool.shift_shuffle", CS + "CorpusShufflingTool.splits_shuffle", CS + "CorpusShufflingTool.corpus_shuffle#names", CS + "CorpusShufflingTool.corpus_shuffle#count", CS + "CorpusShufflingTool.false_pos_shuffle", CT + "Continuum.category_weights",
                   CS + "CorpusShufflingTool.__init__", CT + "Continuum.avg_length_unit",
                   CT + "Continuum.__getitem__#annotator"]
                  + [CT + "Continuum." + m for m in ("__init__", "add", "remove", "iter_annotator", "annotators", "bounds")] + [CT + "Unit.__lt__"],
        oracles=[CS + "CorpusShufflingTool.corpus_shuffle"],
        bounded=[dict(oracle=CS + "CorpusShufflingTool.corpus_shuffle",
                      what="corpus_shuffle (annotator names given, or a number of annotators: names annotator_0..k-1) is proved for every combination of flags over the proved contracts of "
                           "corpus_from_reference / shift / false-negative / false-positive / split shuffles and the ASSUMED set-level contract of "
                           "category_shuffle (transition matrices outside the encoding): exactly the requested annotators "
                           "(+ the reference when asked, AssertionError iff its name is requested), none empty, valid units. The counting clauses "
                           "(shift keeps the number of units, a split adds one and keeps the total duration) need the genericity hypothesis G; "
                           "magnitude 0 = exact copy is not composed deductively. All of these, and "
                           "the assumed contract, are exercised on seeded runs on random single-annotator references, magnitudes 0 / 0.2 / "
                           "0.5 / 1, names or counts, every flag alone and random combinations, include_ref")],
        design_ref="DESIGN.md section 4 C19 (K1-K4)",
        not_decided=["genericity hypothesis G: a freshly drawn continuous coordinate does not coincide exactly with an existing unit's",
                     "splits_shuffle: when the cut falls within 1e-6 of the end the first add raises and the fallback re-inserts the unsplit unit "
                     "(no unit added for that announced split): a draw of measure ~1e-6/length, read in the code, not reproduced by the bounded runs",
                     "the amount of perturbation per magnitude (statistical)"],
        trusted=S_COMMON + ["model: random generators (support only)", "model: sortedcontainers / deepcopy / f-string with one integer hole",
                            "class constants SHIFT_FACTOR == 2, SPLIT_FACTOR == 2.5 (read from the class body, requires of the two shuffles)",
                            ],
    ),
    "C10": dict(
        functions=[CT + "Continuum.get_fast_alignment", AL + "Alignment.take_until_limit", CT + "_compute_fast_alignment_job",
                   CT + "Continuum.get_best_alignment", CT + "Continuum.copy", CT + "Continuum.remove", CT + "Continuum.__bool__",
                   CT + "Continuum.avg_num_annotations_per_annotator", AL + "Alignment.__init__", AL + "UnitaryAlignment.n_tuple"],
        wiring_fast=True,
        oracles=[CT + "Continuum.get_fast_alignment", CT + "Continuum.measure_best_window_size"],
        bounded=[dict(oracle=CT + "Continuum.get_fast_alignment",
                      what="get_first_window is ASSUMED to return a fresh non-empty sub-continuum over the same annotators (zip / map / numpy code "
                           "outside the encoding); that assumption, and the clauses 'disorder >= optimum' / '== optimum when the window covers "
                           "everything' (consequences of optimality, not stated as contracts), are exercised on the real code with a stall "
                           "detector and a 20 s alarm: grids of 2-4 annotators x up to 4 units incl. nested / long overlapping units and empty "
                           "annotators x window sizes 1..ceil(units/annotators)+1 x 6 dissimilarities, brute-force optimum up to 8 units"),
                 dict(oracle=CT + "Continuum.get_first_window#assumed-contract",
                      what="the ASSUMED contract of get_first_window, clause by clause on the real code (fresh, same annotators in the same order, "
                           "sub-continuum, no more units per annotator, representation invariant, non-empty, source unchanged), same grids x "
                           "every window size"),
                 dict(oracle=CT + "Continuum.measure_best_window_size",
                      what="the estimate itself (numpy closures) is outside the encoding: measure_best_window_size on random continua with a "
                           "stale finite best_window_size stored beforehand gives the verdict of a fresh measurement; the fast job calls "
                           "get_fast_alignment iff the stored window is finite")],
        design_ref="DESIGN.md section 4 C10 (F1-F4)",
        not_decided=["get_first_window itself (assumed contract: fresh, non-empty, sub-continuum, same annotators in the same order); with it, "
                     "termination (variant NumUnits(copy)) and partition-hood of get_fast_alignment are proved for all inputs and window sizes",
                     "'never lower than the best alignment's disorder' and 'equal when the window covers everything': bounded only",
                     "a continuum without any unit (disorder 0/0): outside requires",
                     "the quality of the window-size estimate (a performance heuristic)"],
        trusted=S_COMMON + T_SOLVER + ["model: sorted(list, key=...) returns a permutation (its order is not used)",
                                       "UnitaryAlignment.bounds abstract (np.inf arithmetic outside the encoding; no obligation depends on its value)",
                                       "wiring obligations W1-W4 are syntactic facts of the current AST"],
    ),
    "C17": dict(
        functions=[AL + "Alignment.check#given", AL + "Alignment.check#own", AL + "Alignment.check#none",
                   AL + "SoftAlignment.check#given", AL + "SoftAlignment.check#own", AL + "SoftAlignment.check#none",
                   AL + "Alignment.__init__#validity", AL + "Alignment.__init__#validity-soft", AL + "SoftAlignment.__init__#validity",
                   AL + "UnitaryAlignment.n_tuple", AL + "Alignment.__iter__", CT + "Continuum.__iter__"],
        oracles=[AL + "Alignment.check"],
        bounded=[dict(oracle=AL + "Alignment.check",
                      what="order independence (proved as permutation-invariance lemmas of the characterising predicates) and "
                           "the conformance of the set / Counter / occurrence-table models are exercised on the real code: random valid partitions "
                           "of grid continua (2-4 annotators, <= 3 units each, unlabelled units) with 0-3 mutations among drop / duplicate / move / "
                           "re-slot / drop or repeat a unitary alignment, shuffled: check(), check(continuum), a re-shuffled copy, and "
                           "check_validity=True for both classes")],
        design_ref="DESIGN.md section 4 C17",
        not_decided=["an alignment without any unitary alignment raises IndexError (self.unitary_alignments[0]) instead of a verdict: outside requires",
                     "Alignment.check also rejects a pair that is NOT a pair of the continuum when it is held twice (the statement speaks of the "
                     "continuum's pairs only): outside requires; a foreign pair held once is ignored (proved)",
                     "SoftAlignment.check raises KeyError (not SetPartitionError) when a held pair is not a pair of the continuum: proved as such "
                     "(raises KeyError iff ...), the statement only asks that the check does not succeed when a unit is missing",
                     "order independence: three machine-checked lemmas (once / twice / equal-widths are invariant under a bijection of the positions "
                     "of the unitary alignments, over explicit slot arrays with the formulas of the characterisations); that the verdicts are "
                     "functions of exactly these predicates is read off the raises-iff clauses, not a separate obligation"],
        trusted=S_COMMON + ["model: builtin set / Counter (pyvc/models/pysets.py)", "model: the occurrence table of SoftAlignment.check "
                            "(pyvc/models/occmap.py)", "model: sortedcontainers enumeration invariant at the final loops (model_inv)",
                            "hash / == of (annotator, unit) pairs is component-wise (S6)"],
    ),
    "C20": dict(
        functions=[CT + "GammaResults.gamma", CT + "GammaResults.n_samples", CT + "GammaResults.expected_disorder", CT + "GammaResults.observed_disorder",
                   AL + "Alignment.disorder"],
        wiring=True,
        oracles=["pygamma_agreement/cli_apps.py::pygamma_cmd"],
        bounded=[dict(oracle="pygamma_agreement/cli_apps.py::pygamma_cmd",
                      what="numerical equality of what is printed / written with the API values: pygamma_cmd run in-process on generated csv files "
                           "(all three output modes, every -d choice, -m, -c, -k, -s, -a -b -e -p -n --seed) against the API call with the same options")],
        design_ref="DESIGN.md section 4 C20 (L1-L4)",
        not_decided=["console formatting beyond the printed number", "rttm input path (wired, not exercised)",
                     "L4 (JSON leaves are python floats): bounded only (the writer models were not built)"],
        trusted=["the option table is read mechanically from the add_argument calls of cli_apps.py; argparse delivers args.<dest> of the declared type",
                 "wiring obligations are syntactic data-flow facts of pygamma_cmd's AST (no SMT); equality with the API values is bounded"],
    ),
    "C06": dict(
        functions=[],
        effects="C06", effects_oracle=CT + "Continuum.compute_gamma#schedules",
        oracles=[CT + "Continuum.compute_gamma#schedules"],
        design_ref="DESIGN.md section 4 C06 (R1-R5), 1.6",
        not_decided=["actual thread interleavings are not explored: a sufficient non-interference condition is proved over a conservative "
                     "(name-based) call graph", "determinism and thread-safety of numba code, cvxpy, CBC/GLPK, sortedcontainers (trusted)",
                     "the futures' results are read in submission order: checked syntactically (no as_completed / wait), the list iteration "
                     "order itself is Python's"],
        trusted=["S8 ThreadPoolExecutor.submit(f, *args) evaluates args in the calling thread; future.result() returns f(*args)",
                 "effect analysis: method calls are resolved by name to every method of the package with that name; objects bound from "
                 "constructor calls / copies / package functions listed in pyvc/effects.py (FRESH_*) are fresh",
                 "the text of error messages may depend on hash order (comprehensions that only format messages are exempt)"],
    ),
    "C14": dict(
        functions=[CT + "Continuum." + m for m in ("get_best_alignment", "get_best_soft_alignment", "copy", "copy_flush", "merge", "__add__",
                                                   "annotators", "categories")]
                  + [DS + "AbstractDissimilarity.valid_alignments", DS + "AbstractDissimilarity._build_arrays_continuum",
                     AL + "Alignment.gamma_k_disorder", DS + "PositionalSporadicDissimilarity.d", DS + "AbsoluteCategoricalDissimilarity.d",
                     # entry points whose contracts carry modifies=[] / fresh results: their frame obligations are discharged here too
                     CT + "Continuum.get_fast_alignment", CT + "Continuum.to_csv", CT + "Continuum.__getitem__#annotator",
                     DS + "AbstractDissimilarity._build_arrays_alignment",
                     SP + "ShuffleContinuumSampler.sample_from_continuum", SP + "StatisticalContinuumSampler.sample_from_continuum",
                     CS + "CorpusShufflingTool.corpus_from_reference#names", CS + "CorpusShufflingTool.corpus_from_reference#count",
                     CS + "CorpusShufflingTool.false_neg_shuffle", CS + "CorpusShufflingTool.false_pos_shuffle", CT + "Continuum.category_weights",
                     CS + "CorpusShufflingTool.__init__",
                     # sampler initialisation (modifies the sampler only: the reference continuum's frame is discharged), recomputed disorders
                     SP + "AbstractContinuumSampler.init_sampling#given", SP + "AbstractContinuumSampler.init_sampling#default",
                     SP + "ShuffleContinuumSampler.init_sampling#given", SP + "ShuffleContinuumSampler.init_sampling#default",
                     SP + "StatisticalContinuumSampler.init_sampling#given", SP + "StatisticalContinuumSampler.init_sampling#default",
                     SP + "StatisticalContinuumSampler.init_sampling_custom",
                     SP + "StatisticalContinuumSampler._set_gap_information", SP + "StatisticalContinuumSampler._set_duration_information",
                     SP + "StatisticalContinuumSampler._set_categories_information", SP + "StatisticalContinuumSampler._set_nb_units_information",
                     DS + "AbstractDissimilarity.compute_disorder", AL + "Alignment.compute_disorder", AL + "SoftAlignment.compute_disorder",
                     AL + "Alignment.disorder#lazy", CT + "Continuum.__getitem__#index"],
        effects="C14", effects_oracle=CT + "Continuum.compute_gamma#purity",
        oracles=[CT + "Continuum.compute_gamma#purity"],
        bounded=[dict(oracle=CT + "Continuum.compute_gamma#purity",
                      what="entry points without a heap contract (first window, compute_gamma, gamma_cat/k, two corpus "
                           "shuffles, file readers) and, redundantly, those with one: inputs snapshotted before / after, derived continua mutated "
                           "afterwards")],
        design_ref="DESIGN.md section 4 C14, 1.5 (frames), 1.6",
        not_decided=["third-party calls write nothing reachable from our objects (trusted)",
                     "Alignment.disorder memoises its value in the alignment it belongs to (not an input continuum / dissimilarity)"],
        trusted=["heap frames: every object that existed on entry and is outside `modifies` is compared field by field at every exit of the "
                 "functions under contract (ghost enumerations of the sorted containers are determined by membership and not compared)",
                 "effect analysis as in C06", "model: deepcopy / sortedcontainers"],
    ),
    "C07": dict(
        functions=[NU + "iter_tuples", NU + "extend_right_alignments", NU + "extend_right_disorders",
                   DS + "AbstractDissimilarity._get_all_valid_alignments"],
        design_ref="DESIGN.md section 4 C07, appendix A.1/A.2",
        not_decided=["int64 overflow of the enumeration counter", "annotators with >= 32767 units (outside requires)",
                     "float32 rounding of the pair sums (S2)"],
        trusted=S_COMMON + ["model: python list comprehension / repetition / nb.typed.List (pyvc/models/pylists.py)",
                            "numba generator = python generator"],
    ),
}
