"""Property -> dependency cone: the functions under contract whose obligations decide the property, what the
contracts leave undecided, and what is trusted.  (The property statements themselves are in properties.jsonl.)"""
from .numba_utils import F as NU
from .dissimilarity import F as DS

S_COMMON = [
    "S1 python int / numba int64 are mathematical integers; narrowing stores carry range obligations; int64 overflow not modelled",
    "S2 float/float32/float64 are real numbers (no rounding, no NaN); 'up to single-precision rounding' is proved as exact equality",
    "S3 numpy arrays and lists by value (a mutated array is reached only through the name it was created under)",
    "S4 an @nb.njit function behaves as its Python source under S1-S3; decorators are read, not executed",
]

PROPS = {
    "C07": dict(
        functions=[NU + "iter_tuples", NU + "extend_right_alignments", NU + "extend_right_disorders",
                   DS + "AbstractDissimilarity._get_all_valid_alignments"],
        design_ref="DESIGN.md section 4 C07, appendix A.1/A.2",
        not_decided=["int64 overflow of the enumeration counter", "annotators with >= 32767 units (outside requires)",
                     "float32 rounding of the pair sums (S2)"],
        trusted=S_COMMON + ["model: python list comprehension / repetition / nb.typed.List (pyvc/models/pylists.py)",
                            "numba generator = python generator"],
    ),
}
