"""Contracts for pygamma_agreement/dissimilarity.py."""
from pyvc.contract import (contract, cl, GhostFun, Macro, Lemma, NdArray, ListOf, IntT, RealT, TupleOf, FnT)
from .numba_utils import F as NU

F = "pygamma_agreement/dissimilarity.py::"
DMAT = FnT(["AReal", "AReal"], "Real")

# =========================================================================================================
# AbstractDissimilarity._get_all_valid_alignments   (DESIGN.md A.2;  properties C07, C01, C02, C11)
#
# ghost:  Y(r)   r-th tuple enumerated by iter_tuples(sizes_with_null)   (rank r, in the box)
#         Mx(a,b,i,j)  = d_mat(row_a(i), row_b(j)) when both are real units, delta_empty otherwise
#         PS(r,a,b)    = partial pair sum of tuple Y(r) in (a outer, b < a inner) order;  S(r) = PS(r, na, 0)
#         cand(r)      = S(r) <= c2n * delta_empty * na         (the code's cut;  == UD <= na * delta_empty)
#         rk[j]        = rank stored at result index j;  pos[r] = result index of rank r
# =========================================================================================================
SLICE = "disorders, alignments = ..."
GAVA_MACROS = [
    Macro("m", ["a"], "len(unit_arrays[a])"),
    Macro("Mx", ["a", "b", "i", "j"],
          "ite(i < m(a) and j < m(b), d_mat(unit_arrays[a][i], unit_arrays[b][j]), delta_empty)"),
    Macro("PRE", ["a", "b"],
          "shape(precomputation[a][b]) == (m(a) + 1, m(b) + 1) and "
          "forall(i, 0, m(a) + 1, forall(j, 0, m(b) + 1, precomputation[a][b][i][j] == Mx(a, b, i, j)))"),
    Macro("S", ["r"], "PS(r, na, 0)"),
    Macro("cand", ["r"], "PS(r, na, 0) <= C2 * delta_empty * na"),
    Macro("inbox", ["r"], "forall(a, 0, na, 0 <= Y(r)[a] and Y(r)[a] <= m(a))"),
]

contract(F + "AbstractDissimilarity._get_all_valid_alignments",
         params={"unit_arrays": ListOf(NdArray("f32", 2)), "d_mat": DMAT, "delta_empty": RealT()},
         returns=TupleOf(NdArray("f32", 1), NdArray("i16", 2)),
         coerce={"disorder": "Real"},
         lets={"na": "len(unit_arrays)", "C2": "na * (na - 1) // 2"},
         ghost_funs=[GhostFun("Y", "Int -> AInt"), GhostFun("PS", "Int Int Int -> Real"), GhostFun("tri", "Int -> Int")],
         macros=GAVA_MACROS,
         axioms=["forall(r, PS(r, 0, 0) == 0)",
                 "forall([r, a, b], implies(0 <= b and b < a and a < na,"
                 "   PS(r, a, b + 1) == PS(r, a, b) + Mx(a, b, Y(r)[a], Y(r)[b])), pat=[PS(r, a, b + 1)])",
                 "forall([r, a], implies(0 <= a and a < na, PS(r, a + 1, 0) == PS(r, a, a)), pat=[PS(r, a + 1, 0)])",
                 "tri(0) == 0", "forall(a, implies(a >= 0, tri(a + 1) == tri(a) + a), pat=[tri(a + 1)])"],
         ghost_vars={"rk": ("AInt", None), "pos": ("AInt", None)},
         lemmas=[
             Lemma("tri_closed", "2 * tri(a) == a * (a - 1)", binders=[("a", "Int")], hyps=["0 <= a"],
                   method=("induction", "a", "0")),
             # pair sums of the all-null tuple: every pair costs delta_empty
             Lemma("PS_null_row", "PS(r, a, b) == PS(r, a, 0) + b * delta_empty",
                   binders=[("r", "Int"), ("a", "Int"), ("b", "Int")],
                   hyps=["0 <= a", "a < na", "0 <= b", "b <= a", "forall(c, 0, na, Y(r)[c] == m(c))"],
                   method=("induction", "b", "0")),
             Lemma("PS_null", "PS(r, a, 0) == tri(a) * delta_empty", binders=[("r", "Int"), ("a", "Int")],
                   hyps=["0 <= a", "a <= na", "forall(c, 0, na, Y(r)[c] == m(c))"], method=("induction", "a", "0")),
         ],
         requires=["na >= 2", "delta_empty >= 0",
                   "forall(a, 0, na, shape(unit_arrays[a])[1] == 4 and m(a) + 1 <= 32767)"],
         calls={"iter_tuples": NU + "iter_tuples", "extend_right_disorders": NU + "extend_right_disorders",
                "extend_right_alignments": NU + "extend_right_alignments"},
         loops={
             "L0": dict(match="for annotator_id in range(nb_annotators)",
                        inv=["forall(a, 0, annotator_id, sizes[a] == m(a) and sizes_with_null[a] == m(a) + 1)"]),
             "L1": dict(match="for annotator_a in range(nb_annotators)",
                        inv=["len(precomputation) == na", "forall(a, 0, na, len(precomputation[a]) == a)",
                             "forall(a, 0, annotator_a, forall(b, 0, a, PRE(a, b)))"]),
             "L1.0": dict(match="for annotator_b in range(annotator_a)",
                          inv=["len(precomputation) == na", "forall(a, 0, na, len(precomputation[a]) == a)",
                               "forall(a, 0, annotator_a, forall(b, 0, a, PRE(a, b)))",
                               "forall(b, 0, annotator_b, PRE(annotator_a, b))"]),
             "L1.0.0": dict(match="for annot_a in range(nb_annot_a)",
                            inv=["forall(i, 0, annot_a, forall(j, 0, nb_annot_b, "
                                 "matrix[i][j] == Mx(annotator_a, annotator_b, i, j)))"]),
             "L1.0.0.0": dict(match="for annot_b in range(nb_annot_b)",
                              inv=["forall(i, 0, annot_a, forall(j, 0, nb_annot_b, "
                                   "matrix[i][j] == Mx(annotator_a, annotator_b, i, j)))",
                                   "forall(j, 0, annot_b, matrix[annot_a][j] == Mx(annotator_a, annotator_b, annot_a, j))"]),
             "L1.0.1": dict(match="for annot_b in range(nb_annot_b + 1)",
                            inv=["forall(i, 0, nb_annot_a, forall(j, 0, nb_annot_b, "
                                 "matrix[i][j] == Mx(annotator_a, annotator_b, i, j)))",
                                 "forall(j, 0, annot_b, matrix[nb_annot_a][j] == delta_empty)"]),
             "L1.0.2": dict(match="for annot_a in range(nb_annot_a + 1)",
                            inv=["forall(i, 0, nb_annot_a, forall(j, 0, nb_annot_b, "
                                 "matrix[i][j] == Mx(annotator_a, annotator_b, i, j)))",
                                 "forall(j, 0, nb_annot_b + 1, matrix[nb_annot_a][j] == delta_empty)",
                                 "forall(i, 0, annot_a, matrix[i][nb_annot_b] == delta_empty)"]),
             "L2": dict(match="for unitary_alignment in iter_tuples(sizes_with_null)", index="rc", seq_fun="Y",
                        inv=[cl("chunk_size >= 2 and len(disorders) == chunk_size and "
                                "shape(alignments) == (chunk_size, na)", name="buffers"),
                             cl("0 <= i_chosen and i_chosen < chunk_size", name="room"),
                             cl("forall(j, 0, i_chosen, 0 <= rk[j] and rk[j] < rc and cand(rk[j]) and "
                                "disorders[j] == S(rk[j]) and forall(a, 0, na, alignments[j][a] == Y(rk[j])[a]))",
                                "C07 C01 C02 C11", name="sound"),
                             cl("forall(j1, 0, i_chosen, forall(j2, j1 + 1, i_chosen, rk[j1] < rk[j2]))", "C07", name="once"),
                             cl("forall(r, 0, rc, implies(cand(r), 0 <= pos[r] and pos[r] < i_chosen and rk[pos[r]] == r))",
                                "C07 C02 C11", name="complete")]),
             "L2.0": dict(match="for annot_a in range(nb_annotators)",
                          inv=["disorder == PS(rc, annot_a, 0)"]),
             "L2.0.0": dict(match="for annot_b in range(annot_a)",
                            inv=["disorder == PS(rc, annot_a, annot_b)"]),
         },
         hooks=[("before", "disorders[i_chosen] = disorder", "rk = store(rk, i_chosen, rc)"),
                ("before", "disorders[i_chosen] = disorder", "pos = store(pos, rc, i_chosen)"),
                # after the enumeration: the last tuple (rank P-1) is the all-null one, it is a candidate (delta_empty >= 0),
                # hence it sits at index i_chosen-1 and the slice removes exactly it
                ("before", SLICE, "assert w(na) >= 1 and forall(a, 0, na, Y(w(na) - 1)[a] == m(a))"),
                ("before", SLICE, "assert PS(w(na) - 1, na, 0) == tri(na) * delta_empty and tri(na) == C2 and C2 >= 1"),
                ("before", SLICE, "assert cand(w(na) - 1)"),
                ("before", SLICE, "assert i_chosen >= 1 and rk[i_chosen - 1] == w(na) - 1")],
         ensures=[cl("len(result[0]) == len(result[1]) and shape(result[1])[1] == na", name="shapes"),
                  cl("forall(k, 0, len(result[0]), 0 <= rk[k] and rk[k] < w(na) - 1 and cand(rk[k]) and "
                     "result[0][k] == S(rk[k]) / C2 and forall(a, 0, na, result[1][k][a] == Y(rk[k])[a]))",
                     "C07 C01 C02 C11", name="sound"),
                  cl("forall(k1, 0, len(result[0]), forall(k2, k1 + 1, len(result[0]), rk[k1] < rk[k2]))", "C07", name="once"),
                  cl("forall(r, 0, w(na) - 1, implies(cand(r), 0 <= pos[r] and pos[r] < len(result[0]) and rk[pos[r]] == r))",
                     "C07 C02 C11", name="complete"),
                  ],
         serves={"C01", "C02", "C07", "C09", "C11"})
