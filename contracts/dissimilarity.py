"""Contracts for pygamma_agreement/dissimilarity.py."""
from pyvc.contract import (contract, cl, GhostFun, Macro, Lemma, NdArray, ListOf, IntT, RealT, TupleOf, FnT)
from .numba_utils import F as NU

F = "pygamma_agreement/dissimilarity.py::"
DMAT = FnT(["AReal", "AReal"], "Real")

# =========================================================================================================
# AbstractDissimilarity._get_all_valid_alignments   (DESIGN.md A.2;  properties C07, C01, C02, C11)
#
# ghost:  Y(r)   r-th tuple enumerated by iter_tuples(sizes_with_null)   (rank r, in the box)
#         Mx(a,b,i,j)  = d_mat(row_a(i), row_b(j)) when both are real units, delta_empty otherwise
#         PS(r,a,b)    = partial pair sum of tuple Y(r) in (a outer, b < a inner) order;  S(r) = PS(r, na, 0)
#         cand(r)      = S(r) <= c2n * delta_empty * na         (the code's cut;  == UD <= na * delta_empty)
#         rk[j]        = rank stored at result index j;  pos[r] = result index of rank r
# =========================================================================================================
SLICE = "disorders, alignments = ..."
GAVA_MACROS = [
    Macro("m", ["a"], "len(unit_arrays[a])"),
    Macro("Mx", ["a", "b", "i", "j"],
          "ite(i < m(a) and j < m(b), d_mat(unit_arrays[a][i], unit_arrays[b][j]), delta_empty)"),
    Macro("PRE", ["a", "b"],
          "shape(precomputation[a][b]) == (m(a) + 1, m(b) + 1) and "
          "forall(i, 0, m(a) + 1, forall(j, 0, m(b) + 1, precomputation[a][b][i][j] == Mx(a, b, i, j)))"),
    Macro("S", ["r"], "PS(r, na, 0)"),
    Macro("Mx2", ["a", "b", "i", "j"],
          "ite(i < m(a) and j < m(b), DM2(unit_arrays[a][i], unit_arrays[b][j]), cfac * delta_empty)"),
    Macro("scaled", [], "cfac > 0 and forall([(x, AReal), (y, AReal)], DM2(x, y) == cfac * d_mat(x, y))"),
    Macro("cand", ["r"], "PS(r, na, 0) <= C2 * delta_empty * na"),
    Macro("inbox", ["r"], "forall(a, 0, na, 0 <= Y(r)[a] and Y(r)[a] <= m(a))"),
]

contract(F + "AbstractDissimilarity._get_all_valid_alignments",
         params={"unit_arrays": ListOf(NdArray("f32", 2)), "d_mat": DMAT, "delta_empty": RealT()},
         returns=TupleOf(NdArray("f32", 1), NdArray("i16", 2)), static=True,
         coerce={"disorder": "Real"},
         lets={"na": "len(unit_arrays)", "C2": "na * (na - 1) // 2"},
         ghost_funs=[GhostFun("Y", "Int -> AInt"), GhostFun("PS", "Int Int Int -> Real"), GhostFun("tri", "Int -> Int"),
                     # C09-I2: a second instance with every dissimilarity value and delta_empty multiplied by cfac
                     GhostFun("DM2", "AReal AReal -> Real"), GhostFun("PS2", "Int Int Int -> Real"), GhostFun("cfac", "-> Real")],
         macros=GAVA_MACROS,
         axioms=["forall(r, PS(r, 0, 0) == 0)",
                 "forall([r, a, b], implies(0 <= b and b < a and a < na,"
                 "   PS(r, a, b + 1) == PS(r, a, b) + Mx(a, b, Y(r)[a], Y(r)[b])), pat=[PS(r, a, b + 1)])",
                 "forall([r, a], implies(0 <= a and a < na, PS(r, a + 1, 0) == PS(r, a, a)), pat=[PS(r, a + 1, 0)])",
                 "tri(0) == 0", "forall(a, implies(a >= 0, tri(a + 1) == tri(a) + a), pat=[tri(a + 1)])",
                 "forall(r, PS2(r, 0, 0) == 0)",
                 "forall([r, a, b], implies(0 <= b and b < a and a < na,"
                 "   PS2(r, a, b + 1) == PS2(r, a, b) + Mx2(a, b, Y(r)[a], Y(r)[b])), pat=[PS2(r, a, b + 1)])",
                 "forall([r, a], implies(0 <= a and a < na, PS2(r, a + 1, 0) == PS2(r, a, a)), pat=[PS2(r, a + 1, 0)])"],
         ghost_vars={"rk": ("AInt", None), "pos": ("AInt", None), "SZ": ("AInt", None)},
         lemmas=[
             Lemma("tri_closed", "2 * tri(a) == a * (a - 1)", binders=[("a", "Int")], hyps=["0 <= a"],
                   method=("induction", "a", "0")),
             # pair sums of the all-null tuple: every pair costs delta_empty
             Lemma("PS_null_row", "PS(r, a, b) == PS(r, a, 0) + b * delta_empty",
                   binders=[("r", "Int"), ("a", "Int"), ("b", "Int")],
                   hyps=["0 <= a", "a < na", "0 <= b", "b <= a", "forall(c, 0, na, Y(r)[c] == m(c))"],
                   method=("induction", "b", "0")),
             Lemma("PS_null", "PS(r, a, 0) == tri(a) * delta_empty", binders=[("r", "Int"), ("a", "Int")],
                   hyps=["0 <= a", "a <= na", "forall(c, 0, na, Y(r)[c] == m(c))"], method=("induction", "a", "0")),
             # C09-I2: scaling every pair dissimilarity and delta_empty by c > 0 scales every pair sum by c and keeps the candidate set
             Lemma("ps_scale_row", "PS2(r, a, b) - PS2(r, a, 0) == cfac * (PS(r, a, b) - PS(r, a, 0))",
                   binders=[("r", "Int"), ("a", "Int"), ("b", "Int")], hyps=["scaled()", "0 <= a", "a < na", "0 <= b", "b <= a"],
                   method=("induction", "b", "0")),
             Lemma("ps_scale", "PS2(r, a, 0) == cfac * PS(r, a, 0)", binders=[("r", "Int"), ("a", "Int")],
                   hyps=["scaled()", "0 <= a", "a <= na"], method=("induction", "a", "0")),
             Lemma("cut_scale", "(PS2(r, na, 0) <= C2 * (cfac * delta_empty) * na) == (PS(r, na, 0) <= C2 * delta_empty * na)",
                   binders=[("r", "Int")], hyps=["scaled()"], hints=["PS2(r, na, 0) == cfac * PS(r, na, 0)"]),
         ],
         requires=["na >= 2", "delta_empty >= 0",
                   "forall(a, 0, na, shape(unit_arrays[a])[1] == 4 and m(a) + 1 <= 32767)"],
         calls={"iter_tuples": NU + "iter_tuples", "extend_right_disorders": NU + "extend_right_disorders",
                "extend_right_alignments": NU + "extend_right_alignments"},
         loops={
             "L0": dict(match="for annotator_id in range(nb_annotators)",
                        inv=["forall(a, 0, annotator_id, sizes[a] == m(a) and sizes_with_null[a] == m(a) + 1)"]),
             "L1": dict(match="for annotator_a in range(nb_annotators)",
                        inv=["len(precomputation) == na", "forall(a, 0, na, len(precomputation[a]) == a)",
                             "forall(a, 0, annotator_a, forall(b, 0, a, PRE(a, b)))"]),
             "L1.0": dict(match="for annotator_b in range(annotator_a)",
                          inv=["len(precomputation) == na", "forall(a, 0, na, len(precomputation[a]) == a)",
                               "forall(a, 0, annotator_a, forall(b, 0, a, PRE(a, b)))",
                               "forall(b, 0, annotator_b, PRE(annotator_a, b))"]),
             "L1.0.0": dict(match="for annot_a in range(nb_annot_a)",
                            inv=["forall(i, 0, annot_a, forall(j, 0, nb_annot_b, "
                                 "matrix[i][j] == Mx(annotator_a, annotator_b, i, j)))"]),
             "L1.0.0.0": dict(match="for annot_b in range(nb_annot_b)",
                              inv=["forall(i, 0, annot_a, forall(j, 0, nb_annot_b, "
                                   "matrix[i][j] == Mx(annotator_a, annotator_b, i, j)))",
                                   "forall(j, 0, annot_b, matrix[annot_a][j] == Mx(annotator_a, annotator_b, annot_a, j))"]),
             "L1.0.1": dict(match="for annot_b in range(nb_annot_b + 1)",
                            inv=["forall(i, 0, nb_annot_a, forall(j, 0, nb_annot_b, "
                                 "matrix[i][j] == Mx(annotator_a, annotator_b, i, j)))",
                                 "forall(j, 0, annot_b, matrix[nb_annot_a][j] == delta_empty)"]),
             "L1.0.2": dict(match="for annot_a in range(nb_annot_a + 1)",
                            inv=["forall(i, 0, nb_annot_a, forall(j, 0, nb_annot_b, "
                                 "matrix[i][j] == Mx(annotator_a, annotator_b, i, j)))",
                                 "forall(j, 0, nb_annot_b + 1, matrix[nb_annot_a][j] == delta_empty)",
                                 "forall(i, 0, annot_a, matrix[i][nb_annot_b] == delta_empty)"]),
             "L2": dict(match="for unitary_alignment in iter_tuples(sizes_with_null)", index="rc", seq_fun="Y",
                        inv=[cl("chunk_size >= 2 and len(disorders) == chunk_size and "
                                "shape(alignments) == (chunk_size, na)", name="buffers"),
                             cl("0 <= i_chosen and i_chosen < chunk_size", name="room"),
                             cl("forall(j, 0, i_chosen, 0 <= rk[j] and rk[j] < rc and cand(rk[j]) and "
                                "disorders[j] == S(rk[j]) and forall(a, 0, na, alignments[j][a] == Y(rk[j])[a]))",
                                "C07 C01 C02 C11", name="sound"),
                             cl("forall(j1, 0, i_chosen, forall(j2, j1 + 1, i_chosen, rk[j1] < rk[j2]))", "C07", name="once"),
                             cl("forall(r, 0, rc, implies(cand(r), 0 <= pos[r] and pos[r] < i_chosen and rk[pos[r]] == r))",
                                "C07 C02 C11", name="complete")]),
             "L2.0": dict(match="for annot_a in range(nb_annotators)",
                          inv=["disorder == PS(rc, annot_a, 0)"]),
             "L2.0.0": dict(match="for annot_b in range(annot_a)",
                            inv=["disorder == PS(rc, annot_a, annot_b)"]),
         },
         hooks=[("before", "disorders = np.empty(chunk_size, dtype=np.float32)", "SZ = sizes_with_null"),
                ("before", "disorders[i_chosen] = disorder", "rk = store(rk, i_chosen, rc)"),
                ("before", "disorders[i_chosen] = disorder", "pos = store(pos, rc, i_chosen)"),
                # after the enumeration: the last tuple (rank P-1) is the all-null one, it is a candidate (delta_empty >= 0),
                # hence it sits at index i_chosen-1 and the slice removes exactly it
                ("before", SLICE, "assert w(SZ, na) >= 1 and forall(a, 0, na, Y(w(SZ, na) - 1)[a] == m(a))"),
                ("before", SLICE, "assert PS(w(SZ, na) - 1, na, 0) == tri(na) * delta_empty and tri(na) == C2 and C2 >= 1"),
                ("before", SLICE, "assert cand(w(SZ, na) - 1)"),
                ("before", SLICE, "assert i_chosen >= 1 and rk[i_chosen - 1] == w(SZ, na) - 1")],
         ensures=[cl("len(result[0]) == len(result[1]) and shape(result[1])[1] == na", name="shapes"),
                  cl("forall(a, 0, na, SZ[a] == m(a) + 1)", name="radices"),
                  cl("forall(k, 0, len(result[0]), forall(a, 0, na, 0 <= result[1][k][a] and result[1][k][a] <= m(a)))",
                     "C01 C07 C11", name="box"),
                  cl("forall(k, 0, len(result[0]), exists(a, 0, na, result[1][k][a] < m(a)))", "C01 C07 C11", name="never-all-empty"),
                  cl("forall(k, 0, len(result[0]), 0 <= rk[k] and rk[k] < w(SZ, na) - 1 and cand(rk[k]) and "
                     "result[0][k] == S(rk[k]) / C2 and forall(a, 0, na, result[1][k][a] == Y(rk[k])[a]))",
                     "C07 C01 C02 C11", name="sound"),
                  cl("forall(k1, 0, len(result[0]), forall(k2, k1 + 1, len(result[0]), rk[k1] < rk[k2]))", "C07", name="once"),
                  cl("forall(r, 0, w(SZ, na) - 1, implies(cand(r), 0 <= pos[r] and pos[r] < len(result[0]) and rk[pos[r]] == r))",
                     "C07 C02 C11", name="complete"),
                  ],
         serves={"C01", "C02", "C07", "C09", "C11"})

# =========================================================================================================
# AbstractDissimilarity._compute_alignment_disorders      (DESIGN.md A.3;  property C03 D1, C09)
#   PD(u,i,j)   = delta_empty if slot i or slot j of unitary alignment u is empty (column 3 == -1) else d_mat(slot i, slot j)
#   PSA(u,i,j)  = fold of PD in (i outer, j < i inner) order;   result[u] = PSA(u, n, 0) / C2,  2*C2 == n*(n-1)
# =========================================================================================================
contract(F + "AbstractDissimilarity._compute_alignment_disorders",
         params={"alignment_array": NdArray("f32", 3), "d_mat": DMAT, "delta_empty": RealT()},
         returns=NdArray("f32", 1), static=True,
         lets={"NA": "shape(alignment_array)[0]", "na": "shape(alignment_array)[1]", "C2": "na * (na - 1) // 2"},
         ghost_funs=[GhostFun("PSA", "Int Int Int -> Real"), GhostFun("tri", "Int -> Int"),
                     # C09: a second instance with every dissimilarity value and delta_empty multiplied by cfac (I2) ...
                     GhostFun("DM2", "AReal AReal -> Real"), GhostFun("PSA2", "Int Int Int -> Real"), GhostFun("cfac", "-> Real"),
                     # ... and a third one on an alignment array whose annotator slots are permuted by sig (I4)
                     GhostFun("AAp", "-> A3Real"), GhostFun("sig", "-> AInt"), GhostFun("PSAp", "Int Int Int -> Real")],
         macros=[Macro("empty", ["u", "i"], "alignment_array[u][i][3] == -1"),
                 Macro("PD", ["u", "i", "j"], "ite(empty(u, i) or empty(u, j), delta_empty, "
                                              "d_mat(alignment_array[u][i], alignment_array[u][j]))"),
                 Macro("PD2", ["u", "i", "j"], "ite(empty(u, i) or empty(u, j), cfac * delta_empty, "
                                               "DM2(alignment_array[u][i], alignment_array[u][j]))"),
                 Macro("PDp", ["u", "i", "j"], "ite(AAp[u][i][3] == -1 or AAp[u][j][3] == -1, delta_empty, d_mat(AAp[u][i], AAp[u][j]))"),
                 Macro("scaled", [], "cfac > 0 and forall([(x, AReal), (y, AReal)], DM2(x, y) == cfac * d_mat(x, y))"),
                 Macro("permuted", ["u", "n"], "forall(i, 0, n, 0 <= sig[i] and sig[i] < n and AAp[u][sig[i]] == raw(alignment_array[u][i])) and "
                                               "forall(i, 0, n, forall(j, i + 1, n, sig[i] != sig[j])) and "
                                               "forall([(x, AReal), (y, AReal)], d_mat(x, y) == d_mat(y, x))")],
         axioms=["forall(u, PSA(u, 0, 0) == 0)",
                 "forall([u, i, j], implies(0 <= j and j < i and i < na, PSA(u, i, j + 1) == PSA(u, i, j) + PD(u, i, j)),"
                 " pat=[PSA(u, i, j + 1)])",
                 "forall([u, i], implies(0 <= i and i < na, PSA(u, i + 1, 0) == PSA(u, i, i)), pat=[PSA(u, i + 1, 0)])",
                 "tri(0) == 0", "forall(a, implies(a >= 0, tri(a + 1) == tri(a) + a), pat=[tri(a + 1)])",
                 "forall(u, PSA2(u, 0, 0) == 0)",
                 "forall([u, i, j], implies(0 <= j and j < i and i < na, PSA2(u, i, j + 1) == PSA2(u, i, j) + PD2(u, i, j)),"
                 " pat=[PSA2(u, i, j + 1)])",
                 "forall([u, i], implies(0 <= i and i < na, PSA2(u, i + 1, 0) == PSA2(u, i, i)), pat=[PSA2(u, i + 1, 0)])",
                 "forall(u, PSAp(u, 0, 0) == 0)",
                 "forall([u, i, j], implies(0 <= j and j < i and i < na, PSAp(u, i, j + 1) == PSAp(u, i, j) + PDp(u, i, j)),"
                 " pat=[PSAp(u, i, j + 1)])",
                 "forall([u, i], implies(0 <= i and i < na, PSAp(u, i + 1, 0) == PSAp(u, i, i)), pat=[PSAp(u, i + 1, 0)])"],
         lemmas=[Lemma("tri_closed", "2 * tri(a) == a * (a - 1)", binders=[("a", "Int")], hyps=["0 <= a"],
                       method=("induction", "a", "0")),
                 # C09-I2: multiplying every pair dissimilarity and delta_empty by c multiplies every unitary disorder by c
                 Lemma("psa_scale_row", "PSA2(u, i, j) - PSA2(u, i, 0) == cfac * (PSA(u, i, j) - PSA(u, i, 0))",
                       binders=[("u", "Int"), ("i", "Int"), ("j", "Int")], hyps=["scaled()", "0 <= i", "i < na", "0 <= j", "j <= i"],
                       method=("induction", "j", "0")),
                 Lemma("psa_scale", "PSA2(u, i, 0) == cfac * PSA(u, i, 0)", binders=[("u", "Int"), ("i", "Int")],
                       hyps=["scaled()", "0 <= i", "i <= na"], method=("induction", "i", "0")),
                 # C09-I4: with a symmetric dissimilarity the unitary disorder does not depend on the annotators' slots (n = 2, 3)
                 Lemma("ud_perm_2", "PSAp(u, 2, 0) == PSA(u, 2, 0)", binders=[("u", "Int")], hyps=["na == 2", "permuted(u, 2)"],
                       hints=["PSA(u, 2, 0) == PD(u, 1, 0)", "PSAp(u, 2, 0) == PDp(u, 1, 0)"]),
                 Lemma("ud_perm_5", "PSAp(u, 5, 0) == PSA(u, 5, 0)", binders=[("u", "Int")], hyps=["na == 5", "permuted(u, 5)"],
                       hints=["PSA(u, 2, 0) == PD(u, 1, 0)",
                              "PSA(u, 3, 0) == PD(u, 1, 0) + PD(u, 2, 0) + PD(u, 2, 1)",
                              "PSA(u, 4, 0) == PD(u, 1, 0) + PD(u, 2, 0) + PD(u, 2, 1) + PD(u, 3, 0) + PD(u, 3, 1) + PD(u, 3, 2)",
                              "PSA(u, 5, 0) == PD(u, 1, 0) + PD(u, 2, 0) + PD(u, 2, 1) + PD(u, 3, 0) + PD(u, 3, 1) + PD(u, 3, 2) + PD(u, 4, 0) + PD(u, 4, 1) + PD(u, 4, 2) + PD(u, 4, 3)",
                              "PSAp(u, 2, 0) == PDp(u, 1, 0)",
                              "PSAp(u, 3, 0) == PDp(u, 1, 0) + PDp(u, 2, 0) + PDp(u, 2, 1)",
                              "PSAp(u, 4, 0) == PDp(u, 1, 0) + PDp(u, 2, 0) + PDp(u, 2, 1) + PDp(u, 3, 0) + PDp(u, 3, 1) + PDp(u, 3, 2)",
                              "PSAp(u, 5, 0) == PDp(u, 1, 0) + PDp(u, 2, 0) + PDp(u, 2, 1) + PDp(u, 3, 0) + PDp(u, 3, 1) + PDp(u, 3, 2) + PDp(u, 4, 0) + PDp(u, 4, 1) + PDp(u, 4, 2) + PDp(u, 4, 3)"]),
                 Lemma("ud_perm_4", "PSAp(u, 4, 0) == PSA(u, 4, 0)", binders=[("u", "Int")], hyps=["na == 4", "permuted(u, 4)"],
                       hints=["PSA(u, 2, 0) == PD(u, 1, 0)", "PSA(u, 3, 0) == PD(u, 1, 0) + PD(u, 2, 0) + PD(u, 2, 1)",
                              "PSA(u, 4, 0) == PD(u, 1, 0) + PD(u, 2, 0) + PD(u, 2, 1) + PD(u, 3, 0) + PD(u, 3, 1) + PD(u, 3, 2)",
                              "PSAp(u, 2, 0) == PDp(u, 1, 0)", "PSAp(u, 3, 0) == PDp(u, 1, 0) + PDp(u, 2, 0) + PDp(u, 2, 1)",
                              "PSAp(u, 4, 0) == PDp(u, 1, 0) + PDp(u, 2, 0) + PDp(u, 2, 1) + PDp(u, 3, 0) + PDp(u, 3, 1) + PDp(u, 3, 2)"]),
                 Lemma("ud_perm_3", "PSAp(u, 3, 0) == PSA(u, 3, 0)", binders=[("u", "Int")], hyps=["na == 3", "permuted(u, 3)"],
                       hints=["PSA(u, 2, 0) == PD(u, 1, 0)", "PSA(u, 3, 0) == PD(u, 1, 0) + PD(u, 2, 0) + PD(u, 2, 1)",
                              "PSAp(u, 2, 0) == PDp(u, 1, 0)", "PSAp(u, 3, 0) == PDp(u, 1, 0) + PDp(u, 2, 0) + PDp(u, 2, 1)"]),
                 Lemma("c2n_exact", "2 * C2 == na * (na - 1) and C2 >= 1", hints=["2 * tri(na) == na * (na - 1)", "tri(na) == C2",
                                                                                 "tri(na) == tri(na - 1) + (na - 1)",
                                                                                 "2 * tri(na - 1) == (na - 1) * (na - 2)"])],
         requires=["na >= 2", "shape(alignment_array)[2] == 4"],
         ensures=[cl("len(result) == NA", name="len"),
                  cl("2 * C2 == na * (na - 1)", "C03", name="pair-count"),
                  cl("forall(u, 0, NA, result[u] == PSA(u, na, 0) / C2)", "C03 C09", name="mean-of-pairs")],
         loops={
             "L0": dict(match="for unitary_alignment_i in range(nb_alignments)",
                        inv=["forall(u, 0, unitary_alignment_i, res[u] == PSA(u, na, 0))",
                             "forall(u, unitary_alignment_i, NA, res[u] == 0)"]),
             "L0.0": dict(match="for i in range(nb_annotators)",
                          inv=["forall(u, 0, unitary_alignment_i, res[u] == PSA(u, na, 0))",
                               "forall(u, unitary_alignment_i + 1, NA, res[u] == 0)",
                               "res[unitary_alignment_i] == PSA(unitary_alignment_i, i, 0)"]),
             "L0.0.0": dict(match="for j in range(i)",
                            inv=["forall(u, 0, unitary_alignment_i, res[u] == PSA(u, na, 0))",
                                 "forall(u, unitary_alignment_i + 1, NA, res[u] == 0)",
                                 "res[unitary_alignment_i] == PSA(unitary_alignment_i, i, j)"]),
         },
         serves={"C03", "C09", "C10"})

# =========================================================================================================
# Built-in dissimilarities: compiled kernels (closures inside compile_d_mat) and unit-to-unit methods `d`   (C04, C09)
#   POS(s1,e1,d1,s2,e2,d2) = ((|s1-s2| + |e1-e2|) / (d1+d2))^2        documented positional-sporadic formula
#   kernel: delta captured at compile time (kappa);  method: self.delta_empty.   The class invariant kappa == delta_empty is
#   an obligation of the constructors (tier B).
# =========================================================================================================
from .types import UnitT, RowT, StrT      # noqa: E402
from pyvc.contract import RecT, OptT      # noqa: E402

POS_MACROS = [Macro("POS", ["s1", "e1", "d1", "s2", "e2", "d2"],
                    "((ite(s1 - s2 >= 0, s1 - s2, s2 - s1) + ite(e1 - e2 >= 0, e1 - e2, e2 - e1)) / (d1 + d2)) * "
                    "((ite(s1 - s2 >= 0, s1 - s2, s2 - s1) + ite(e1 - e2 >= 0, e1 - e2, e2 - e1)) / (d1 + d2))")]
ROW_REQ = ["len(unit1) == 4", "len(unit2) == 4"]

contract(F + "PositionalSporadicDissimilarity.compile_d_mat.<locals>.d_mat",
         params={"unit1": RowT(), "unit2": RowT()}, closure={"delta_empty": RealT()}, returns=RealT(),
         macros=POS_MACROS,
         requires=ROW_REQ + ["unit1[2] > 0", "unit2[2] > 0"],
         ensures=[cl("result == POS(unit1[0], unit1[1], unit1[2], unit2[0], unit2[1], unit2[2]) * delta_empty",
                     "C04 C09", name="formula")],
         lemmas=[Lemma("pos_symmetric", "POS(s1, e1, d1, s2, e2, d2) == POS(s2, e2, d2, s1, e1, d1)",
                       binders=[(x, "Real") for x in ("s1", "e1", "d1", "s2", "e2", "d2")], hyps=["d1 > 0", "d2 > 0"]),
                 Lemma("pos_nonneg", "POS(s1, e1, d1, s2, e2, d2) >= 0",
                       binders=[(x, "Real") for x in ("s1", "e1", "d1", "s2", "e2", "d2")], hyps=["d1 > 0", "d2 > 0"]),
                 Lemma("pos_zero_on_identical", "POS(s1, e1, d1, s1, e1, d1) == 0",
                       binders=[(x, "Real") for x in ("s1", "e1", "d1")], hyps=["d1 > 0"]),
                 # C09: invariance under t -> k*t + c (k > 0): starts/ends are mapped affinely, durations scale by k
                 Lemma("pos_affine_invariant",
                       "POS(k * s1 + c, k * e1 + c, k * d1, k * s2 + c, k * e2 + c, k * d2) == POS(s1, e1, d1, s2, e2, d2)",
                       binders=[(x, "Real") for x in ("s1", "e1", "d1", "s2", "e2", "d2", "k", "c")],
                       hyps=["d1 > 0", "d2 > 0", "k > 0"])],
         serves={"C04", "C09"})

contract(F + "PositionalSporadicDissimilarity.d",
         params={"self": RecT("PositionalSporadicDissimilarity", delta_empty=RealT()), "unit1": UnitT(), "unit2": UnitT()},
         returns=RealT(), macros=POS_MACROS,
         requires=["unit1.segment.end - unit1.segment.start > 1e-6", "unit2.segment.end - unit2.segment.start > 1e-6"],
         ensures=[cl("result == POS(unit1.segment.start, unit1.segment.end, unit1.segment.end - unit1.segment.start, "
                     "unit2.segment.start, unit2.segment.end, unit2.segment.end - unit2.segment.start) * self.delta_empty",
                     "C04 C09 C10 C12", name="formula")],
         serves={"C04", "C09", "C10", "C12"})

contract(F + "AbsoluteCategoricalDissimilarity.compile_d_mat.<locals>.d_mat",
         params={"unit1": RowT(), "unit2": RowT()}, closure={"delta_empty": RealT()}, returns=RealT(),
         requires=ROW_REQ,
         ensures=[cl("result == (0 if unit1[3] == unit2[3] else 1) * delta_empty", "C04 C09", name="formula")],
         ghost_funs=[GhostFun("ren", "Real -> Real")],
         lemmas=[Lemma("abs_cat_renaming", "(0 if ren(c1) == ren(c2) else 1) == (0 if c1 == c2 else 1)",
                       binders=[("c1", "Real"), ("c2", "Real")], hyps=["implies(ren(c1) == ren(c2), c1 == c2)"])],
         serves={"C04", "C09"})

contract(F + "AbsoluteCategoricalDissimilarity.d",
         params={"self": RecT("AbsoluteCategoricalDissimilarity", delta_empty=RealT()), "unit1": UnitT(), "unit2": UnitT()},
         returns=RealT(),
         ensures=[cl("result == (0 if unit1.annotation == unit2.annotation else 1) * self.delta_empty", "C04 C09 C12",
                     name="formula")],
         serves={"C04", "C09", "C12"})

# precomputed: the matrix subscript must be the category index itself, for every number of categories (the statement
# says 1..300); the narrowing cast in the kernel is modelled exactly (two's complement wrap)
contract(F + "PrecomputedCategoricalDissimilarity.compile_d_mat.<locals>.d_mat",
         params={"unit1": RowT(), "unit2": RowT()}, closure={"matrix": NdArray("f32", 2), "delta_empty": RealT()},
         returns=RealT(),
         lets={"ncat": "shape(matrix)[0]"},
         macros=[Macro("is_index", ["x"], "toreal(int(x)) == x and 0 <= x and x < ncat")],
         requires=ROW_REQ + ["shape(matrix)[1] == ncat", "ncat <= 32767", "is_index(unit1[3])", "is_index(unit2[3])"],
         ensures=[cl("result == matrix[int(unit1[3])][int(unit2[3])] * delta_empty", "C04", name="formula")],
         serves={"C04"})

contract(F + "CombinedCategoricalDissimilarity.compile_d_mat.<locals>.d_mat",
         params={"unit1": RowT(), "unit2": RowT()},
         closure={"pos": DMAT, "cat": DMAT, "alpha": RealT(), "beta": RealT()}, returns=RealT(),
         requires=ROW_REQ,
         ensures=[cl("result == alpha * pos(unit1, unit2) + beta * cat(unit1, unit2)", "C04 C09", name="formula")],
         serves={"C04", "C09"})


# =========================================================================================================
# AbstractDissimilarity._build_arrays_continuum / valid_alignments     (tier B;  C01, C02, C07, C11)
# =========================================================================================================
from pyvc.heap import ObjT, OptObjT, UnitT as UnitVT      # noqa: E402
from .speclib import VIEW_MACROS                           # noqa: E402

DISSIM = lambda: ObjT("AbstractDissimilarity", delta_empty=RealT(), d_mat=DMAT, categories=OptObjT(ObjT("SetStr")))   # noqa: E731
CONT = lambda: ObjT("Continuum")                           # noqa: E731
ENC_MACROS = VIEW_MACROS + [
    Macro("catidx", [], "ite(isnone(self.categories), Cidx(continuum), idxof(self.categories))"),
    Macro("catmem", [], "ite(isnone(self.categories), Cat(continuum), members(self.categories))"),
    Macro("unitAt", ["a", "j"], "Useq(continuum)[Kseq(continuum)[a]][j]"),
    Macro("cntAt", ["a"], "Cnt(continuum)[Kseq(continuum)[a]]"),
    Macro("row_ok", ["row", "a", "j"],
          "row[0] == unitAt(a, j).s and row[1] == unitAt(a, j).e and row[2] == unitAt(a, j).e - unitAt(a, j).s and "
          "row[3] == ite(unitAt(a, j).haslab, catidx()[unitAt(a, j).lab], catn())"),
    Macro("catn", [], "ite(isnone(self.categories), Ncat(continuum), size(self.categories))"),
]

contract(F + "AbstractDissimilarity._build_arrays_continuum",
         params={"self": DISSIM(), "continuum": CONT()}, returns=ListOf(NdArray("f32", 2)),
         locals={"unit_arrays": NdArray("f32", 2)}, macros=ENC_MACROS,
         requires=["RI(continuum)"],
         raises={"AssertionError": {"iff": "not forall([(l, Real)], implies(Cat(continuum)[l], catmem()[l]))"}},
         ensures=[cl("len(result) == Nkeys(continuum)", "C01 C02 C07 C11", name="one-array-per-annotator"),
                  cl("forall(a, 0, Nkeys(continuum), shape(result[a]) == (cntAt(a), 4))", "C01 C02 C07 C11", name="one-row-per-unit"),
                  cl("forall(a, 0, Nkeys(continuum), forall(j, 0, cntAt(a), row_ok(result[a][j], a, j)))", "C02 C07 C03",
                     name="rows-encode-units-in-order")],
         loops={"L0": dict(match="for annotator_id, (annotator, units) in enumerate(continuum._annotations.items())",
                           inv=["len(unit_arrays) == annotator_id",
                                "forall(a, 0, annotator_id, shape(unit_arrays[a]) == (cntAt(a), 4))",
                                "forall(a, 0, annotator_id, forall(j, 0, cntAt(a), row_ok(unit_arrays[a][j], a, j)))"]),
                "L0.0": dict(match="for unit_id, unit in enumerate(units)",
                             inv=["shape(unit_array) == (cntAt(annotator_id), 4)",
                                  "forall(j, 0, unit_id, row_ok(unit_array[j], annotator_id, j))"])},
         serves={"C01", "C02", "C03", "C07", "C11"})

contract(F + "AbstractDissimilarity.valid_alignments",
         params={"self": DISSIM(), "continuum": CONT()}, returns=TupleOf(NdArray("f32", 1), NdArray("i16", 2)),
         macros=ENC_MACROS,
         requires=["RI(continuum)", "Nkeys(continuum) >= 2", "self.delta_empty >= 0",
                   "forall(a, 0, Nkeys(continuum), cntAt(a) <= 32766)"],
         raises={"AssertionError": {"iff": "not forall([(l, Real)], implies(Cat(continuum)[l], catmem()[l]))"}},
         ensures=[cl("len(result[0]) == len(result[1]) and shape(result[1])[1] == Nkeys(continuum)", name="shapes"),
                  cl("forall(k, 0, len(result[0]), forall(a, 0, Nkeys(continuum), 0 <= result[1][k][a] and result[1][k][a] <= cntAt(a)))",
                     "C01 C07 C11", name="box"),
                  cl("forall(k, 0, len(result[0]), exists(a, 0, Nkeys(continuum), result[1][k][a] < cntAt(a)))",
                     "C01 C07 C11", name="never-all-empty")],
         serves={"C01", "C02", "C07", "C11"})

# ------------------------------------------------------------------------------------------ _build_arrays_alignment  (C03 D5)
# The array is indexed by the RANK of each slot's annotator in the sorted set of the annotators named by the first unitary alignment,
# not by the slot's position: two unitary alignments giving the same unit to the same annotators in another order are encoded alike.
from .alignment import ALIGN as _ALIGN    # noqa: E402
ARR_MACROS = VIEW_MACROS + [
    Macro("L", [], "alignment.unitary_alignments"),
    Macro("nS", [], "len(alignment.unitary_alignments[0]._n_tuple)"),
    Macro("nameAt", ["t", "s"], "alignment.unitary_alignments[t]._n_tuple[s][0]"),
    Macro("slotAt", ["t", "s"], "alignment.unitary_alignments[t]._n_tuple[s][1]"),
    Macro("CC", [], "some(alignment.continuum)"),
    Macro("catidx2", [], "ite(isnone(self.categories), Cidx(CC()), idxof(self.categories))"),
    Macro("catmem2", [], "ite(isnone(self.categories), Cat(CC()), members(self.categories))"),
    Macro("catn2", [], "ite(isnone(self.categories), Ncat(CC()), size(self.categories))"),
    Macro("enc", ["row", "t", "s"],
          "ite(isnone(slotAt(t, s)), row[0] == -1 and row[1] == -1 and row[2] == -1 and row[3] == -1, "
          "row[0] == some(slotAt(t, s)).s and row[1] == some(slotAt(t, s)).e and row[2] == some(slotAt(t, s)).e - some(slotAt(t, s)).s and "
          "row[3] == ite(some(slotAt(t, s)).haslab, catidx2()[some(slotAt(t, s)).lab], catn2()))"),
    # every unitary alignment names exactly the annotators of the first one, each once
    Macro("well_formed", [], "forall(t, 0, len(L()), len(L()[t]._n_tuple) == nS() and "
                             "forall(s, 0, nS(), exists(s0, 0, nS(), nameAt(t, s) == nameAt(0, s0))) and "
                             "forall(s1, 0, nS(), forall(s2, s1 + 1, nS(), nameAt(t, s1) != nameAt(t, s2))))"),
]

contract(F + "AbstractDissimilarity._build_arrays_alignment",
         params={"self": DISSIM(), "alignment": _ALIGN()}, returns=NdArray("f32", 3), modifies=[], macros=ARR_MACROS,
         ghost_vars={"AIDX": ("RInt", None), "AN": ("Int", None), "ARR0": ("A3Real", None)},
         calls={"alignment.categories": "pygamma_agreement/alignment.py::Alignment.categories#attached"},
         requires=["not isnone(alignment.continuum)", "len(L()) >= 1", "well_formed()",
                   "forall(t, 0, len(L()), forall(s, 0, nS(), implies(not isnone(slotAt(t, s)) and some(slotAt(t, s)).haslab, "
                   "catmem2()[some(slotAt(t, s)).lab])))",
                   # units are valid units (Segment.duration is end - start only above pyannote's precision)
                   "forall(t, 0, len(L()), forall(s, 0, nS(), implies(not isnone(slotAt(t, s)), some(slotAt(t, s)).e - some(slotAt(t, s)).s > 1e-6)))"],
         raises={"AssertionError": {"iff": "not forall([(l, Real)], implies(Cat(CC())[l], catmem2()[l]))"}},
         ensures=[cl("shape(result) == (len(L()), AN, 4) and AN == nS()", "C03", name="one-row-per-unitary-alignment-and-annotator"),
                  cl("forall(s, 0, nS(), 0 <= AIDX[nameAt(0, s)] and AIDX[nameAt(0, s)] < AN) and "
                     "forall(s1, 0, nS(), forall(s2, 0, nS(), (nameAt(0, s1) < nameAt(0, s2)) == (AIDX[nameAt(0, s1)] < AIDX[nameAt(0, s2)])))",
                     "C03", name="AIDX-is-the-rank-of-the-annotator-name"),
                  cl("forall(t, 0, len(L()), forall(s, 0, nS(), enc(result[t][AIDX[nameAt(t, s)]], t, s)))", "C03",
                     name="D5-each-slot-encoded-at-its-annotator's-rank-whatever-its-position")],
         loops={"L0": dict(match="for i, unitary_alignment in enumerate(alignment.unitary_alignments)",
                           inv=["shape(alignment_array) == (len(L()), AN, 4)",
                                "forall(t, 0, i, forall(s, 0, nS(), enc(alignment_array[t][AIDX[nameAt(t, s)]], t, s)))"]),
                "L0.0": dict(match="for annotator, unit in unitary_alignment.n_tuple", index="kS",
                             inv=["shape(alignment_array) == (len(L()), AN, 4)",
                                  "forall(t, 0, i, forall(s, 0, nS(), enc(alignment_array[t][AIDX[nameAt(t, s)]], t, s)))",
                                  "forall(s, 0, kS, enc(alignment_array[i][AIDX[nameAt(i, s)]], i, s))"])},
         hooks=[("after", "annotators = ...", "AIDX = idxof(annotators)"),
                ("after", "annotators = ...", "AN = size(annotators)"),
                ("after", "annotators = ...", "model_inv wfset(annotators)"),
                ("after", "annotator_i = ...", "assert annotator_i == AIDX[nameAt(i, kS)] and 0 <= annotator_i and annotator_i < AN"),
                ("after", "annotator_i = ...", "assert forall(s, 0, nS(), implies(s != kS, AIDX[nameAt(i, s)] != annotator_i))"),
                ("after", "annotator_i = ...", "ARR0 = raw(alignment_array)"),
                ("after", "if unit is not None: ...", "assert enc(alignment_array[i][annotator_i], i, kS)"),
                # the writes of this slot touch row (i, annotator_i) only
                ("after", "if unit is not None: ...", "assert forall([t, r], implies(t != i or r != annotator_i, raw(alignment_array)[t][r] == ARR0[t][r]))"),
                ("after", "if unit is not None: ...", "assert forall(s, 0, kS, raw(alignment_array)[i][AIDX[nameAt(i, s)]] == ARR0[i][AIDX[nameAt(i, s)]])")],
         serves={"C03"})

# =========================================================================================================
# compile_d_mat (C04: the compiled kernel IS the documented formula with the object's own delta_empty: class invariant kappa == delta)
# =========================================================================================================
POSD = lambda: ObjT("PositionalSporadicDissimilarity", delta_empty=RealT(), d_mat=DMAT, categories=OptObjT(ObjT("SetStr")))   # noqa: E731
ROWS = "forall([(x, AReal), (y, AReal)], "
contract(F + "PositionalSporadicDissimilarity.compile_d_mat",
         params={"self": POSD()}, returns=DMAT, modifies=[], macros=POS_MACROS,
         ensures=[cl(ROWS + "implies(x[2] > 0 and y[2] > 0, result(x, y) == POS(x[0], x[1], x[2], y[0], y[1], y[2]) * self.delta_empty))",
                     "C04", name="the-kernel-computes-the-documented-formula-with-this-object's-delta_empty")],
         serves={"C04"})

contract(F + "AbstractDissimilarity.check_if_dissim", params={"self": DISSIM()}, modifies=[],
         raises={"ValueError": {}},
         loops={"L0": dict(match="for _ in range(3)", inv=[])},
         notes="proved frame: draws three random unit pairs with the stdlib generator and raises ValueError when the compiled kernel is not "
               "symmetric or not zero on identical units; it changes nothing (reads self.d_mat and self.categories only)",
         serves={"C04"})

POS_INV = (ROWS + "implies(x[2] > 0 and y[2] > 0, self.d_mat(x, y) == POS(x[0], x[1], x[2], y[0], y[1], y[2]) * self.delta_empty))")
contract(F + "AbstractDissimilarity.__init__#positional",
         params={"self": POSD(), "categories": OptObjT(ObjT("SetStr")), "delta_empty": RealT()}, modifies=["self"], macros=POS_MACROS,
         requires=["isnone(categories)"],
         raises={"ValueError": {}},
         ensures=[cl("self.delta_empty == delta_empty", "C04", name="delta_empty-stored"),
                  cl("isnone(self.categories)", "C04", name="no-categories"),
                  cl(POS_INV, "C04", name="class-invariant-kernel-uses-the-object's-delta_empty")],
         serves={"C04"})

contract(F + "PositionalSporadicDissimilarity.__init__",
         params={"self": POSD(), "delta_empty": RealT()}, modifies=["self"], macros=POS_MACROS,
         raises={"ValueError": {}},
         calls={"super().__init__": F + "AbstractDissimilarity.__init__#positional"},
         ensures=[cl("self.delta_empty == delta_empty", "C04", name="delta_empty-stored"),
                  cl(POS_INV, "C04", name="class-invariant-kernel-uses-the-object's-delta_empty")],
         serves={"C04"})

# ---- absolute categorical
ABSD = lambda: ObjT("AbsoluteCategoricalDissimilarity", delta_empty=RealT(), d_mat=DMAT, categories=OptObjT(ObjT("SetStr")))   # noqa: E731
ABS_INV = ROWS + "self.d_mat(x, y) == (0 if x[3] == y[3] else 1) * self.delta_empty)"
contract(F + "AbsoluteCategoricalDissimilarity.compile_d_mat", params={"self": ABSD()}, returns=DMAT, modifies=[],
         ensures=[cl(ROWS + "result(x, y) == (0 if x[3] == y[3] else 1) * self.delta_empty)", "C04",
                     name="the-kernel-computes-the-documented-formula-with-this-object's-delta_empty")],
         serves={"C04"})
for _v, _cls in (("AbstractDissimilarity.__init__#absolute", None), ("CategoricalDissimilarity.__init__#absolute", "AbstractDissimilarity.__init__#absolute")):
    contract(F + _v, params={"self": ABSD(), "categories": OptObjT(ObjT("SetStr")), "delta_empty": RealT()}, modifies=["self"],
             requires=["isnone(categories)"], raises={"ValueError": {}},
             calls={"super().__init__": F + _cls} if _cls else {},
             ensures=[cl("self.delta_empty == delta_empty and isnone(self.categories)", "C04", name="delta_empty-stored"),
                      cl(ABS_INV, "C04", name="class-invariant-kernel-uses-the-object's-delta_empty")],
             serves={"C04"})
contract(F + "AbsoluteCategoricalDissimilarity.__init__", params={"self": ABSD(), "delta_empty": RealT()}, modifies=["self"],
         raises={"ValueError": {}}, calls={"super().__init__": F + "CategoricalDissimilarity.__init__#absolute"},
         ensures=[cl("self.delta_empty == delta_empty and isnone(self.categories)", "C04", name="delta_empty-stored"),
                  cl(ABS_INV, "C04", name="class-invariant-kernel-uses-the-object's-delta_empty")],
         serves={"C04"})

# ---- combined (default components: positional-sporadic + absolute categorical)
COMBD = lambda: ObjT("CombinedCategoricalDissimilarity", delta_empty=RealT(), d_mat=DMAT, categories=OptObjT(ObjT("SetStr")),   # noqa: E731
                     positional_dissim=POSD(), categorical_dissim=ABSD(), alpha=RealT(), beta=RealT())
COMB_FORMULA = ("alpha * (POS(x[0], x[1], x[2], y[0], y[1], y[2]) * delta_empty) + beta * ((0 if x[3] == y[3] else 1) * delta_empty)")
COMB_INV = (ROWS + "implies(x[2] > 0 and y[2] > 0, self.d_mat(x, y) == self.alpha * (POS(x[0], x[1], x[2], y[0], y[1], y[2]) * self.delta_empty) + "
            "self.beta * ((0 if x[3] == y[3] else 1) * self.delta_empty)))")
contract(F + "CombinedCategoricalDissimilarity.compile_d_mat", params={"self": COMBD()}, returns=DMAT, modifies=[], macros=POS_MACROS,
         requires=[ROWS + "implies(x[2] > 0 and y[2] > 0, self.positional_dissim.d_mat(x, y) == POS(x[0], x[1], x[2], y[0], y[1], y[2]) * self.delta_empty))",
                   ROWS + "self.categorical_dissim.d_mat(x, y) == (0 if x[3] == y[3] else 1) * self.delta_empty)"],
         ensures=[cl(ROWS + "implies(x[2] > 0 and y[2] > 0, result(x, y) == self.alpha * (POS(x[0], x[1], x[2], y[0], y[1], y[2]) * self.delta_empty) + "
                     "self.beta * ((0 if x[3] == y[3] else 1) * self.delta_empty)))", "C04",
                     name="alpha-times-positional-plus-beta-times-categorical-with-the-one-delta_empty")],
         serves={"C04"})

COMP_INV = [ROWS + "implies(x[2] > 0 and y[2] > 0, self.positional_dissim.d_mat(x, y) == POS(x[0], x[1], x[2], y[0], y[1], y[2]) * self.delta_empty))",
            ROWS + "self.categorical_dissim.d_mat(x, y) == (0 if x[3] == y[3] else 1) * self.delta_empty)"]
contract(F + "AbstractDissimilarity.__init__#combined",
         params={"self": COMBD(), "categories": OptObjT(ObjT("SetStr")), "delta_empty": RealT()}, modifies=["self"], macros=POS_MACROS,
         requires=["isnone(categories)",
                   ROWS + "implies(x[2] > 0 and y[2] > 0, self.positional_dissim.d_mat(x, y) == POS(x[0], x[1], x[2], y[0], y[1], y[2]) * delta_empty))",
                   ROWS + "self.categorical_dissim.d_mat(x, y) == (0 if x[3] == y[3] else 1) * delta_empty)"],
         raises={"ValueError": {}},
         ensures=[cl("self.delta_empty == delta_empty and isnone(self.categories)", "C04", name="delta_empty-stored"),
                  cl("self.alpha == old(self.alpha) and self.beta == old(self.beta)", "C04", name="weights-kept"),
                  cl(COMB_INV, "C04", name="class-invariant-combined-kernel")],
         serves={"C04"})

contract(F + "CombinedCategoricalDissimilarity.__init__#defaults",
         params={"self": COMBD(), "alpha": RealT(), "beta": RealT(), "delta_empty": RealT(),
                 "pos_dissim": OptObjT(POSD()), "cat_dissim": OptObjT(ABSD())}, modifies=["self"], macros=POS_MACROS,
         requires=["isnone(pos_dissim)", "isnone(cat_dissim)"],
         raises={"ValueError": {}},
         calls={"super().__init__": F + "AbstractDissimilarity.__init__#combined"},
         ensures=[cl("self.delta_empty == delta_empty and self.alpha == alpha and self.beta == beta", "C04", name="parameters-stored"),
                  cl("self.positional_dissim.delta_empty == delta_empty and self.categorical_dissim.delta_empty == delta_empty", "C04",
                     name="the-one-delta_empty-given-to-the-combined-dissimilarity-reaches-both-components"),
                  cl(COMP_INV[0], "C04", name="positional-component-kernel-uses-that-delta_empty"),
                  cl(COMP_INV[1], "C04", name="categorical-component-kernel-uses-that-delta_empty"),
                  cl(COMB_INV, "C04", name="class-invariant-combined-kernel")],
         serves={"C04"})

contract(F + "CombinedCategoricalDissimilarity.__init__#supplied",
         params={"self": COMBD(), "alpha": RealT(), "beta": RealT(), "delta_empty": RealT(),
                 "pos_dissim": OptObjT(POSD()), "cat_dissim": OptObjT(ABSD())}, modifies=["self", "pos_dissim", "cat_dissim"], macros=POS_MACROS,
         requires=["not isnone(pos_dissim)", "not isnone(cat_dissim)", "isnone(some(cat_dissim).categories)"],
         raises={"ValueError": {}},
         calls={"super().__init__": F + "AbstractDissimilarity.__init__#combined"},
         ensures=[cl("self.delta_empty == delta_empty and self.alpha == alpha and self.beta == beta", "C04", name="parameters-stored"),
                  cl("self.positional_dissim.delta_empty == delta_empty and self.categorical_dissim.delta_empty == delta_empty", "C04",
                     name="the-one-delta_empty-given-to-the-combined-dissimilarity-reaches-both-components"),
                  cl(COMP_INV[0], "C04", name="positional-component-kernel-uses-that-delta_empty"),
                  cl(COMP_INV[1], "C04", name="categorical-component-kernel-uses-that-delta_empty"),
                  cl(COMB_INV, "C04", name="class-invariant-combined-kernel")],
         notes="components of the two built-in classes supplied by the caller, whatever delta_empty they were built with",
         serves={"C04"})

contract(F + "CombinedCategoricalDissimilarity.d",
         params={"self": COMBD(), "unit1": UnitVT(), "unit2": UnitVT()}, returns=RealT(), modifies=[], macros=POS_MACROS,
         requires=["unit1.e - unit1.s > 1e-6", "unit2.e - unit2.s > 1e-6",
                   "self.positional_dissim.delta_empty == self.delta_empty and self.categorical_dissim.delta_empty == self.delta_empty"],
         ensures=[cl("result == self.alpha * (POS(unit1.s, unit1.e, unit1.e - unit1.s, unit2.s, unit2.e, unit2.e - unit2.s) * self.delta_empty) + "
                     "self.beta * ((0 if (unit1.haslab == unit2.haslab and unit1.lab == unit2.lab) else 1) * self.delta_empty)", "C04",
                     name="alpha-times-positional-plus-beta-times-categorical-with-the-one-delta_empty")],
         serves={"C04", "C12"})

# ---- precomputed categorical (matrix indexed by the categories in alphabetical order)
PRED = lambda: ObjT("PrecomputedCategoricalDissimilarity", delta_empty=RealT(), d_mat=DMAT, categories=OptObjT(ObjT("SetStr")),   # noqa: E731
                    _matrix=NdArray("f32", 2))
PRE_IDX = "toreal(int(x[3])) == x[3] and 0 <= x[3] and x[3] < shape(self._matrix)[0] and toreal(int(y[3])) == y[3] and 0 <= y[3] and y[3] < shape(self._matrix)[0]"
PRE_INV = ROWS + "implies(" + PRE_IDX + ", self.d_mat(x, y) == self._matrix[int(x[3])][int(y[3])] * self.delta_empty))"
contract(F + "PrecomputedCategoricalDissimilarity.compile_d_mat", params={"self": PRED()}, returns=DMAT, modifies=[],
         requires=["shape(self._matrix)[1] == shape(self._matrix)[0]", "shape(self._matrix)[0] <= 32767"],
         ensures=[cl(ROWS + "implies(" + PRE_IDX + ", result(x, y) == self._matrix[int(x[3])][int(y[3])] * self.delta_empty))", "C04",
                     name="the-kernel-reads-the-matrix-entry-of-the-two-category-indexes-times-this-object's-delta_empty")],
         serves={"C04"})
for _v, _sup in (("AbstractDissimilarity.__init__#precomputed", None), ("CategoricalDissimilarity.__init__#precomputed", "AbstractDissimilarity.__init__#precomputed")):
    contract(F + _v, params={"self": PRED(), "categories": OptObjT(ObjT("SetStr")), "delta_empty": RealT()}, modifies=["self"],
             requires=["not isnone(categories)", "shape(self._matrix)[1] == shape(self._matrix)[0]", "shape(self._matrix)[0] <= 32767"],
             raises={"ValueError": {}},
             calls={"super().__init__": F + _sup} if _sup else {},
             binds={"self.categories": "categories"},
             ensures=[cl("self.delta_empty == delta_empty and not isnone(self.categories)", "C04", name="delta_empty-and-categories-stored"),
                      cl("raw(self._matrix) == old(raw(self._matrix)) and shape(self._matrix) == old(shape(self._matrix))", "C04", name="matrix-kept"),
                      cl(PRE_INV, "C04", name="class-invariant-kernel-uses-the-object's-matrix-and-delta_empty")],
             serves={"C04"})
contract(F + "PrecomputedCategoricalDissimilarity.__init__",
         params={"self": PRED(), "categories": ObjT("SetStr"), "matrix": NdArray("f32", 2), "delta_empty": RealT()}, modifies=["self"],
         requires=["size(categories) <= 32767"],
         raises={"ValueError": {}, "AssertionError": {"iff": "not (shape(matrix)[0] == size(categories) and shape(matrix)[1] == size(categories))"}},
         calls={"super().__init__": F + "CategoricalDissimilarity.__init__#precomputed"},
         binds={"self.categories": "categories"},
         ensures=[cl("self.delta_empty == delta_empty and not isnone(self.categories)", "C04", name="parameters-stored"),
                  cl("raw(self._matrix) == raw(matrix) and shape(self._matrix)[0] == size(categories) and shape(self._matrix)[1] == size(categories)", "C04",
                     name="the-matrix-is-the-given-one-one-row-and-column-per-category"),
                  cl(PRE_INV, "C04", name="class-invariant-kernel-uses-the-object's-matrix-and-delta_empty")],
         serves={"C04"})

contract(F + "PrecomputedCategoricalDissimilarity.d",
         params={"self": PRED(), "unit1": UnitVT(), "unit2": UnitVT()}, returns=RealT(), modifies=[],
         requires=["not isnone(self.categories)", "shape(self._matrix)[0] == size(self.categories) and shape(self._matrix)[1] == size(self.categories)",
                   "unit1.haslab and unit2.haslab"],
         raises={"ValueError": {"iff": "not members(self.categories)[unit1.lab] or not members(self.categories)[unit2.lab]"}},
         ensures=[cl("result == self._matrix[idxof(self.categories)[unit1.lab]][idxof(self.categories)[unit2.lab]] * self.delta_empty", "C04",
                     name="matrix-entry-of-the-two-category-names-times-delta_empty")],
         hooks=[],
         serves={"C04"})

# ---- recomputation path (C03 D2): disorders of an alignment = kernel o encoding
contract(F + "AbstractDissimilarity.compute_disorder",
         params={"self": DISSIM(), "alignment": _ALIGN()}, returns=NdArray("f32", 1), modifies=[], macros=ARR_MACROS,
         requires=["not isnone(alignment.continuum)", "len(L()) >= 1", "well_formed()", "nS() >= 2", "self.delta_empty >= 0",
                   "forall(t, 0, len(L()), forall(s, 0, nS(), implies(not isnone(slotAt(t, s)) and some(slotAt(t, s)).haslab, "
                   "catmem2()[some(slotAt(t, s)).lab])))",
                   "forall(t, 0, len(L()), forall(s, 0, nS(), implies(not isnone(slotAt(t, s)), some(slotAt(t, s)).e - some(slotAt(t, s)).s > 1e-6)))"],
         raises={"AssertionError": {"iff": "not forall([(l, Real)], implies(Cat(CC())[l], catmem2()[l]))"}},
         ensures=[cl("len(result) == len(L())", "C03", name="one-disorder-per-unitary-alignment")],
         notes="the values are those of the kernel contract (_compute_alignment_disorders) on the rank-indexed encoding (_build_arrays_alignment)",
         serves={"C03"})

# ---- lambda family (Levenshtein): the matrix is built from the SORTED SET of the labels, so it does not depend on the order (or repetition)
#      in which labels were supplied; entry (i, j) is the category distance of the i-th and j-th category names over the largest distance (>= 1)
from pyvc.heap import register_class as _register_class   # noqa: E402
from pyvc.contract import global_ghost   # noqa: E402
_register_class("LambdaCategoricalDissimilarity", "pygamma_agreement/dissimilarity.py",
                ["PrecomputedCategoricalDissimilarity", "CategoricalDissimilarity", "AbstractDissimilarity"])
global_ghost("catf", "Real Real -> Real", [])
LAMD = lambda: ObjT("LambdaCategoricalDissimilarity", delta_empty=RealT(), d_mat=DMAT, categories=OptObjT(ObjT("SetStr")),   # noqa: E731
                    _matrix=NdArray("f32", 2))
contract(F + "LambdaCategoricalDissimilarity.cat_dissim_func", params={"str1": StrT(), "str2": StrT()}, returns=RealT(), static=True, trusted=True,
         ensures=[cl("result == catf(str1, str2)", "C04", name="a-function-of-the-two-category-names")],
         notes="ASSUMED abstract method: a deterministic function of the two names (Levenshtein's is numba code over strings, outside the encoding)",
         serves={"C04"})
contract(F + "LambdaCategoricalDissimilarity.__init__",
         params={"self": LAMD(), "labels": ListOf(StrT()), "delta_empty": RealT()}, modifies=["self"],
         ghost_vars={"MAXV": ("Real", None), "CS": ("AReal", None), "NC": ("Int", None)},
         calls={"self.cat_dissim_func": F + "LambdaCategoricalDissimilarity.cat_dissim_func",
                "super().__init__": F + "PrecomputedCategoricalDissimilarity.__init__"},
         requires=["len(labels) <= 32767"],
         raises={"ValueError": {}, "AssertionError": {}},
         ensures=[cl("not isnone(self.categories) and forall([(l, Real)], members(some(self.categories))[l] == exists(k, 0, len(labels), labels[k] == l))",
                     "C04", name="categories-are-the-set-of-the-labels-whatever-their-order"),
                  cl("NC == size(some(self.categories)) and forall(i, 0, NC, CS[i] == seqof(some(self.categories))[i]) and MAXV >= 1", "C04", name="ghosts"),
                  cl("shape(self._matrix) == (NC, NC) and forall(i, 0, NC, self._matrix[i][i] == 0 and forall(j, 0, i, "
                     "self._matrix[i][j] * MAXV == catf(CS[i], CS[j]) and self._matrix[j][i] == self._matrix[i][j]))", "C04",
                     name="entry-is-the-distance-of-the-two-category-names-over-the-largest-distance-symmetric-zero-diagonal"),
                  cl("forall(i, 0, NC, forall(j, 0, i, catf(CS[i], CS[j]) <= MAXV))", "C04", name="normalised-by-the-largest-distance")],
         loops={"L0": dict(match="for i in range(nb_categories)",
                           inv=["shape(matrix) == (NC, NC)", "max_val >= 1",
                                "forall(a, 0, i, forall(b, 0, a, matrix[a][b] == catf(CS[a], CS[b]) and matrix[b][a] == matrix[a][b] and matrix[a][b] <= max_val))",
                                "forall(a, 0, NC, forall(b, 0, NC, implies(a >= i or b >= i, matrix[a][b] == 0)))",
                                "forall(a, 0, NC, matrix[a][a] == 0)"]),
                "L0.0": dict(match="for j in range(i)",
                             inv=["shape(matrix) == (NC, NC)", "max_val >= 1",
                                  "forall(a, 0, i, forall(b, 0, a, matrix[a][b] == catf(CS[a], CS[b]) and matrix[b][a] == matrix[a][b] and matrix[a][b] <= max_val))",
                                  "forall(b, 0, j, matrix[i][b] == catf(CS[i], CS[b]) and matrix[b][i] == matrix[i][b] and matrix[i][b] <= max_val)",
                                  "forall(a, 0, NC, forall(b, 0, NC, implies(a > i or b > i or (a == i and b >= j) or (b == i and a >= j), matrix[a][b] == 0)))",
                                  "forall(a, 0, NC, matrix[a][a] == 0)"])},
         hooks=[("after", "nb_categories = ...", "NC = nb_categories"),
                ("after", "nb_categories = ...", "CS = seqof(categories)"),
                ("after", "matrix /= max_val", "MAXV = max_val")],
         serves={"C04"})
