"""Contracts of the recomputation path (C03 D2): they need both the alignment-side and the dissimilarity-side vocabularies, so they live in
a module of their own, loaded after contracts.alignment and contracts.dissimilarity."""
from pyvc.contract import (contract, cl, GhostFun, Macro, Lemma, NdArray, ListOf, IntT, RealT, BoolT, TupleOf, FnT, OptT, RecT)
from pyvc.heap import ObjT, UnitT, OptObjT
from .speclib import VIEW_MACROS
from .alignment import F, ALIGN

contract(F + "Alignment.avg_num_annotations_per_annotator#attached", params={"self": ALIGN()}, returns=RealT(), is_property=True, modifies=[],
         macros=VIEW_MACROS,
         requires=["not isnone(self.continuum)"],
         raises={"ZeroDivisionError": {"iff": "Nkeys(some(self.continuum)) == 0"}},
         ensures=[cl("result == NumUnits(some(self.continuum)) / Nkeys(some(self.continuum))", "C03", name="the-continuum's-mean-number-of-units")],
         serves={"C03"})

# D2: recomputing from the units stores, in every unitary alignment, the disorder the dissimilarity computes for it, and in the alignment
# the sum of those divided by the mean number of units per annotator
from .dissimilarity import DISSIM as _DISSIM, ARR_MACROS as _ARR_MACROS   # noqa: E402


def _for_alignment(text):
    """the encoding macros / requires of the dissimilarity side, restated with `self` the alignment and `dissimilarity` the dissimilarity"""
    import re
    text = re.sub(r"\bself\b", "dissimilarity", text)
    return re.sub(r"\balignment\b", "self", text)


_CD_MACROS = [Macro(m.name, m.params, _for_alignment(m.body.text)) for m in _ARR_MACROS if m.name not in ("RI", "same_view", "no_units", "NumUnits")]
_CD_REQ = [_for_alignment(t) for t in (
    "len(L()) >= 1", "well_formed()", "nS() >= 2", "self.delta_empty >= 0",
    "forall(t, 0, len(L()), forall(s, 0, nS(), implies(not isnone(slotAt(t, s)) and some(slotAt(t, s)).haslab, catmem2()[some(slotAt(t, s)).lab])))",
    "forall(t, 0, len(L()), forall(s, 0, nS(), implies(not isnone(slotAt(t, s)), some(slotAt(t, s)).e - some(slotAt(t, s)).s > 1e-6)))")]
contract(F + "Alignment.compute_disorder",
         params={"self": ALIGN(), "dissimilarity": _DISSIM()}, returns=RealT(), modifies=["self.unitary_alignments", "self._disorder"],
         macros=VIEW_MACROS + _CD_MACROS,
         ghost_vars={"DD": ("AReal", None)},
         calls={"dissimilarity.compute_disorder": "pygamma_agreement/dissimilarity.py::AbstractDissimilarity.compute_disorder",
                "self.avg_num_annotations_per_annotator": F + "Alignment.avg_num_annotations_per_annotator#attached"},
         requires=["not isnone(self.continuum)", "NumUnits(CC()) >= 1", "Nkeys(CC()) >= 1"] + _CD_REQ,
         raises={"AssertionError": {}},
         ensures=[cl("len(L()) == old(len(self.unitary_alignments))", "C03", name="same-unitary-alignments"),
                  cl("forall(t, 0, len(L()), L()[t]._n_tuple == old(self.unitary_alignments)[t]._n_tuple and not isnone(L()[t]._disorder) and "
                     "some(L()[t]._disorder) == DD[t])", "C03", name="D2-every-unitary-alignment-carries-its-recomputed-disorder"),
                  cl("not isnone(self._disorder) and some(self._disorder) == result and "
                     "result * (toreal(NumUnits(CC())) / Nkeys(CC())) == rpsum(DD, len(L()))", "C03",
                     name="D2-alignment-disorder-is-the-sum-of-unitary-disorders-over-the-mean-number-of-units")],
         loops={"L0": dict(match="for i, disorder in enumerate(disorders)", modifies=["self.unitary_alignments"],
                           inv=["len(L()) == old(len(self.unitary_alignments))",
                                "forall(t, 0, len(L()), L()[t]._n_tuple == old(self.unitary_alignments)[t]._n_tuple)",
                                "forall(t, 0, i, not isnone(L()[t]._disorder) and some(L()[t]._disorder) == DD[t])"])},
         hooks=[("after", "disorders = ...", "DD = raw(disorders)")],
         serves={"C03"})

# the soft alignment recomputes its disorder by the same code (a copy of the method)
contract(F + "SoftAlignment.compute_disorder",
         params={"self": ALIGN("SoftAlignment"), "dissimilarity": _DISSIM()}, returns=RealT(), modifies=["self.unitary_alignments", "self._disorder"],
         macros=VIEW_MACROS + _CD_MACROS,
         ghost_vars={"DD": ("AReal", None)},
         calls={"dissimilarity.compute_disorder": "pygamma_agreement/dissimilarity.py::AbstractDissimilarity.compute_disorder",
                "self.avg_num_annotations_per_annotator": F + "Alignment.avg_num_annotations_per_annotator#attached"},
         requires=["not isnone(self.continuum)", "NumUnits(CC()) >= 1", "Nkeys(CC()) >= 1"] + _CD_REQ,
         raises={"AssertionError": {}},
         ensures=[cl("len(L()) == old(len(self.unitary_alignments))", "C03", name="same-unitary-alignments"),
                  cl("forall(t, 0, len(L()), L()[t]._n_tuple == old(self.unitary_alignments)[t]._n_tuple and not isnone(L()[t]._disorder) and "
                     "some(L()[t]._disorder) == DD[t])", "C03", name="D2-every-unitary-alignment-carries-its-recomputed-disorder"),
                  cl("not isnone(self._disorder) and some(self._disorder) == result and "
                     "result * (toreal(NumUnits(CC())) / Nkeys(CC())) == rpsum(DD, len(L()))", "C03",
                     name="D2-alignment-disorder-is-the-sum-of-unitary-disorders-over-the-mean-number-of-units")],
         loops={"L0": dict(match="for i, disorder in enumerate(disorders)", modifies=["self.unitary_alignments"],
                           inv=["len(L()) == old(len(self.unitary_alignments))",
                                "forall(t, 0, len(L()), L()[t]._n_tuple == old(self.unitary_alignments)[t]._n_tuple)",
                                "forall(t, 0, i, not isnone(L()[t]._disorder) and some(L()[t]._disorder) == DD[t])"])},
         hooks=[("after", "disorders = ...", "DD = raw(disorders)")],
         serves={"C03"})
