"""Contracts for pygamma_agreement/sampler.py."""
from pyvc.contract import (contract, cl, GhostFun, Macro, Lemma, NdArray, ListOf, IntT, RealT, BoolT, TupleOf, FnT, OptT, RecT)
from pyvc.heap import ObjT, UnitT, OptObjT
from .types import StrT, SegT
from .speclib import VIEW_MACROS

F = "pygamma_agreement/sampler.py::"
from pyvc.heap import register_class   # noqa: E402
register_class("AbstractContinuumSampler", "pygamma_agreement/sampler.py")
register_class("StatisticalContinuumSampler", "pygamma_agreement/sampler.py", ["AbstractContinuumSampler"])
register_class("ShuffleContinuumSampler", "pygamma_agreement/sampler.py", ["AbstractContinuumSampler"])

from pyvc.contract import global_ghost   # noqa: E402
# pt(x) is TRUE for every real x: a trigger for clauses quantified over points of the real line (arithmetic atoms give E-matching nothing
# to instantiate on; MBQI alone does not cope with them)
global_ghost("pt", "Real -> Bool", ["forall([(x, Real)], pt(x), pat=[pt(x)])"])

# ------------------------------------------------------------------------------------------ _remove_pivot_segment  (C16 W4)
# pointwise over the reals: a point (other than the two end points of the exclusion zone) is covered by the result iff it was
# covered by the input and lies outside (pivot - dist, pivot + dist)
COVER = [Macro("cover", ["L", "x"], "exists(i, 0, len(L), L[i].start <= x and x <= L[i].end)"),
         Macro("zone", ["x"], "pivot - dist < x and x < pivot + dist"),
         Macro("edge", ["x"], "x == pivot - dist or x == pivot + dist")]

contract(F + "ShuffleContinuumSampler._remove_pivot_segment",
         params={"pivot": RealT(), "segments": ListOf(SegT()), "dist": RealT()}, returns=ListOf(SegT()), static=True,
         locals={"new_segments": SegT()}, macros=COVER,
         requires=["dist > 0", "forall(i, 0, len(segments), segments[i].start < segments[i].end)"],
         ensures=[cl("forall([(x, Real)], implies(not edge(x), cover(result, x) == (cover(old(segments), x) and not zone(x))))",
                     "C16", name="exactly-the-zone-is-removed"),
                  cl("forall([(x, Real)], implies(cover(result, x), cover(old(segments), x) and not zone(x)))", "C16",
                     name="nothing-outside-the-input-or-inside-the-zone"),
                  cl("forall([i, (x, Real)], implies(pt(x) and 0 <= i and i < len(result) and result[i].start <= x and x <= result[i].end, "
                     "not zone(x) and exists(j, 0, len(old(segments)), old(segments)[j].start <= x and x <= old(segments)[j].end)))", "C16",
                     name="every-point-of-a-kept-piece-was-available-and-is-outside-the-zone"),
                  cl("forall(i, 0, len(result), result[i].start < result[i].end)", "C16", name="segments-well-formed")],
         loops={"L0": dict(match="while len(segments) > 0", variant="len(segments)",
                           inv=["len(segments) <= len(old(segments))",
                                "forall(i, 0, len(segments), segments[i] == old(segments)[i])",
                                # processed so far: old(segments)[len(segments):]
                                cl("forall([(x, Real)], implies(cover(new_segments, x), not zone(x) and "
                                   "exists(i, len(segments), len(old(segments)), old(segments)[i].start <= x and x <= old(segments)[i].end)))",
                                   name="only-kept-points"),
                                cl("forall([(x, Real), i], implies(len(segments) <= i and i < len(old(segments)) and not edge(x) and "
                                   "not zone(x) and old(segments)[i].start <= x and x <= old(segments)[i].end, cover(new_segments, x)))",
                                   name="all-kept-points"),
                                "forall(i, 0, len(new_segments), new_segments[i].start < new_segments[i].end)"])},
         hooks=[
             # witnesses for the existential `cover`: what was covered stays covered after an append, and the appended
             # piece is covered
             ("before", "new_segments.append(segment)", "NSB = new_segments"),
             ("after", "new_segments.append(segment)",
              "assert forall([(x, Real)], implies(cover(NSB, x) or (segment.start <= x and x <= segment.end), cover(new_segments, x)))"),
             ("before", "new_segments.append(Segment(pivot + dist, segment.end))", "NSC = new_segments"),
             ("after", "new_segments.append(Segment(pivot + dist, segment.end))",
              "assert forall([(x, Real)], implies(cover(NSC, x) or (pivot + dist <= x and x <= segment.end), cover(new_segments, x)))"),
             ("before", "new_segments.append(Segment(segment.start, pivot - dist))", "NSD = new_segments"),
             ("after", "new_segments.append(Segment(segment.start, pivot - dist))",
              "assert forall([(x, Real)], implies(cover(NSD, x) or (segment.start <= x and x <= pivot - dist), cover(new_segments, x)))")],
         serves={"C16"})

# =========================================================================================================
# StatisticalContinuumSampler   (C15: valid continua over the ground-truth annotators; every clause holds for EVERY draw)
# =========================================================================================================
CONT = lambda: ObjT("Continuum")      # noqa: E731
STAT = lambda: ObjT("StatisticalContinuumSampler", _reference_continuum=OptObjT(CONT()),       # noqa: E731
                    _ground_truth_annotators=OptObjT(ObjT("SetStr")),
                    _avg_nb_units_per_annotator=RealT(), _std_nb_units_per_annotator=RealT(), _avg_gap=RealT(), _std_gap=RealT(),
                    _avg_unit_duration=RealT(), _std_unit_duration=RealT(), _categories=ListOf(StrT()),
                    _categories_weight=OptT(ListOf(RealT())))

contract(F + "AbstractContinuumSampler._has_been_init",
         params={"self": STAT()}, modifies=[],
         raises={"AssertionError": {"iff": "isnone(self._reference_continuum)"}}, serves={"C15", "C16"})

contract(F + "StatisticalContinuumSampler.sample_from_continuum",
         params={"self": STAT()}, returns=CONT(), is_property=True, modifies=[], macros=VIEW_MACROS + [
             Macro("ref", [], "some(self._reference_continuum)"), Macro("GT", [], "some(self._ground_truth_annotators)"),
             Macro("iscat", ["l"], "exists(c, 0, len(self._categories), self._categories[c] == l)")],
         coerce={"last_point": "Real"},
         requires=["not isnone(self._ground_truth_annotators)", "implies(not isnone(self._reference_continuum), ref().bound_inf <= ref().bound_sup)",
                   "len(self._categories) >= 1"],
         raises={"AssertionError": {"iff": "isnone(self._reference_continuum)"},
                 "ValueError": {}},     # the boundary draw end - start == SEGMENT_PRECISION leaves the redraw loop and is rejected by add
         ensures=[cl("fresh_obj(result) and disjoint_state(result, ref())", "C15 C14", name="fresh"),
                  cl("forall([(a, Real)], Ann(result)[a] == members(GT())[a])", "C15 C05", name="V1-exactly-the-ground-truth-annotators"),
                  cl("implies(size(GT()) >= 1, exists([(a, Real), (u, Unit)], Us(result)[a][u]))", "C15 C05", name="V2-non-empty"),
                  cl("RI(result)", "C15 C05", name="V3-valid-units-longer-than-the-precision"),
                  cl("forall([(l, Real)], implies(Cat(result)[l], iscat(l)))", "C15", name="V4-only-the-sampler's-categories"),
                  cl("result.bound_inf <= ref().bound_inf and result.bound_sup >= ref().bound_sup and "
                     "result.best_window_size == ref().best_window_size", "C15", name="V5-bounds-and-window-from-the-reference")],
         loops={"L0": dict(match="for annotator in self._ground_truth_annotators", index="kA", modifies=["new_continnum"],
                           inv=["forall([(a, Real)], Ann(new_continnum)[a] == (members(GT())[a] and idxof(GT())[a] < kA))",
                                "implies(kA >= 1, exists([(a, Real), (u, Unit)], Us(new_continnum)[a][u]))",
                                "RI(new_continnum)", "forall([(l, Real)], implies(Cat(new_continnum)[l], iscat(l)))",
                                "new_continnum.bound_inf <= ref().bound_inf and new_continnum.bound_sup >= ref().bound_sup and "
                                "new_continnum.best_window_size == ref().best_window_size"]),
                "L0.0": dict(match="for _ in range(nb_units)", modifies=["new_continnum"],
                             inv=["forall([(a, Real)], Ann(new_continnum)[a] == (members(GT())[a] and idxof(GT())[a] <= kA))",
                                  "implies(kA >= 1 or _ >= 1 or nb_units == 0, exists([(a, Real), (u, Unit)], Us(new_continnum)[a][u]))",
                                  "RI(new_continnum)", "forall([(l, Real)], implies(Cat(new_continnum)[l], iscat(l)))",
                                  "new_continnum.bound_inf <= ref().bound_inf and new_continnum.bound_sup >= ref().bound_sup and "
                                  "new_continnum.best_window_size == ref().best_window_size"]),
                "L0.0.0": dict(match="while end - start < pyannote.core.segment.SEGMENT_PRECISION", inv=["true()"])},
         hooks=[("before", "if not new_continnum: ...", "model_inv wfmap(new_continnum)"),
                ("before", "for _ in range(nb_units): ...",
                 "assert nb_units >= 1 or exists([(a, Real), (u, Unit)], Us(new_continnum)[a][u])")],
         serves={"C15", "C05", "C14"})

# =========================================================================================================
# ShuffleContinuumSampler.sample_from_continuum   (C16 W0-W4: every clause holds for EVERY draw)
# =========================================================================================================
SHUF = lambda: ObjT("ShuffleContinuumSampler", _reference_continuum=OptObjT(CONT()),       # noqa: E731
                    _ground_truth_annotators=OptObjT(ObjT("SetStr")), _pivot_type=StrT())

from .speclib import PSUM_LEMMAS   # noqa: E402
from .continuum import ITER_MACROS as _ITER_MACROS   # noqa: E402
contract("pygamma_agreement/continuum.py::Continuum.avg_length_unit", params={"self": CONT()}, returns=RealT(), is_property=True,
         macros=_ITER_MACROS, modifies=[], lemmas=PSUM_LEMMAS,
         requires=["RI(self)", "NumUnits(self) >= 1"],
         ensures=[cl("result > 0", "C16 C19", name="a-mean-of-positive-durations")],
         serves={"C16", "C19"})

# proved over the RNG model: the weights are the segment lengths over their sum - a probability vector whenever every segment has positive
# length - so np.random.choice cannot raise (the `return 1` fallback is dead code under the requires: an obligation, not an assumption)
from pyvc.contract import Lemma   # noqa: E402
_RS_LEMMAS = [
    Lemma("rpsum_scaled", "rpsum(g, k) * s == rpsum(f, k)", binders=[("f", "AReal"), ("g", "AReal"), ("s", "Real"), ("k", "Int")],
          hyps=["0 <= k", "s != 0", "forall(i, 0, k, g[i] * s == f[i])"], method=("induction", "k", "0", "fixed")),
    Lemma("rpsum_positive", "rpsum(f, k) > 0", binders=[("f", "AReal"), ("k", "Int")],
          hyps=["1 <= k", "forall(i, 0, k, f[i] > 0)"], method=("induction", "k", "1", "fixed")),
]
contract(F + "ShuffleContinuumSampler._random_from_segments",
         params={"self": SHUF(), "segments": ListOf(SegT())}, returns=RealT(), modifies=[], macros=COVER[:1], lemmas=_RS_LEMMAS,
         export_lemmas=False,
         ghost_vars={"W0": ("AReal", None), "S0": ("Real", None)},
         requires=["len(segments) >= 1", "forall(i, 0, len(segments), segments[i].start < segments[i].end)"],
         ensures=[cl("pt(result) and implies(self._pivot_type == 'float_pivot', cover(segments, result))", "C16", name="float-pivot-lies-in-an-available-segment"),
                  cl("implies(self._pivot_type == 'int_pivot', isint(result))", "C16", name="int-pivot-is-a-whole-number")],
         hooks=[("after", "weights = ...", "W0 = raw(weights)"),
                ("after", "weights = ...", "use rpsum_positive(f=W0, k=len(segments))"),
                ("after", "weights = ...", "S0 = rpsum(W0, len(segments))"),
                ("after", "weights /= np.sum(weights)", "use rpsum_scaled(f=W0, g=raw(weights), s=S0, k=len(segments))"),
                ("after", "weights /= np.sum(weights)", "assert rpsum(raw(weights), len(segments)) == 1")],
         unreachable=["return 1"],
         notes="RNG model: np.random.choice(list, p=float array) raises ValueError unless the weights are a probability vector, else returns "
               "one of the segments; np.random.uniform a point of it; int() gives a whole number",
         serves={"C16"})

SHUF_MACROS = VIEW_MACROS + COVER[:1] + [
    Macro("ref", [], "some(self._reference_continuum)"), Macro("GT", [], "some(self._ground_truth_annotators)"),
    Macro("T", [], "new_continuum"),
    Macro("name", ["i"], "fstr('Sampled_annotation {}', i)"),
    Macro("dist", [], "min_dist_between_pivots"),
    # the unit u of the reference shifted by the pivot p, wrapped around by the continuum's length when it would start beyond the upper bound
    Macro("wraps", ["u", "p"], "u.s + p > ref().bound_sup"),
    Macro("shifted", ["u", "p", "v"],
          "v.haslab == u.haslab and v.lab == u.lab and "
          "v.s == u.s + p + ite(wraps(u, p), ref().bound_inf - ref().bound_sup, 0) and "
          "v.e == u.e + p + ite(wraps(u, p), ref().bound_inf - ref().bound_sup, 0)"),
    # annotator i of the sample carries exactly the shifted units of its ground-truth annotator GA[i]
    # (stated as two implications: both have usable triggers, an equivalence between a membership and an existential has none)
    Macro("copy_of", ["X", "i"], "members(GT())[GA[i]] and "
                                 "forall([(v, Unit)], implies(Us(X)[name(i)][v], exists([(u, Unit)], Us(ref())[GA[i]][u] and shifted(u, PIV[i], v)))) and "
                                 "forall([(u, Unit), (v, Unit)], implies(Us(ref())[GA[i]][u] and shifted(u, PIV[i], v), Us(X)[name(i)][v]))"),
    Macro("annots_upto_or_more", ["k"], "forall(i, 0, k, Ann(T())[name(i)]) and "
                                        "forall([(a, Real)], implies(Ann(T())[a], exists(i, 0, size(GT()), a == name(i))))"),
    Macro("annots_upto", ["X", "n"], "forall([(a, Real)], Ann(X)[a] == exists(i, 0, n, a == name(i)))"),
    Macro("separated_upto", ["n"], "forall(i, 0, n, forall(j, i + 1, n, implies(DRAWN[j] and self._pivot_type == 'float_pivot', "
                                   "PIV[j] - PIV[i] >= dist() or PIV[i] - PIV[j] >= dist())))"),
    Macro("avail_ok", ["n"], "forall(k, 0, len(segments_available), segments_available[k].start < segments_available[k].end) and "
                             "forall([k, (x, Real)], implies(pt(x) and 0 <= k and k < len(segments_available) and segments_available[k].start <= x and "
                             "x <= segments_available[k].end, ref().bound_inf <= x and x <= ref().bound_sup and "
                             "forall(i, 0, n, x - PIV[i] >= dist() or PIV[i] - x >= dist())))"),
]

contract(F + "ShuffleContinuumSampler.sample_from_continuum",
         params={"self": SHUF()}, returns=CONT(), is_property=True, modifies=[], macros=SHUF_MACROS,
         ghost_vars={"GA": ("AReal", None), "PIV": ("AReal", None), "DRAWN": ("ABool", None), "DONE": ("Bool", "False")},
         requires=["not isnone(self._ground_truth_annotators)",
                   "implies(not isnone(self._reference_continuum), RI(ref()) and NumUnits(ref()) >= 1 and ref().bound_inf < ref().bound_sup and "
                   "forall([(a, Real)], implies(members(GT())[a], Ann(ref())[a])))",
                   "self._pivot_type == 'float_pivot' or self._pivot_type == 'int_pivot'"],
         raises={"AssertionError": {"iff": "isnone(self._reference_continuum)"}},
         ensures=[cl("fresh_obj(result) and disjoint_state(result, ref())", "C16 C14", name="fresh"),
                  cl("exists([(a, Real), (u, Unit)], Us(result)[a][u])", "C16 C05", name="W0-non-empty"),
                  cl("annots_upto(result, size(GT()))", "C16 C05", name="W1-one-annotator-per-ground-truth-annotator"),
                  cl("forall(i, 0, size(GT()), copy_of(result, i))", "C16", name="W2-each-a-shifted-wrapped-copy-of-a-ground-truth-annotator"),
                  cl("forall(i, 0, size(GT()), implies(DRAWN[i] and self._pivot_type == 'float_pivot', "
                     "ref().bound_inf <= PIV[i] and PIV[i] <= ref().bound_sup))", "C16", name="W3-pivots-within-the-bounds"),
                  cl("separated_upto(size(GT()))", "C16", name="W4-pivots-at-least-half-the-average-unit-length-apart"),
                  cl("forall(i, 0, size(GT()), implies(DRAWN[i] and self._pivot_type == 'int_pivot', isint(PIV[i])))", "C16",
                     name="W5-integer-pivots-are-whole-numbers"),
                  cl("RI(result)", "C16 C05", name="valid-continuum")],
         loops={"L0": dict(match="while not new_continuum", modifies=["new_continuum"],
                           inv=["RI(T())",
                                "forall([(a, Real)], implies(Ann(T())[a], exists(i, 0, size(GT()), a == name(i))))",
                                "implies(not DONE, forall([(a, Real), (u, Unit)], not Us(T())[a][u]))",
                                "implies(DONE, annots_upto(T(), size(GT())))",
                                "implies(DONE, forall(i, 0, size(GT()), copy_of(T(), i)))",
                                "implies(DONE, separated_upto(size(GT())))",
                                "implies(DONE, forall(i, 0, size(GT()), implies(DRAWN[i], "
                                "implies(self._pivot_type == 'int_pivot', isint(PIV[i])) and implies(self._pivot_type == 'float_pivot', "
                                "ref().bound_inf <= PIV[i] and PIV[i] <= ref().bound_sup))))"]),
                "L0.0": dict(match="for idx in range(len(annotators))", modifies=["new_continuum"],
                             inv=["RI(T())", "annots_upto_or_more(idx)", "forall(i, 0, idx, copy_of(T(), i))",
                                  "forall(i, idx, size(GT()), forall([(v, Unit)], not Us(T())[name(i)][v]))",
                                  "separated_upto(idx)", "avail_ok(idx)",
                                  "forall(i, 0, idx, implies(DRAWN[i], implies(self._pivot_type == 'int_pivot', isint(PIV[i])) and "
                                  "implies(self._pivot_type == 'float_pivot', ref().bound_inf <= PIV[i] and PIV[i] <= ref().bound_sup)))",
                                  "forall(i, 0, idx, implies(not DRAWN[i], len(segments_available) == 0))"]),
                "L0.0.0": dict(match="for unit in continuum.iter_annotator(rnd_annotator)", index="jU", modifies=["new_continuum"],
                               inv=["RI(T())", "annots_upto_or_more(idx + 1)", "forall(i, 0, idx, copy_of(T(), i))",
                                    "forall(i, idx + 1, size(GT()), forall([(v, Unit)], not Us(T())[name(i)][v]))",
                                    "forall([(v, Unit)], implies(Us(T())[name(idx)][v], exists([(u, Unit)], Us(ref())[rnd_annotator][u] and "
                                    "Uidx(ref())[rnd_annotator][u] < jU and shifted(u, pivot, v))))",
                                    "forall([(u, Unit), (v, Unit)], implies(Us(ref())[rnd_annotator][u] and Uidx(ref())[rnd_annotator][u] < jU and "
                                    "shifted(u, pivot, v), Us(T())[name(idx)][v]))"])},
         hooks=[("before", "while not new_continuum: ...", "model_inv wfmap(ref())"),
                ("before", "return new_continuum", "model_inv wfmap(new_continuum)"),
                ("before", "return new_continuum", "assert exists(k, 0, Nkeys(T()), Cnt(T())[Kseq(T())[k]] >= 1)"),
                ("before", "return new_continuum", "assert exists([(a, Real), (u, Unit)], Us(T())[a][u])"),
                ("before", "return new_continuum", "assert DONE"),
                # the unit yielded at position jU is the only unit of that annotator with that index
                ("before", "if unit.segment.start + pivot > bound_sup: ...",
                 "assert forall([(u, Unit)], implies(Us(ref())[rnd_annotator][u] and Uidx(ref())[rnd_annotator][u] == jU, u == unit))"),
                ("before", "segments_available = [...", "model_inv wfmap(new_continuum)"),
                ("before", "segments_available = [...", "assert forall([(a, Real), (u, Unit)], not Us(T())[a][u])"),
                ("after", "segments_available = self._remove_pivot_segment(...",
                 "assert forall(k, 0, len(segments_available), segments_available[k].start < segments_available[k].end) and "
                 "forall([k, (x, Real)], implies(pt(x) and 0 <= k and k < len(segments_available) and segments_available[k].start <= x and "
                 "x <= segments_available[k].end, ref().bound_inf <= x and x <= ref().bound_sup and "
                 "(x - pivot >= dist() or pivot - x >= dist()) and forall(i, 0, idx, x - PIV[i] >= dist() or PIV[i] - x >= dist())))"),
                ("after", "for unit in continuum.iter_annotator(rnd_annotator): ...", "assert forall(i, 0, idx, copy_of(T(), i))"),
                ("after", "for unit in continuum.iter_annotator(rnd_annotator): ...",
                 "assert forall([(u, Unit)], implies(Us(ref())[rnd_annotator][u], Uidx(ref())[rnd_annotator][u] < Cnt(ref())[rnd_annotator]))"),
                ("after", "for unit in continuum.iter_annotator(rnd_annotator): ...", "assert members(GT())[GA[idx]] and GA[idx] == rnd_annotator and PIV[idx] == pivot"),
                ("after", "for unit in continuum.iter_annotator(rnd_annotator): ...",
                 "assert forall([(v, Unit)], implies(Us(T())[name(idx)][v], exists([(u, Unit)], Us(ref())[GA[idx]][u] and shifted(u, PIV[idx], v))))"),
                ("after", "for unit in continuum.iter_annotator(rnd_annotator): ...",
                 "assert forall([(u, Unit), (v, Unit)], implies(Us(ref())[GA[idx]][u] and shifted(u, PIV[idx], v), Us(T())[name(idx)][v]))"),
                ("after", "for unit in continuum.iter_annotator(rnd_annotator): ...", "assert copy_of(T(), idx)"),
                ("after", "for unit in continuum.iter_annotator(rnd_annotator): ...", "assert forall(i, 0, idx + 1, implies(i != idx, copy_of(T(), i)))"),
                ("after", "for idx in range(len(annotators)): ...", "DONE = True"),
                ("after", "for idx in range(len(annotators)): ...", "assert annots_upto(T(), size(GT()))"),
                ("after", "for idx in range(len(annotators)): ...", "assert forall(i, 0, size(GT()), copy_of(T(), i)) and separated_upto(size(GT()))"),
                # a Unit is determined by its four fields: there is one shifted image of a unit
                ("before", "while not new_continuum: ...",
                 "assert forall([(u, Unit), (p, Real), (v1, Unit), (v2, Unit)], implies(shifted(u, p, v1) and shifted(u, p, v2), v1 == v2))"),
                ("after", "pivot: float = ...", "DRAWN = store(DRAWN, idx, True)"),
                ("after", "pivot = ...", "DRAWN = store(DRAWN, idx, False)"),
                ("after", "rnd_annotator = ...", "GA = store(GA, idx, rnd_annotator)"),
                ("after", "rnd_annotator = ...", "PIV = store(PIV, idx, pivot)")],
         serves={"C16", "C05", "C14"})

# =========================================================================================================
# StatisticalContinuumSampler: the measured parameters are the reference's statistics  (C15, "with the reference's statistics")
# =========================================================================================================
from .continuum import ITER_MACROS   # noqa: E402
STAT_MACROS = ITER_MACROS + [Macro("ref", [], "some(self._reference_continuum)")]

contract(F + "StatisticalContinuumSampler._set_nb_units_information",
         params={"self": STAT()}, modifies=["self._avg_nb_units_per_annotator", "self._std_nb_units_per_annotator"], macros=STAT_MACROS,
         requires=["not isnone(self._reference_continuum)", "Nkeys(ref()) >= 1"],
         ghost_vars={"NB": ("AInt", None)},
         ensures=[cl("forall(k, 0, Nkeys(ref()), NB[k] == Cnt(ref())[Kseq(ref())[k]])", "C15", name="one-count-per-annotator-of-the-reference"),
                  cl("self._avg_nb_units_per_annotator == rpsum(lam(k, toreal(NB[k])), Nkeys(ref())) / Nkeys(ref())", "C15",
                     name="mean-number-of-units-per-annotator"),
                  cl("self._std_nb_units_per_annotator == npstd(lam(k, toreal(NB[k])), Nkeys(ref()))", "C15",
                     name="standard-deviation-of-the-same-counts")],
         hooks=[("after", "nb_units = ...", "NB = raw(nb_units)"),
                ("after", "nb_units = ...", "model_inv wfmap(ref())")],
         serves={"C15"})

contract(F + "StatisticalContinuumSampler._set_duration_information",
         params={"self": STAT()}, modifies=["self._avg_unit_duration", "self._std_unit_duration"], macros=STAT_MACROS,
         requires=["not isnone(self._reference_continuum)", "RI(ref())", "NumUnits(ref()) >= 1"],
         ghost_vars={"DU": ("AReal", None)},
         ensures=[cl("forall([(a, Real), (u, Unit)], implies(Us(ref())[a][u], DU[flat(ref(), a, u)] == u.e - u.s))", "C15",
                     name="one-duration-per-unit-of-the-reference-in-iteration-order"),
                  cl("self._avg_unit_duration == rpsum(DU, NumUnits(ref())) / NumUnits(ref())", "C15", name="mean-unit-duration"),
                  cl("self._std_unit_duration == npstd(DU, NumUnits(ref()))", "C15", name="standard-deviation-of-the-same-durations")],
         hooks=[("after", "durations = ...", "DU = raw(durations)"),
                ("after", "durations = ...", "model_inv wfmap(ref())")],
         serves={"C15"})

# =========================================================================================================
# init_sampling: establishes what sample_from_continuum requires (C15 / C16: "the ground-truth annotators")
# =========================================================================================================
ABSS = lambda: ObjT("AbstractContinuumSampler", _reference_continuum=OptObjT(CONT()), _ground_truth_annotators=OptObjT(ObjT("SetStr")))   # noqa: E731
for _q, _T, _calls in ((F + "AbstractContinuumSampler.init_sampling#given", ABSS, {}),
                       (F + "ShuffleContinuumSampler.init_sampling#given", SHUF, {"super().init_sampling": F + "AbstractContinuumSampler.init_sampling#given"})):
    contract(_q, params={"self": _T(), "reference_continuum": CONT(), "ground_truth_annotators": OptT(ListOf(StrT()))},
             modifies=["self"], macros=VIEW_MACROS, calls=_calls,
             requires=["not isnone(ground_truth_annotators)"],
             binds={"self._reference_continuum": "reference_continuum"},
             raises={"AssertionError": {"iff": "not exists(k, 0, Nkeys(reference_continuum), Cnt(reference_continuum)[Kseq(reference_continuum)[k]] != 0) or "
                                               "exists(j, 0, len(some(ground_truth_annotators)), not Ann(reference_continuum)[some(ground_truth_annotators)[j]])"}},
             ensures=[cl("not isnone(self._reference_continuum) and not isnone(self._ground_truth_annotators)", "C15 C16", name="initialised"),
                      cl("forall([(a, Real)], members(some(self._ground_truth_annotators))[a] == exists(j, 0, len(some(ground_truth_annotators)), "
                         "some(ground_truth_annotators)[j] == a))", "C15 C16", name="the-ground-truth-annotators-are-exactly-the-given-ones"),
                      cl("forall([(a, Real)], implies(members(some(self._ground_truth_annotators))[a], Ann(reference_continuum)[a]))", "C15 C16",
                         name="they-are-annotators-of-the-reference")],
             serves={"C15", "C16", "C05"})
for _q, _T, _calls in ((F + "AbstractContinuumSampler.init_sampling#default", ABSS, {}),
                       (F + "ShuffleContinuumSampler.init_sampling#default", SHUF, {"super().init_sampling": F + "AbstractContinuumSampler.init_sampling#default"})):
    contract(_q, params={"self": _T(), "reference_continuum": CONT(), "ground_truth_annotators": OptT(ListOf(StrT()))},
             modifies=["self"], macros=VIEW_MACROS, calls=_calls,
             requires=["isnone(ground_truth_annotators)"],
             binds={"self._reference_continuum": "reference_continuum"},
             raises={"AssertionError": {"iff": "not exists(k, 0, Nkeys(reference_continuum), Cnt(reference_continuum)[Kseq(reference_continuum)[k]] != 0)"}},
             ensures=[cl("not isnone(self._reference_continuum) and not isnone(self._ground_truth_annotators)", "C15 C16", name="initialised"),
                      cl("members(some(self._ground_truth_annotators)) == Ann(reference_continuum)", "C15 C16",
                         name="by-default-every-annotator-of-the-reference-is-ground-truth")],
             serves={"C15", "C16", "C05"})
