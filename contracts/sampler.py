"""Contracts for pygamma_agreement/sampler.py."""
from pyvc.contract import (contract, cl, GhostFun, Macro, Lemma, NdArray, ListOf, IntT, RealT, BoolT, TupleOf, FnT, OptT, RecT)
from pyvc.heap import ObjT, UnitT, OptObjT
from .types import StrT, SegT
from .speclib import VIEW_MACROS

F = "pygamma_agreement/sampler.py::"

# ------------------------------------------------------------------------------------------ _remove_pivot_segment  (C16 W4)
# pointwise over the reals: a point (other than the two end points of the exclusion zone) is covered by the result iff it was
# covered by the input and lies outside (pivot - dist, pivot + dist)
COVER = [Macro("cover", ["L", "x"], "exists(i, 0, len(L), L[i].start <= x and x <= L[i].end)"),
         Macro("zone", ["x"], "pivot - dist < x and x < pivot + dist"),
         Macro("edge", ["x"], "x == pivot - dist or x == pivot + dist")]

contract(F + "ShuffleContinuumSampler._remove_pivot_segment",
         params={"pivot": RealT(), "segments": ListOf(SegT()), "dist": RealT()}, returns=ListOf(SegT()), static=True,
         locals={"new_segments": SegT()}, macros=COVER,
         requires=["dist > 0", "forall(i, 0, len(segments), segments[i].start < segments[i].end)"],
         ensures=[cl("forall([(x, Real)], implies(not edge(x), cover(result, x) == (cover(old(segments), x) and not zone(x))))",
                     "C16", name="exactly-the-zone-is-removed"),
                  cl("forall(i, 0, len(result), result[i].start <= result[i].end)", "C16", name="segments-well-formed")],
         loops={"L0": dict(match="while len(segments) > 0", variant="len(segments)",
                           inv=["len(segments) <= len(old(segments))",
                                "forall(i, 0, len(segments), segments[i] == old(segments)[i])",
                                # processed so far: old(segments)[len(segments):]
                                cl("forall([(x, Real)], implies(cover(new_segments, x) and not edge(x), not zone(x) and "
                                   "exists(i, len(segments), len(old(segments)), old(segments)[i].start <= x and x <= old(segments)[i].end)))",
                                   name="only-kept-points"),
                                cl("forall([(x, Real), i], implies(len(segments) <= i and i < len(old(segments)) and not edge(x) and "
                                   "not zone(x) and old(segments)[i].start <= x and x <= old(segments)[i].end, cover(new_segments, x)))",
                                   name="all-kept-points"),
                                "forall(i, 0, len(new_segments), new_segments[i].start <= new_segments[i].end)"])},
         hooks=[
             # witnesses for the existential `cover`: what was covered stays covered after an append, and the appended
             # piece is covered
             ("before", "new_segments.append(segment)", "NSB = new_segments"),
             ("after", "new_segments.append(segment)",
              "assert forall([(x, Real)], implies(cover(NSB, x) or (segment.start <= x and x <= segment.end), cover(new_segments, x)))"),
             ("before", "new_segments.append(Segment(pivot + dist, segment.end))", "NSC = new_segments"),
             ("after", "new_segments.append(Segment(pivot + dist, segment.end))",
              "assert forall([(x, Real)], implies(cover(NSC, x) or (pivot + dist <= x and x <= segment.end), cover(new_segments, x)))"),
             ("before", "new_segments.append(Segment(segment.start, pivot - dist))", "NSD = new_segments"),
             ("after", "new_segments.append(Segment(segment.start, pivot - dist))",
              "assert forall([(x, Real)], implies(cover(NSD, x) or (segment.start <= x and x <= pivot - dist), cover(new_segments, x)))")],
         serves={"C16"})
