"""Contracts for pygamma_agreement/sampler.py."""
from pyvc.contract import (contract, cl, GhostFun, Macro, Lemma, NdArray, ListOf, IntT, RealT, BoolT, TupleOf, FnT, OptT, RecT)
from pyvc.heap import ObjT, UnitT, OptObjT
from .types import StrT, SegT
from .speclib import VIEW_MACROS

F = "pygamma_agreement/sampler.py::"
from pyvc.heap import register_class   # noqa: E402
register_class("AbstractContinuumSampler", "pygamma_agreement/sampler.py")
register_class("StatisticalContinuumSampler", "pygamma_agreement/sampler.py", ["AbstractContinuumSampler"])
register_class("ShuffleContinuumSampler", "pygamma_agreement/sampler.py", ["AbstractContinuumSampler"])

# ------------------------------------------------------------------------------------------ _remove_pivot_segment  (C16 W4)
# pointwise over the reals: a point (other than the two end points of the exclusion zone) is covered by the result iff it was
# covered by the input and lies outside (pivot - dist, pivot + dist)
COVER = [Macro("cover", ["L", "x"], "exists(i, 0, len(L), L[i].start <= x and x <= L[i].end)"),
         Macro("zone", ["x"], "pivot - dist < x and x < pivot + dist"),
         Macro("edge", ["x"], "x == pivot - dist or x == pivot + dist")]

contract(F + "ShuffleContinuumSampler._remove_pivot_segment",
         params={"pivot": RealT(), "segments": ListOf(SegT()), "dist": RealT()}, returns=ListOf(SegT()), static=True,
         locals={"new_segments": SegT()}, macros=COVER,
         requires=["dist > 0", "forall(i, 0, len(segments), segments[i].start < segments[i].end)"],
         ensures=[cl("forall([(x, Real)], implies(not edge(x), cover(result, x) == (cover(old(segments), x) and not zone(x))))",
                     "C16", name="exactly-the-zone-is-removed"),
                  cl("forall(i, 0, len(result), result[i].start <= result[i].end)", "C16", name="segments-well-formed")],
         loops={"L0": dict(match="while len(segments) > 0", variant="len(segments)",
                           inv=["len(segments) <= len(old(segments))",
                                "forall(i, 0, len(segments), segments[i] == old(segments)[i])",
                                # processed so far: old(segments)[len(segments):]
                                cl("forall([(x, Real)], implies(cover(new_segments, x) and not edge(x), not zone(x) and "
                                   "exists(i, len(segments), len(old(segments)), old(segments)[i].start <= x and x <= old(segments)[i].end)))",
                                   name="only-kept-points"),
                                cl("forall([(x, Real), i], implies(len(segments) <= i and i < len(old(segments)) and not edge(x) and "
                                   "not zone(x) and old(segments)[i].start <= x and x <= old(segments)[i].end, cover(new_segments, x)))",
                                   name="all-kept-points"),
                                "forall(i, 0, len(new_segments), new_segments[i].start <= new_segments[i].end)"])},
         hooks=[
             # witnesses for the existential `cover`: what was covered stays covered after an append, and the appended
             # piece is covered
             ("before", "new_segments.append(segment)", "NSB = new_segments"),
             ("after", "new_segments.append(segment)",
              "assert forall([(x, Real)], implies(cover(NSB, x) or (segment.start <= x and x <= segment.end), cover(new_segments, x)))"),
             ("before", "new_segments.append(Segment(pivot + dist, segment.end))", "NSC = new_segments"),
             ("after", "new_segments.append(Segment(pivot + dist, segment.end))",
              "assert forall([(x, Real)], implies(cover(NSC, x) or (pivot + dist <= x and x <= segment.end), cover(new_segments, x)))"),
             ("before", "new_segments.append(Segment(segment.start, pivot - dist))", "NSD = new_segments"),
             ("after", "new_segments.append(Segment(segment.start, pivot - dist))",
              "assert forall([(x, Real)], implies(cover(NSD, x) or (segment.start <= x and x <= pivot - dist), cover(new_segments, x)))")],
         serves={"C16"})

# =========================================================================================================
# StatisticalContinuumSampler   (C15: valid continua over the ground-truth annotators; every clause holds for EVERY draw)
# =========================================================================================================
CONT = lambda: ObjT("Continuum")      # noqa: E731
STAT = lambda: ObjT("StatisticalContinuumSampler", _reference_continuum=OptObjT(CONT()),       # noqa: E731
                    _ground_truth_annotators=OptObjT(ObjT("SetStr")),
                    _avg_nb_units_per_annotator=RealT(), _std_nb_units_per_annotator=RealT(), _avg_gap=RealT(), _std_gap=RealT(),
                    _avg_unit_duration=RealT(), _std_unit_duration=RealT(), _categories=ListOf(StrT()),
                    _categories_weight=OptT(ListOf(RealT())))

contract(F + "AbstractContinuumSampler._has_been_init",
         params={"self": STAT()}, modifies=[],
         raises={"AssertionError": {"iff": "isnone(self._reference_continuum)"}}, serves={"C15", "C16"})

contract(F + "StatisticalContinuumSampler.sample_from_continuum",
         params={"self": STAT()}, returns=CONT(), is_property=True, modifies=[], macros=VIEW_MACROS + [
             Macro("ref", [], "some(self._reference_continuum)"), Macro("GT", [], "some(self._ground_truth_annotators)"),
             Macro("iscat", ["l"], "exists(c, 0, len(self._categories), self._categories[c] == l)")],
         coerce={"last_point": "Real"},
         requires=["not isnone(self._ground_truth_annotators)", "implies(not isnone(self._reference_continuum), ref().bound_inf <= ref().bound_sup)",
                   "len(self._categories) >= 1"],
         raises={"AssertionError": {"iff": "isnone(self._reference_continuum)"},
                 "ValueError": {}},     # the boundary draw end - start == SEGMENT_PRECISION leaves the redraw loop and is rejected by add
         ensures=[cl("fresh_obj(result) and disjoint_state(result, ref())", "C15 C14", name="fresh"),
                  cl("forall([(a, Real)], Ann(result)[a] == members(GT())[a])", "C15 C05", name="V1-exactly-the-ground-truth-annotators"),
                  cl("implies(size(GT()) >= 1, exists([(a, Real), (u, Unit)], Us(result)[a][u]))", "C15 C05", name="V2-non-empty"),
                  cl("RI(result)", "C15 C05", name="V3-valid-units-longer-than-the-precision"),
                  cl("forall([(l, Real)], implies(Cat(result)[l], iscat(l)))", "C15", name="V4-only-the-sampler's-categories"),
                  cl("result.bound_inf <= ref().bound_inf and result.bound_sup >= ref().bound_sup and "
                     "result.best_window_size == ref().best_window_size", "C15", name="V5-bounds-and-window-from-the-reference")],
         loops={"L0": dict(match="for annotator in self._ground_truth_annotators", index="kA", modifies=["new_continnum"],
                           inv=["forall([(a, Real)], Ann(new_continnum)[a] == (members(GT())[a] and idxof(GT())[a] < kA))",
                                "implies(kA >= 1, exists([(a, Real), (u, Unit)], Us(new_continnum)[a][u]))",
                                "RI(new_continnum)", "forall([(l, Real)], implies(Cat(new_continnum)[l], iscat(l)))",
                                "new_continnum.bound_inf <= ref().bound_inf and new_continnum.bound_sup >= ref().bound_sup and "
                                "new_continnum.best_window_size == ref().best_window_size"]),
                "L0.0": dict(match="for _ in range(nb_units)", modifies=["new_continnum"],
                             inv=["forall([(a, Real)], Ann(new_continnum)[a] == (members(GT())[a] and idxof(GT())[a] <= kA))",
                                  "implies(kA >= 1 or _ >= 1 or nb_units == 0, exists([(a, Real), (u, Unit)], Us(new_continnum)[a][u]))",
                                  "RI(new_continnum)", "forall([(l, Real)], implies(Cat(new_continnum)[l], iscat(l)))",
                                  "new_continnum.bound_inf <= ref().bound_inf and new_continnum.bound_sup >= ref().bound_sup and "
                                  "new_continnum.best_window_size == ref().best_window_size"]),
                "L0.0.0": dict(match="while end - start < pyannote.core.segment.SEGMENT_PRECISION", inv=["true()"])},
         hooks=[("before", "if not new_continnum: ...", "model_inv wfmap(new_continnum)"),
                ("before", "for _ in range(nb_units): ...",
                 "assert nb_units >= 1 or exists([(a, Real), (u, Unit)], Us(new_continnum)[a][u])")],
         serves={"C15", "C05", "C14"})
