"""Shared parameter types of the contracts.  Strings (labels, annotators) are order-preserving real codes (S5)."""
from pyvc.contract import RecT, RealT, OptT, NdArray, IntT, BoolT

StrT = RealT          # S5: only equality and order of labels / annotators matter
SegT = lambda: RecT("Segment", start=RealT(), end=RealT())           # noqa: E731
UnitT = lambda: RecT("Unit", segment=SegT(), annotation=OptT(StrT()))  # noqa: E731
RowT = lambda: NdArray("f32", 1)                                      # noqa: E731  encoded unit (start, end, dur, category index)


from pyvc.contract import ListOf as _ListOf     # noqa: E402


class StrListOf(_ListOf):
    """a list of strings (by their codes): the marker lets library models tell it from a list of numbers (np.array(.., dtype=float) PARSES it)"""
    def __init__(self):
        super().__init__(StrT())
