"""Shared parameter types of the contracts.  Strings (labels, annotators) are order-preserving real codes (S5)."""
from pyvc.contract import RecT, RealT, OptT, NdArray, IntT, BoolT

StrT = RealT          # S5: only equality and order of labels / annotators matter
SegT = lambda: RecT("Segment", start=RealT(), end=RealT())           # noqa: E731
UnitT = lambda: RecT("Unit", segment=SegT(), annotation=OptT(StrT()))  # noqa: E731
RowT = lambda: NdArray("f32", 1)                                      # noqa: E731  encoded unit (start, end, dur, category index)
