"""Contracts for pygamma_agreement/continuum.py (tier B: heap objects, abstract views, frames)."""
from pyvc.contract import (contract, cl, GhostFun, Macro, Lemma, NdArray, ListOf, IntT, RealT, BoolT, TupleOf, FnT, OptT)
from pyvc.heap import ObjT, UnitT
from .types import StrT, SegT
from .speclib import VIEW_MACROS

F = "pygamma_agreement/continuum.py::"
CONT = lambda: ObjT("Continuum")        # noqa: E731

# ------------------------------------------------------------------------------------------ Unit.__lt__  (C13)
# ensures: the code computes the documented strict total order; the lemmas are what the SortedSet model needs.
contract(F + "Unit.__lt__",
         params={"self": UnitT(), "other": UnitT()}, returns=BoolT(),
         ensures=[cl("result == unit_lt(self, other)", "C13 C10 C14 C16 C17 C19", name="documented-order")],
         lemmas=[Lemma("unit_order_irreflexive", "not unit_lt(u, u)", binders=[("u", "Unit")]),
                 Lemma("unit_order_transitive", "implies(unit_lt(u, v) and unit_lt(v, w), unit_lt(u, w))",
                       binders=[("u", "Unit"), ("v", "Unit"), ("w", "Unit")]),
                 Lemma("unit_order_total", "unit_lt(u, v) or unit_lt(v, u) or u == v",
                       binders=[("u", "Unit"), ("v", "Unit")],
                       hyps=["implies(not u.haslab, u.lab == 0)", "implies(not v.haslab, v.lab == 0)"])],
         serves={"C13", "C10", "C14", "C16", "C17", "C19"})

# ------------------------------------------------------------------------------------------ Continuum basics (C13, C14)
contract(F + "Continuum.__init__",
         params={"self": CONT(), "uri": OptT(StrT())}, modifies=["self"], macros=VIEW_MACROS,
         ensures=[cl("forall([(a, Real)], not Ann(self)[a])", name="no-annotators"),
                  cl("forall([(l, Real)], not Cat(self)[l])", name="no-categories"),
                  cl("self.bound_inf == 0 and self.bound_sup == 0 and self.best_window_size.isinf", name="defaults"),
                  cl("RI(self)", name="RI")],
         serves={"C13", "C14"})

contract(F + "Continuum.add_annotator",
         params={"self": CONT(), "annotator": StrT()}, modifies=["self._annotations"], macros=VIEW_MACROS,
         requires=["RI(self)"],
         ensures=[cl("Ann(self) == store(old(Ann(self)), annotator, True)", name="Ann"),
                  cl("forall([(b, Real)], implies(b != annotator or old(Ann(self))[annotator], Us(self)[b] == old(Us(self))[b]))",
                     name="frame-units"),
                  cl("implies(not old(Ann(self))[annotator], no_units(Us(self)[annotator]))", name="new-is-empty"),
                  cl("RI(self)", name="RI")],
         serves={"C13", "C14", "C16", "C15", "C10"})

contract(F + "Continuum.add",
         params={"self": CONT(), "annotator": StrT(), "segment": SegT(), "annotation": OptT(StrT())},
         modifies=["self"], macros=VIEW_MACROS,
         requires=["RI(self)"],
         raises={"ValueError": {"iff": "segment.end - segment.start <= 1e-6",
                                "post": [cl("same_view(self)", "C13", name="rejected-add-changes-nothing")]}},
         ensures=[cl("segment.end - segment.start > 1e-6", name="only-positive-length"),
                  cl("Ann(self) == store(old(Ann(self)), annotator, True)", name="Ann"),
                  cl("Us(self)[annotator] == store(old(Us(self))[annotator], mkunit(segment.start, segment.end, annotation), True)",
                     name="U[a]"),
                  cl("forall([(b, Real)], implies(b != annotator, Us(self)[b] == old(Us(self))[b]))", name="frame-units"),
                  cl("Cat(self) == ite(isnone(annotation), old(Cat(self)), store(old(Cat(self)), some(annotation), True))", name="Cat"),
                  cl("self.bound_inf == min(old(self.bound_inf), segment.start) and "
                     "self.bound_sup == max(old(self.bound_sup), segment.end)", name="bounds"),
                  cl("self.best_window_size == old(self.best_window_size)", name="bws"),
                  cl("RI(self)", name="RI")],
         serves={"C13", "C14", "C10", "C15", "C16", "C18", "C19"})

contract(F + "Continuum.remove",
         params={"self": CONT(), "annotator": StrT(), "unit": UnitT()},
         modifies=["self._annotations"], macros=VIEW_MACROS,
         requires=["RI(self)"],
         raises={"KeyError": {"iff": "not Ann(self)[annotator] or not Us(self)[annotator][unit]",
                              "post": [cl("same_view(self)", "C13")]}},
         ensures=[cl("old(Ann(self))[annotator] and old(Us(self))[annotator][unit]", name="was-present"),
                  cl("Ann(self) == old(Ann(self))", name="Ann"),
                  cl("Us(self)[annotator] == store(old(Us(self))[annotator], unit, False)", name="U[a]"),
                  cl("forall([(b, Real)], implies(b != annotator, Us(self)[b] == old(Us(self))[b]))", name="frame-units"),
                  cl("RI(self)", name="RI")],
         serves={"C13", "C14", "C10", "C19"})

contract(F + "Continuum.copy_flush",
         params={"self": CONT()}, returns=CONT(), modifies=[], macros=VIEW_MACROS,
         ensures=[cl("fresh_obj(result) and disjoint_state(result, self)", "C13 C14", name="independent"),
                  cl("forall([(a, Real)], not Ann(result)[a])", name="no-annotators"),
                  cl("result.bound_inf == self.bound_inf and result.bound_sup == self.bound_sup and "
                     "result.best_window_size == self.best_window_size", name="bounds-and-window"),
                  cl("forall([(l, Real)], not Cat(result)[l])", name="no-categories"),
                  cl("implies(self.bound_inf <= self.bound_sup, RI(result))", name="RI")],
         serves={"C13", "C14", "C10", "C15", "C16"})

contract(F + "Continuum.copy",
         params={"self": CONT()}, returns=CONT(), modifies=[], macros=VIEW_MACROS,
         requires=["RI(self)"],
         ensures=[cl("fresh_obj(result) and disjoint_state(result, self)", "C13 C14", name="independent"),
                  cl("Ann(result) == Ann(self) and Us(result) == Us(self)", "C13 C14", name="units"),
                  cl("Cat(result) == Cat(self)", "C13 C14", name="categories"),
                  cl("result.bound_inf == self.bound_inf and result.bound_sup == self.bound_sup and "
                     "result.best_window_size == self.best_window_size", name="bounds-and-window"),
                  cl("RI(result)", name="RI")],
         serves={"C13", "C14", "C10"})

# ------------------------------------------------------------------------------------------ observers (C13)
contract(F + "Continuum.num_units", params={"self": CONT()}, returns=IntT(), is_property=True, macros=VIEW_MACROS,
         ensures=[cl("result == NumUnits(self)", name="sum-of-counts")], serves={"C13", "C01", "C03", "C05"})

contract(F + "Continuum.num_annotators", params={"self": CONT()}, returns=IntT(), is_property=True,
         ensures=[cl("result == Nkeys(self) and result >= 0", name="count")], serves={"C13", "C01"})

contract(F + "Continuum.__len__", params={"self": CONT()}, returns=IntT(),
         ensures=[cl("result == Nkeys(self) and result >= 0", name="count")], serves={"C13"})

contract(F + "Continuum.__bool__", params={"self": CONT()}, returns=BoolT(),
         ensures=[cl("result == exists(k, 0, Nkeys(self), Cnt(self)[Kseq(self)[k]] != 0)", name="some-unit")],
         serves={"C13", "C01", "C10", "C15", "C16"})

contract(F + "Continuum.annotators", params={"self": CONT()}, returns=ObjT("SetStr"), is_property=True,
         ensures=[cl("fresh_obj(result)", name="fresh"),
                  cl("members(result) == Ann(self) and size(result) == Nkeys(self) and seqof(result) == Kseq(self)",
                     name="the-annotators-ascending")],
         serves={"C13", "C01", "C14"})

contract(F + "Continuum.categories", params={"self": CONT()}, is_property=True, returns_expr="self._categories",
         ensures=[cl("same_obj(result, self._categories)", name="the-live-set")], serves={"C13", "C14", "C01"})

contract(F + "Continuum.bounds", params={"self": CONT()}, returns=TupleOf(RealT(), RealT()), is_property=True,
         ensures=[cl("result[0] == self.bound_inf and result[1] == self.bound_sup", name="bounds")], serves={"C13", "C16"})

contract(F + "Continuum.avg_num_annotations_per_annotator", params={"self": CONT()}, returns=RealT(), is_property=True,
         macros=VIEW_MACROS,
         raises={"ZeroDivisionError": {"iff": "Nkeys(self) == 0"}},
         ensures=[cl("result == NumUnits(self) / Nkeys(self)", name="mean")], serves={"C13", "C01", "C02", "C03", "C05"})
