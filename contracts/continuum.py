"""Contracts for pygamma_agreement/continuum.py (tier B: heap objects, abstract views, frames)."""
from pyvc.contract import (contract, cl, GhostFun, Macro, Lemma, NdArray, ListOf, IntT, RealT, BoolT, TupleOf, FnT, OptT, RecT)
from pyvc.heap import ObjT, UnitT, OptObjT
from .types import StrT, SegT
from .speclib import VIEW_MACROS, PSUM_LEMMAS

F = "pygamma_agreement/continuum.py::"
CONT = lambda: ObjT("Continuum")        # noqa: E731

# ------------------------------------------------------------------------------------------ Unit.__lt__  (C13)
# ensures: the code computes the documented strict total order; the lemmas are what the SortedSet model needs.
contract(F + "Unit.__lt__",
         params={"self": UnitT(), "other": UnitT()}, returns=BoolT(),
         ensures=[cl("result == unit_lt(self, other)", "C13 C10 C14 C16 C17 C19", name="documented-order")],
         lemmas=[Lemma("unit_order_irreflexive", "not unit_lt(u, u)", binders=[("u", "Unit")]),
                 Lemma("unit_order_transitive", "implies(unit_lt(u, v) and unit_lt(v, w), unit_lt(u, w))",
                       binders=[("u", "Unit"), ("v", "Unit"), ("w", "Unit")]),
                 Lemma("unit_order_total", "unit_lt(u, v) or unit_lt(v, u) or u == v",
                       binders=[("u", "Unit"), ("v", "Unit")],
                       hyps=["implies(not u.haslab, u.lab == 0)", "implies(not v.haslab, v.lab == 0)"])],
         serves={"C13", "C10", "C14", "C16", "C17", "C19"})

# ------------------------------------------------------------------------------------------ Continuum basics (C13, C14)
contract(F + "Continuum.__init__",
         params={"self": CONT(), "uri": OptT(StrT())}, modifies=["self"], macros=VIEW_MACROS,
         ensures=[cl("forall([(a, Real)], not Ann(self)[a])", name="no-annotators"),
                  cl("forall([(l, Real)], not Cat(self)[l])", name="no-categories"),
                  cl("self.bound_inf == 0 and self.bound_sup == 0 and self.best_window_size.isinf", name="defaults"),
                  cl("RI(self)", name="RI")],
         serves={"C13", "C14"})

contract(F + "Continuum.add_annotator",
         params={"self": CONT(), "annotator": StrT()}, modifies=["self._annotations"], macros=VIEW_MACROS,
         requires=["RI(self)"],
         ensures=[cl("Ann(self) == store(old(Ann(self)), annotator, True)", name="Ann"),
                  cl("forall([(b, Real)], implies(b != annotator or old(Ann(self))[annotator], Us(self)[b] == old(Us(self))[b]))",
                     name="frame-units"),
                  cl("implies(not old(Ann(self))[annotator], no_units(Us(self)[annotator]))", name="new-is-empty"),
                  cl("RI(self)", name="RI")],
         serves={"C13", "C14", "C16", "C15", "C10"})

contract(F + "Continuum.add",
         params={"self": CONT(), "annotator": StrT(), "segment": SegT(), "annotation": OptT(StrT())},
         modifies=["self"], macros=VIEW_MACROS,
         requires=["RI(self)"],
         raises={"ValueError": {"iff": "segment.end - segment.start <= 1e-6",
                                "post": [cl("same_view(self)", "C13", name="rejected-add-changes-nothing")]}},
         ensures=[cl("segment.end - segment.start > 1e-6", name="only-positive-length"),
                  cl("Ann(self) == store(old(Ann(self)), annotator, True)", name="Ann"),
                  cl("Us(self)[annotator] == store(old(Us(self))[annotator], mkunit(segment.start, segment.end, annotation), True)",
                     name="U[a]"),
                  cl("forall([(b, Real)], implies(b != annotator, Us(self)[b] == old(Us(self))[b]))", name="frame-units"),
                  cl("Cat(self) == ite(isnone(annotation), old(Cat(self)), store(old(Cat(self)), some(annotation), True))", name="Cat"),
                  cl("self.bound_inf == min(old(self.bound_inf), segment.start) and "
                     "self.bound_sup == max(old(self.bound_sup), segment.end)", name="bounds"),
                  cl("self.best_window_size == old(self.best_window_size)", name="bws"),
                  cl("RI(self)", name="RI")],
         serves={"C13", "C14", "C10", "C15", "C16", "C18", "C19"})

contract(F + "Continuum.remove",
         params={"self": CONT(), "annotator": StrT(), "unit": UnitT()},
         modifies=["self._annotations"], macros=VIEW_MACROS,
         requires=["RI(self)"],
         raises={"KeyError": {"iff": "not Ann(self)[annotator] or not Us(self)[annotator][unit]",
                              "post": [cl("same_view(self)", "C13")]}},
         ensures=[cl("old(Ann(self))[annotator] and old(Us(self))[annotator][unit]", name="was-present"),
                  cl("Ann(self) == old(Ann(self))", name="Ann"),
                  cl("Us(self)[annotator] == store(old(Us(self))[annotator], unit, False)", name="U[a]"),
                  cl("forall([(b, Real)], implies(b != annotator, Us(self)[b] == old(Us(self))[b]))", name="frame-units"),
                  cl("RI(self)", name="RI"),
                  cl("Kseq(self) == old(Kseq(self)) and Nkeys(self) == old(Nkeys(self)) and Kidx(self) == old(Kidx(self))", "C10", name="annotator-order"),
                  cl("Cnt(self)[annotator] == old(Cnt(self))[annotator] - 1 and "
                     "forall([(b, Real)], implies(b != annotator, Cnt(self)[b] == old(Cnt(self))[b]))", "C10", name="counts"),
                  cl("NumUnits(self) == old(NumUnits(self)) - 1", "C10", name="one-unit-fewer")],
         lemmas=PSUM_LEMMAS,
         hooks=[("after", "annotations.remove(unit)", "model_inv wfmap(self)"),
                ("after", "annotations.remove(unit)", "assert 0 <= Kidx(self)[annotator] and Kidx(self)[annotator] < Nkeys(self) and "
                                                     "Kseq(self)[Kidx(self)[annotator]] == annotator"),
                ("after", "annotations.remove(unit)",
                 "assert forall(i, 0, Nkeys(self), implies(i != Kidx(self)[annotator], Kseq(self)[i] != annotator))"),
                # the two sums differ at exactly one index
                ("after", "annotations.remove(unit)",
                 "use psum_dec(f=lam(k, old(Cnt(self))[Kseq(self)[k]]), g=lam(k, Cnt(self)[Kseq(self)[k]]), i0=Kidx(self)[annotator], k=Nkeys(self))")],
         serves={"C13", "C14", "C10", "C19"})

contract(F + "Continuum.copy_flush",
         params={"self": CONT()}, returns=CONT(), modifies=[], macros=VIEW_MACROS,
         ensures=[cl("fresh_obj(result) and disjoint_state(result, self)", "C13 C14", name="independent"),
                  cl("forall([(a, Real)], not Ann(result)[a])", name="no-annotators"),
                  cl("result.bound_inf == self.bound_inf and result.bound_sup == self.bound_sup and "
                     "result.best_window_size == self.best_window_size", name="bounds-and-window"),
                  cl("forall([(l, Real)], not Cat(result)[l])", name="no-categories"),
                  cl("implies(self.bound_inf <= self.bound_sup, RI(result))", name="RI")],
         serves={"C13", "C14", "C10", "C15", "C16"})

contract(F + "Continuum.copy",
         params={"self": CONT()}, returns=CONT(), modifies=[], macros=VIEW_MACROS,
         requires=["RI(self)"],
         ensures=[cl("fresh_obj(result) and disjoint_state(result, self)", "C13 C14", name="independent"),
                  cl("Ann(result) == Ann(self) and Us(result) == Us(self)", "C13 C14", name="units"),
                  cl("Cat(result) == Cat(self)", "C13 C14", name="categories"),
                  cl("result.bound_inf == self.bound_inf and result.bound_sup == self.bound_sup and "
                     "result.best_window_size == self.best_window_size", name="bounds-and-window"),
                  cl("RI(result)", name="RI"),
                  cl("Kseq(result) == Kseq(self) and Nkeys(result) == Nkeys(self) and Kidx(result) == Kidx(self) and Cnt(result) == Cnt(self) "
                     "and Useq(result) == Useq(self) and Uidx(result) == Uidx(self)", "C10", name="same-enumeration")],
         serves={"C13", "C14", "C10"})

# ------------------------------------------------------------------------------------------ observers (C13)
contract(F + "Continuum.num_units", params={"self": CONT()}, returns=IntT(), is_property=True, macros=VIEW_MACROS,
         ensures=[cl("result == NumUnits(self)", name="sum-of-counts")], serves={"C13", "C01", "C03", "C05"})

contract(F + "Continuum.num_annotators", params={"self": CONT()}, returns=IntT(), is_property=True,
         ensures=[cl("result == Nkeys(self) and result >= 0", name="count")], serves={"C13", "C01"})

contract(F + "Continuum.__len__", params={"self": CONT()}, returns=IntT(),
         ensures=[cl("result == Nkeys(self) and result >= 0", name="count")], serves={"C13"})

contract(F + "Continuum.__bool__", params={"self": CONT()}, returns=BoolT(),
         ensures=[cl("result == exists(k, 0, Nkeys(self), Cnt(self)[Kseq(self)[k]] != 0)", name="some-unit")],
         serves={"C13", "C01", "C10", "C15", "C16"})

contract(F + "Continuum.annotators", params={"self": CONT()}, returns=ObjT("SetStr"), is_property=True,
         ensures=[cl("fresh_obj(result)", name="fresh"),
                  cl("members(result) == Ann(self) and size(result) == Nkeys(self) and seqof(result) == Kseq(self)",
                     name="the-annotators-ascending")],
         serves={"C13", "C01", "C14"})

contract(F + "Continuum.categories", params={"self": CONT()}, is_property=True, returns_expr="self._categories",
         ensures=[cl("same_obj(result, self._categories)", name="the-live-set")], serves={"C13", "C14", "C01"})

contract(F + "Continuum.bounds", params={"self": CONT()}, returns=TupleOf(RealT(), RealT()), is_property=True,
         ensures=[cl("result[0] == self.bound_inf and result[1] == self.bound_sup", name="bounds")], serves={"C13", "C16"})

contract(F + "Continuum.avg_num_annotations_per_annotator", params={"self": CONT()}, returns=RealT(), is_property=True,
         macros=VIEW_MACROS,
         raises={"ZeroDivisionError": {"iff": "Nkeys(self) == 0"}},
         ensures=[cl("result == NumUnits(self) / Nkeys(self)", name="mean")], serves={"C13", "C01", "C02", "C03", "C05"})

contract(F + "Continuum.reset_bounds",
         params={"self": CONT()}, modifies=["self.bound_inf", "self.bound_sup"], macros=VIEW_MACROS + [
             Macro("anyu", [], "exists([(a, Real), (u, Unit)], Us(self)[a][u])")],
         requires=["RI(self)"],
         ensures=[cl("implies(not anyu(), self.bound_inf == 0 and self.bound_sup == 0)", "C13", name="no-unit"),
                  cl("implies(anyu(), exists([(a, Real), (u, Unit)], Us(self)[a][u] and self.bound_inf == u.s) and "
                     "forall([(a, Real), (u, Unit)], implies(Us(self)[a][u], self.bound_inf <= u.s)))", "C13", name="lo-is-min-start"),
                  cl("forall([(a, Real), (u, Unit)], implies(Us(self)[a][u], u.e <= self.bound_sup))", "C13", name="hi-bounds-every-end"),
                  cl("implies(anyu(), exists([(a, Real), (u, Unit)], Us(self)[a][u] and self.bound_sup == u.e))", "C13",
                     name="hi-is-attained"),
                  cl("RI(self)", name="RI")],
         serves={"C13"})

# ------------------------------------------------------------------------------------------ iteration (C13, C18, C17 ...)
# the i-th yielded pair has flat index i = (number of units of the annotators before its annotator) + (its rank among the
# units of its annotator): annotators ascending, units ascending, each exactly once
ITER_MACROS = VIEW_MACROS + [
    Macro("offs", ["c", "k"], "psum(lam(i, Cnt(c)[Kseq(c)[i]]), k)"),
    Macro("flat", ["c", "a", "u"], "psum(lam(i, Cnt(c)[Kseq(c)[i]]), Kidx(c)[a]) + Uidx(c)[a][u]"),
]
ITER_LEMMAS = [
    Lemma("offs_monotone", "offs(self, k1) <= offs(self, k2)", binders=[("k1", "Int"), ("k2", "Int")],
          hyps=["0 <= k1", "k1 <= k2", "k2 <= Nkeys(self)", "wfmap(self)"], method=("induction", "k2", "k1")),
    Lemma("flat_lt_total", "0 <= flat(self, a, u) and flat(self, a, u) < NumUnits(self)",
          binders=[("a", "Real"), ("u", "Unit")], hyps=["wfmap(self)", "Us(self)[a][u]"],
          hints=["offs(self, Kidx(self)[a] + 1) == offs(self, Kidx(self)[a]) + Cnt(self)[a]",
                 "offs(self, Kidx(self)[a] + 1) <= offs(self, Nkeys(self))"]),
    Lemma("flat_injective", "a == a2 and u == u2",
          binders=[("a", "Real"), ("u", "Unit"), ("a2", "Real"), ("u2", "Unit")],
          hyps=["wfmap(self)", "Us(self)[a][u]", "Us(self)[a2][u2]", "flat(self, a, u) == flat(self, a2, u2)"],
          hints=["offs(self, Kidx(self)[a] + 1) == offs(self, Kidx(self)[a]) + Cnt(self)[a]",
                 "offs(self, Kidx(self)[a2] + 1) == offs(self, Kidx(self)[a2]) + Cnt(self)[a2]",
                 "implies(Kidx(self)[a] < Kidx(self)[a2], offs(self, Kidx(self)[a] + 1) <= offs(self, Kidx(self)[a2]))",
                 "implies(Kidx(self)[a2] < Kidx(self)[a], offs(self, Kidx(self)[a2] + 1) <= offs(self, Kidx(self)[a]))",
                 "Kidx(self)[a] == Kidx(self)[a2]"]),
]

contract(F + "Continuum.__iter__",
         params={"self": CONT()}, returns=TupleOf(StrT(), UnitT()), macros=ITER_MACROS, lemmas=ITER_LEMMAS,
         yields=[cl("Ann(self)[yielded[0]] and Us(self)[yielded[0]][yielded[1]]", "C13 C17 C18", name="a-unit-of-the-continuum"),
                 cl("nyield == flat(self, yielded[0], yielded[1])", "C13 C17 C18", name="in-order-each-once")],
         count="NumUnits(self)",
         loops={"L0": dict(match="for annotator, annotations in self._annotations.items()",
                           inv=["nyield == offs(self, kA)"], index="kA"),
                "L0.0": dict(match="for unit in annotations", index="jU",
                             inv=["nyield == offs(self, kA) + jU", "Kidx(self)[annotator] == kA", "Ann(self)[annotator]"])},
         hooks=[("before", "for annotator, annotations in self._annotations.items(): ...", "model_inv wfmap(self)")],
         serves={"C13", "C17", "C18", "C14", "C15", "C19"})

contract(F + "Continuum.iter_annotator",
         params={"self": CONT(), "annotator": StrT()}, returns=UnitT(), macros=ITER_MACROS,
         raises={"KeyError": {"iff": "not Ann(self)[annotator]"}},
         yields=[cl("Us(self)[annotator][yielded]", "C13 C16 C19", name="a-unit-of-the-annotator"),
                 cl("nyield == Uidx(self)[annotator][yielded] and yielded == Useq(self)[annotator][nyield]", "C13 C16 C19",
                    name="ascending-each-once")],
         count="Cnt(self)[annotator]",
         loops={"L0": dict(match="for unit in self._annotations[annotator]", index="jU", inv=["nyield == jU"])},
         serves={"C13", "C16", "C19"})

# ------------------------------------------------------------------------------------------ merge / __add__  (C13, C14)
MERGE_MACROS = ITER_MACROS + [
    Macro("T", [], "current_cont"),
    Macro("added", ["a", "u", "i"], "Us(continuum)[a][u] and flat(continuum, a, u) < i"),
    Macro("merged_upto", ["X", "i"],
          "forall([(a, Real)], Ann(X)[a] == (old(Ann(self))[a] or Ann(continuum)[a])) and "
          "forall([(a, Real), (u, Unit)], Us(X)[a][u] == (old(Us(self))[a][u] or added(a, u, i))) and "
          "forall([(l, Real)], Cat(X)[l] == (old(Cat(self))[l] or exists([(a, Real), (u, Unit)], added(a, u, i) and u.haslab and u.lab == l))) and "
          "X.bound_inf <= old(self.bound_inf) and forall([(a, Real), (u, Unit)], implies(added(a, u, i), X.bound_inf <= u.s)) and "
          "(X.bound_inf == old(self.bound_inf) or exists([(a, Real), (u, Unit)], added(a, u, i) and X.bound_inf == u.s)) and "
          "X.bound_sup >= old(self.bound_sup) and forall([(a, Real), (u, Unit)], implies(added(a, u, i), X.bound_sup >= u.e)) and "
          "(X.bound_sup == old(self.bound_sup) or exists([(a, Real), (u, Unit)], added(a, u, i) and X.bound_sup == u.e)) and "
          "X.best_window_size == old(self.best_window_size) and RI(X)"),
]

contract(F + "Continuum.merge",
         params={"self": CONT(), "continuum": CONT(), "in_place": BoolT()}, returns=OptObjT(CONT()),
         modifies=["self"], macros=MERGE_MACROS,
         requires=["RI(self)", "RI(continuum)", "not same_obj(self, continuum)"],
         ensures=[cl("implies(in_place, isnone(result) and merged_upto(self, NumUnits(continuum)))", "C13", name="in-place-merges-into-self"),
                  cl("implies(not in_place, not isnone(result) and fresh_obj(some(result)) and disjoint_state(some(result), self) and "
                     "disjoint_state(some(result), continuum) and merged_upto(some(result), NumUnits(continuum)))", "C13 C14",
                     name="out-of-place-returns-the-same-merge"),
                  cl("implies(not in_place, same_view(self))", "C13 C14", name="out-of-place-leaves-self")],
         loops={"L0": dict(match="for annotator in continuum.annotators", modifies=["current_cont"], index="kA",
                           inv=["forall([(a, Real)], Ann(T())[a] == (old(Ann(self))[a] or "
                                "(Ann(continuum)[a] and Kidx(continuum)[a] < kA)))",
                                "forall([(a, Real), (u, Unit)], Us(T())[a][u] == old(Us(self))[a][u])",
                                "Cat(T()) == old(Cat(self)) and T().bound_inf == old(self.bound_inf) and "
                                "T().bound_sup == old(self.bound_sup) and T().best_window_size == old(self.best_window_size)",
                                "RI(T())", "implies(not in_place, same_view(self))"]),
                "L1": dict(match="for annotator, unit in continuum", modifies=["current_cont"], index="iU",
                           inv=["merged_upto(T(), iU)", "implies(not in_place, same_view(self))"])},
         hooks=[("before", "for annotator in continuum.annotators: ...", "model_inv wfmap(continuum)")],
         serves={"C13", "C14"})
contract(F + "Continuum.__add__",
         params={"self": CONT(), "other": CONT()}, returns=OptObjT(CONT()), modifies=[], macros=MERGE_MACROS,
         lets={"continuum": "other"},
         requires=["RI(self)", "RI(other)", "not same_obj(self, other)"],
         ensures=[cl("not isnone(result) and fresh_obj(some(result)) and disjoint_state(some(result), self) and "
                     "disjoint_state(some(result), other)", "C13 C14", name="independent"),
                  cl("merged_upto(some(result), NumUnits(other))", "C13", name="same-as-out-of-place-merge"),
                  cl("same_view(self)", "C13 C14", name="self-unchanged")],
         serves={"C13", "C14"})

# =========================================================================================================
# Continuum.get_best_alignment / get_best_soft_alignment        (C01, C02, C03-D4, C08, C11, C14)
#
# ghost outputs:  CD, CA = the candidate disorders / tuples returned by valid_alignments;  AM = build_A(CA, sizes);
#                 XV = the 0/1 solution vector the MIP solver returned (trusted solver model, DESIGN.md 1.8)
#   feasible(y)  <=>  y is 0/1 and every unit row r satisfies dot(AM[r], y, K) == 1   (soft: >= 1)
# Both solver exits (CBC; GLPK after ImportError / SolverError) are separate paths through the same postconditions: C08.
# =========================================================================================================
from .dissimilarity import DISSIM      # noqa: E402
from .alignment import ALIGN, UAT, SlotT   # noqa: E402
from pyvc.contract import global_ghost   # noqa: E402

global_ghost("lasthit", "AReal AReal Int -> Int",
             ["forall([(c, AReal), (y, AReal)], lasthit(c, y, 0) == 0 - 1)",
              "forall([(c, AReal), (y, AReal), k], implies(k >= 0, lasthit(c, y, k + 1) == "
              "ite(c[k] == 1 and y[k] == 1, k, lasthit(c, y, k))), pat=[lasthit(c, y, k + 1)])"])

# bin01(c, k): the first k entries of c are 0 or 1 (explicit Skolem form, so that using the lemmas below needs no nested quantifier)
global_ghost("bin01", "AReal Int -> Bool",
             ["forall([(c, AReal), k, i], implies(bin01(c, k) and 0 <= i and i < k, c[i] == 0 or c[i] == 1), pat=[(bin01(c, k), c[i])])",
              "forall([(c, AReal), k], bin01(c, k) or (0 <= wit01(c, k) and wit01(c, k) < k and "
              "not (c[wit01(c, k)] == 0 or c[wit01(c, k)] == 1)), pat=[bin01(c, k)])"])
global_ghost("wit01", "AReal Int -> Int", [])

DOT_LEMMAS = [
    Lemma("bin01_prefix", "bin01(c, k)", binders=[("c", "AReal"), ("k", "Int"), ("k2", "Int")],
          hyps=["0 <= k", "k <= k2", "bin01(c, k2)"], pats=[("bin01(c, k)", "bin01(c, k2)")]),
    Lemma("dot_nonneg", "dot(c, y, k) >= 0", binders=[("c", "AReal"), ("y", "AReal"), ("k", "Int")],
          hyps=["0 <= k", "bin01(c, k)", "bin01(y, k)"], method=("induction", "k", "0"), pats=["dot(c, y, k)"],
          ),
    Lemma("dot_hit", "dot(c, y, k) >= 1", binders=[("c", "AReal"), ("y", "AReal"), ("i0", "Int"), ("k", "Int")],
          hyps=["0 <= i0", "i0 < k", "bin01(c, k)", "bin01(y, k)", "c[i0] == 1 and y[i0] == 1"],
          method=("induction", "k", "i0 + 1"), pats=[("dot(c, y, k)", "c[i0]", "y[i0]")]),
    Lemma("dot_two_hits", "dot(c, y, k) >= 2",
          binders=[("c", "AReal"), ("y", "AReal"), ("i0", "Int"), ("i1", "Int"), ("k", "Int")],
          hyps=["0 <= i0", "i0 < i1", "i1 < k", "bin01(c, k)", "bin01(y, k)",
                "c[i0] == 1 and y[i0] == 1", "c[i1] == 1 and y[i1] == 1"], method=("induction", "k", "i1 + 1"),
          pats=[("dot(c, y, k)", "c[i0]", "y[i0]", "c[i1]", "y[i1]")]),
    Lemma("dot_some_hit", "0 <= lasthit(c, y, k) and lasthit(c, y, k) < k and c[lasthit(c, y, k)] == 1 and y[lasthit(c, y, k)] == 1",
          binders=[("c", "AReal"), ("y", "AReal"), ("k", "Int")],
          hyps=["0 <= k", "bin01(c, k)", "bin01(y, k)", "dot(c, y, k) >= 1"],
          method=("induction", "k", "0"), pats=["lasthit(c, y, k)"]),
]


def best_alignment_contract(name, soft):
    rel = ">=" if soft else "=="
    macros = VIEW_MACROS + [
        Macro("nA", [], "Nkeys(self)"),
        Macro("cntAt", ["a"], "Cnt(self)[Kseq(self)[a]]"),
        Macro("unitAt", ["a", "j"], "Useq(self)[Kseq(self)[a]][j]"),
        Macro("off", ["a"], "psum(lam(k, Cnt(self)[Kseq(self)[k]]), a)"),
        Macro("feasible", ["y"], "forall(k, 0, KK, y[k] == 0 or y[k] == 1) and "
                                  f"forall(r, 0, NumUnits(self), dot(AM[r], y, KK) {rel} 1)"),
        Macro("L", [], "result.unitary_alignments"),
        Macro("slot", ["t", "a"], "result.unitary_alignments[t]._n_tuple[a][1]"),
        Macro("xbar", [], "toreal(NumUnits(self)) / Nkeys(self)"),
        Macro("hitk", ["a", "j"], "lasthit(A[psum(sizes, a) + j], XV, KK)"),
        # decoding of candidate tuple `row` into the slots of unitary alignment `ua`
        Macro("decoded", ["ua", "row", "upto"],
              "forall(a, 0, upto, ua[a][0] == Kseq(self)[a] and "
              "implies(row[a] < cntAt(a), not isnone(ua[a][1]) and some(ua[a][1]) == unitAt(a, row[a]) and "
              "                           Us(self)[Kseq(self)[a]][unitAt(a, row[a])]) and "
              "implies(row[a] >= cntAt(a), isnone(ua[a][1])))"),
    ]
    ensures = [
        cl("fresh_obj(result)", name="fresh"),
        cl("forall(t, 0, len(L()), len(L()[t]._n_tuple) == nA() and forall(a, 0, nA(), L()[t]._n_tuple[a][0] == Kseq(self)[a] and "
           "(isnone(slot(t, a)) or Us(self)[Kseq(self)[a]][some(slot(t, a))])))", "C01 C11 C10", name="P1-well-formed-own-units"),
        cl("forall(t, 0, len(L()), exists(a, 0, nA(), not isnone(slot(t, a))))", "C01 C11", name="P2-some-real-unit"),
        cl("forall(a, 0, nA(), forall(j, 0, cntAt(a), exists(t, 0, len(L()), not isnone(slot(t, a)) and "
           "some(slot(t, a)) == unitAt(a, j))))", "C01 C11 C08 C10", name="P3-every-unit-at-least-once"),
    ]
    ensures.append(cl("forall(t, 0, len(L()), not isnone(L()[t]._disorder))", "C10 C03", name="P4-every-unitary-alignment-carries-its-disorder"))
    if not soft:
        ensures.append(cl("forall(t1, 0, len(L()), forall(t2, t1 + 1, len(L()), forall(a, 0, nA(), isnone(slot(t1, a)) or "
                          "isnone(slot(t2, a)) or some(slot(t1, a)) != some(slot(t2, a)))))", "C01 C08 C10",
                          name="P3-every-unit-at-most-once"))
    ensures += [
        cl("not isnone(result._disorder) and some(result._disorder) * xbar() == "
           "rpsum(lam(t, some(result.unitary_alignments[t]._disorder)), len(L()))", "C02 C03 C11", name="disorder-is-sum-over-xbar"),
        cl("len(L()) == NSEL and forall(t, 0, NSEL, 0 <= SEL[t] and SEL[t] < KK and XV[SEL[t]] == 1 and "
           "some(L()[t]._disorder) == CD[SEL[t]])", "C02 C03 C11", name="chosen-are-the-support"),
        cl("forall(k, 0, KK, implies(XV[k] == 1, exists(t, 0, NSEL, SEL[t] == k)))", "C02 C11", name="support-is-chosen"),
        cl("feasible(XV)", "C02 C08 C11", name="solution-feasible"),
        cl("forall([(y, AReal)], implies(feasible(y), dot(CD, XV, KK) <= dot(CD, y, KK)))", "C02 C08 C11", name="optimal"),
    ]
    ret = "return SoftAlignment(..." if soft else "return Alignment(..."
    once_hints = [] if soft else [
        ("before", ret, "model_inv wfmap(self)"),
        ("before", ret, "assert forall(t1, 0, NSEL, forall(t2, t1 + 1, NSEL, forall(a, 0, nA(), "
                        "implies(chosen_alignments[t1][a] < cntAt(a) and chosen_alignments[t1][a] == chosen_alignments[t2][a], "
                        "SEL[t1] < SEL[t2] and XV[SEL[t1]] == 1 and XV[SEL[t2]] == 1 and "
                        "A[psum(sizes, a) + chosen_alignments[t1][a]][SEL[t1]] == 1 and "
                        "A[psum(sizes, a) + chosen_alignments[t1][a]][SEL[t2]] == 1 and "
                        "dot(A[psum(sizes, a) + chosen_alignments[t1][a]], XV, KK) == 1))))"),
        ("before", ret, "assert forall(t1, 0, NSEL, forall(t2, t1 + 1, NSEL, forall(a, 0, nA(), "
                        "implies(chosen_alignments[t1][a] < cntAt(a), chosen_alignments[t1][a] != chosen_alignments[t2][a]))))"),
    ]
    return contract(F + f"Continuum.{name}",
                    params={"self": CONT(), "dissimilarity": DISSIM()},
                    returns=ALIGN("SoftAlignment" if soft else "Alignment"),
                    modifies=[], macros=macros, lemmas=DOT_LEMMAS + PSUM_LEMMAS,
                    binds={"result.continuum": "self"},
                    locals={"set_unitary_alignements": UAT(), "u_align_tuple": SlotT()},
                    ghost_vars={"CD": ("AReal", None), "CA": ("A2Int", None), "AM": ("A2Real", None), "XV": ("AReal", None),
                                "KK": ("Int", None), "SEL": ("AInt", None), "NSEL": ("Int", None)},
                    requires=["RI(self)", "dissimilarity.delta_empty >= 0", "forall(a, 0, nA(), cntAt(a) <= 32766)"],
                    raises={"AssertionError": {}, "SolverError": {}},
                    calls={"build_A": "pygamma_agreement/numba_utils.py::build_A"},
                    ensures=ensures,
                    hooks=[("after", "disorders, possible_unitary_alignments = ...", "CD = raw(disorders)"),
                           ("after", "disorders, possible_unitary_alignments = ...", "CA = raw(possible_unitary_alignments)"),
                           ("after", "n = len(disorders)", "KK = n"),
                           ("after", "A = build_A(possible_unitary_alignments, sizes)", "AM = raw(A)"),
                           ("after", "A = build_A(possible_unitary_alignments, sizes)",
                            "assert psum(sizes, nA()) == NumUnits(self) and forall(a, 0, nA() + 1, psum(sizes, a) == off(a))"),
                           ("after", "chosen_alignments_ids, = ...", "XV = raw(x.value)"),
                           ("after", "chosen_alignments_ids, = ...", "SEL = raw(chosen_alignments_ids)"),
                           ("after", "chosen_alignments_ids, = ...", "NSEL = len(chosen_alignments_ids)"),
                           # exactly-one reasoning (lemmas dot_*): the candidate holding unit (a, j) in the solution
                           ("before", ret, "assert forall(k, 0, KK, XV[k] == 0 or XV[k] == 1)"),
                           ("before", ret, "assert forall(a, 0, nA(), forall(j, 0, cntAt(a), 0 <= psum(sizes, a) + j and "
                                           "psum(sizes, a) + j < shape(A)[0] and forall(k, 0, KK, A[psum(sizes, a) + j][k] == "
                                           "(1 if possible_unitary_alignments[k][a] == j else 0))))"),
                           ("before", ret, "assert bin01(XV, KK) and forall(a, 0, nA(), forall(j, 0, cntAt(a), "
                                           "bin01(A[psum(sizes, a) + j], KK)))"),
                           ("before", ret, "assert forall(a, 0, nA(), forall(j, 0, cntAt(a), "
                                           f"dot(A[psum(sizes, a) + j], XV, KK) {rel} 1))"),
                           ("before", ret, "assert forall(a, 0, nA(), forall(j, 0, cntAt(a), 0 <= hitk(a, j) and hitk(a, j) < KK and "
                                           "XV[hitk(a, j)] == 1 and possible_unitary_alignments[hitk(a, j)][a] == j))"),
                           ("before", ret, "assert forall(a, 0, nA(), forall(j, 0, cntAt(a), "
                                           "0 <= where_pos()[hitk(a, j)] and where_pos()[hitk(a, j)] < NSEL and "
                                           "chosen_alignments[where_pos()[hitk(a, j)]][a] == j))"),
                           ("before", ret, "assert forall(a, 0, nA(), forall(j, 0, cntAt(a), "
                                           "not isnone(set_unitary_alignements[where_pos()[hitk(a, j)]]._n_tuple[a][1]) and "
                                           "some(set_unitary_alignements[where_pos()[hitk(a, j)]]._n_tuple[a][1]) == unitAt(a, j)))"),
                           ("before", ret, "assert forall(t, 0, NSEL, exists(a, 0, nA(), chosen_alignments[t][a] < cntAt(a)))"),
                           ("before", ret, "assert forall(t, 0, NSEL, exists(a, 0, nA(), "
                                           "not isnone(set_unitary_alignements[t]._n_tuple[a][1])))"),
                           ("before", ret, "assert forall(k, 0, KK, implies(XV[k] == 1, 0 <= where_pos()[k] and "
                                           "where_pos()[k] < NSEL and SEL[where_pos()[k]] == k))"),
                           ] + once_hints,
                    loops={
                        "L0": dict(match="for i, units in enumerate(self._annotations.values())",
                                   inv=["forall(k, 0, i, sizes[k] == cntAt(k) and sizes[k] >= 0)"]),
                        "L1": dict(match="for alignment_id, alignment in enumerate(chosen_alignments)",
                                   inv=["len(set_unitary_alignements) == alignment_id",
                                        "forall(t, 0, alignment_id, len(set_unitary_alignements[t]._n_tuple) == nA() and "
                                        "decoded(set_unitary_alignements[t]._n_tuple, chosen_alignments[t], nA()) and "
                                        "not isnone(set_unitary_alignements[t]._disorder) and "
                                        "some(set_unitary_alignements[t]._disorder) == alignments_disorders[t])"]),
                        "L1.0": dict(match="for annotator_id, unit_id in enumerate(alignment)",
                                     inv=["len(u_align_tuple) == annotator_id",
                                          "decoded(u_align_tuple, alignment, annotator_id)"]),
                    },
                    serves={"C01", "C02", "C03", "C08", "C10", "C11", "C14"})


best_alignment_contract("get_best_alignment", soft=False)
best_alignment_contract("get_best_soft_alignment", soft=True)

# =========================================================================================================
# GammaResults and the thread-pool job functions   (C05, C12)
# =========================================================================================================
from .alignment import COMB   # noqa: E402
ALIGNV = lambda: RecT("Alignment", unitary_alignments=ListOf(UAT()), _disorder=OptT(RealT()))   # noqa: E731  (alignment held in a list: by value)
GRES = lambda: ObjT("GammaResults", best_alignment=ALIGN(), chance_alignments=ListOf(ALIGNV()),      # noqa: E731
                    dissimilarity=DISSIM(), precision_level=OptT(RealT()))
GR_MACROS = [Macro("meanchance", [], "rpsum(lam(k, some(self.chance_alignments[k]._disorder)), len(self.chance_alignments)) / "
                                     "len(self.chance_alignments)")]
GR_REQ = ["not isnone(self.best_alignment._disorder)",
          "forall(k, 0, len(self.chance_alignments), not isnone(self.chance_alignments[k]._disorder))"]

contract(F + "GammaResults.n_samples", params={"self": GRES()}, returns=IntT(), is_property=True,
         ensures=[cl("result == len(self.chance_alignments)", "C05", name="number-of-chance-alignments")], serves={"C05"})

contract(F + "GammaResults.observed_disorder", params={"self": GRES()}, returns=RealT(), is_property=True, requires=GR_REQ,
         modifies=["self.best_alignment._disorder"],
         ensures=[cl("result == some(self.best_alignment._disorder) and self.best_alignment._disorder == old(self.best_alignment._disorder)",
                     "C05", name="disorder-of-the-best-alignment")], serves={"C05"})

contract(F + "GammaResults.expected_disorder", params={"self": GRES()}, returns=RealT(), is_property=True, requires=GR_REQ,
         macros=GR_MACROS, lemmas=PSUM_LEMMAS,
         ensures=[cl("result == meanchance()", "C05", name="mean-chance-disorder")], serves={"C05"})

contract(F + "GammaResults.gamma", params={"self": GRES()}, returns=RealT(), is_property=True, requires=GR_REQ, macros=GR_MACROS,
         modifies=["self.best_alignment._disorder"],
         raises={"ZeroDivisionError": {"iff": "some(self.best_alignment._disorder) != 0 and meanchance() == 0"}},
         ensures=[cl("result == ite(some(self.best_alignment._disorder) == 0, 1, 1 - some(self.best_alignment._disorder) / meanchance())",
                     "C05", name="one-minus-observed-over-expected"),
                  cl("implies(some(self.best_alignment._disorder) >= 0 and meanchance() > 0, result <= 1)", "C05", name="never-above-one")],
         serves={"C05"})

contract(F + "_compute_gamma_k_job",
         params={"dissimilarity": COMB(), "alignment": ALIGN(), "category": OptT(StrT())}, returns=RealT(), modifies=[],
         requires=["dissimilarity.delta_empty >= 0",
                   "forall(t, 0, len(alignment.unitary_alignments), forall(i, 0, len(alignment.unitary_alignments[t]._n_tuple), "
                   "implies(not isnone(alignment.unitary_alignments[t]._n_tuple[i][1]), "
                   "some(alignment.unitary_alignments[t]._n_tuple[i][1]).e - some(alignment.unitary_alignments[t]._n_tuple[i][1]).s > 1e-6)))"],
         ensures=[cl("result >= 0", "C12", name="a-categorical-disorder")],
         notes="the job is exactly alignment.gamma_k_disorder(dissimilarity, category); its value is specified by that contract",
         serves={"C12", "C05", "C06"})


def job_contract(job, meth, soft):
    """_compute_*_alignment_job(dissimilarity, continuum) == continuum.<meth>(dissimilarity): the structural clauses of the callee,
    re-stated for the job's parameter names (the optimality clauses stay with the callee: they mention its ghost outputs)"""
    import re
    from pyvc.contract import REGISTRY, Clause
    callee = REGISTRY[F + "Continuum." + meth]
    ren = lambda t: re.sub(r"\bself\b", "continuum", t)       # noqa: E731
    keep = ("fresh", "P1-well-formed-own-units", "P2-some-real-unit", "P3-every-unit-at-least-once", "P3-every-unit-at-most-once",
            "disorder-is-sum-over-xbar")
    macros = [Macro(m.name, m.params, ren(m.body.text)) for m in callee.macros.values()]
    ens = [cl(ren(c.text), " ".join(sorted(c.props)) if c.props else None, name=c.name) for c in callee.ensures if c.name in keep]
    return contract(F + job, params={"dissimilarity": DISSIM(), "continuum": CONT()}, returns=ALIGN("SoftAlignment" if soft else "Alignment"),
                    modifies=[], macros=macros, requires=[ren(c.text) for c in callee.requires],
                    binds={"result.continuum": "continuum"},
                    raises={"AssertionError": {}, "SolverError": {}}, ensures=ens, serves={"C05", "C06", "C01", "C11"})


job_contract("_compute_best_alignment_job", "get_best_alignment", False)
job_contract("_compute_soft_alignment_job", "get_best_soft_alignment", True)


# ---------------------------------------------------------------------------------------------------------
# fast alignment (C10): the structural clauses of the best alignment (a partition of the continuum's own units whose reported disorder
# is the sum of its unitary alignments' over the mean number of units) hold for the windowed algorithm too.
STRUCTURAL = ("fresh", "P1-well-formed-own-units", "P2-some-real-unit", "P3-every-unit-at-least-once", "P3-every-unit-at-most-once",
              "disorder-is-sum-over-xbar")


def fast_contracts():
    import re
    from pyvc.contract import REGISTRY
    callee = REGISTRY[F + "Continuum.get_best_alignment"]
    ren = lambda t: re.sub(r"\bself\b", "continuum", t)       # noqa: E731
    ens = [c for c in callee.ensures if c.name in STRUCTURAL]
    NONEMPTY = "exists(k, 0, Nkeys({c}), Cnt({c})[Kseq({c})[k]] != 0)"
    contract(F + "Continuum.get_first_window",
             params={"self": CONT(), "dissimilarity": DISSIM(), "w": IntT()}, returns=TupleOf(CONT(), RealT()),
             modifies=[], macros=VIEW_MACROS,
             requires=["RI(self)", "w >= 1", "dissimilarity.delta_empty >= 0", NONEMPTY.format(c="self")],
             ensures=[cl("fresh_obj(result[0]) and disjoint_state(result[0], self)", "C10", name="fresh-window"),
                      cl("RI(result[0])", "C10", name="RI"),
                      cl("Ann(result[0]) == Ann(self) and Kseq(result[0]) == Kseq(self) and Nkeys(result[0]) == Nkeys(self) and "
                         "Kidx(result[0]) == Kidx(self)", "C10", name="same-annotators-in-the-same-order"),
                      cl("forall([(a, Real), (u, Unit)], implies(Us(result[0])[a][u], Us(self)[a][u]))", "C10", name="window-units-are-units-of-the-continuum"),
                      cl("forall([(a, Real)], Cnt(result[0])[a] <= Cnt(self)[a])", "C10", name="no-more-units-per-annotator"),
                      cl(NONEMPTY.format(c="result[0]"), "C10", name="window-not-empty")],
             trusted=True,
             notes="ASSUMED (zip / map / numpy code outside the encoding): what get_fast_alignment's termination and partition proof needs of "
                   "the window - a fresh non-empty sub-continuum over the same annotators; exercised by the bounded oracle (fast.py)",
             serves={"C10"})
    FM = list(callee.macros.values()) + [
        Macro("KA", ["a"], "Kseq(self)[a]"),
        Macro("slotU", ["t", "a"], "unitary_alignments[t]._n_tuple[a][1]"),
        Macro("BL", [], "best_alignment.unitary_alignments"),
        Macro("slotB", ["t", "a"], "best_alignment.unitary_alignments[t]._n_tuple[a][1]"),
        Macro("slotC", ["a"], "chosen._n_tuple[a][1]"),
        Macro("cpbase", [], "RI(copy) and Ann(copy) == Ann(self) and Kseq(copy) == Kseq(self) and Nkeys(copy) == Nkeys(self) and "
                            "Kidx(copy) == Kidx(self) and forall([(a, Real), (u, Unit)], implies(Us(copy)[a][u], Us(self)[a][u])) and "
                            "forall([(a, Real)], Cnt(copy)[a] <= Cnt(self)[a])"),
        Macro("wf_done", ["n"], "forall(t, 0, n, len(unitary_alignments[t]._n_tuple) == nA() and not isnone(unitary_alignments[t]._disorder) and "
                                "forall(a, 0, nA(), unitary_alignments[t]._n_tuple[a][0] == KA(a) and (isnone(slotU(t, a)) or "
                                "(Us(self)[KA(a)][some(slotU(t, a))] and not Us(copy)[KA(a)][some(slotU(t, a))]))))"),
        Macro("p2_done", ["n"], "forall(t, 0, n, exists(a, 0, nA(), not isnone(slotU(t, a))))"),
        Macro("amo_done", ["n"], "forall(t1, 0, n, forall(t2, t1 + 1, n, forall(a, 0, nA(), isnone(slotU(t1, a)) or isnone(slotU(t2, a)) or "
                                 "some(slotU(t1, a)) != some(slotU(t2, a)))))"),
        Macro("cover", ["n"], "forall([a, (u, Unit)], implies(0 <= a and a < nA() and Us(self)[KA(a)][u], Us(copy)[KA(a)][u] or "
                              "exists(t, 0, n, not isnone(slotU(t, a)) and some(slotU(t, a)) == u)))"),
        Macro("dis_ok", ["n"], "len(disorders) == n and forall(t, 0, n, disorders[t] == some(unitary_alignments[t]._disorder))"),
        # the unitary alignments of the window's best alignment not consumed yet still have all their units in the working copy
        Macro("pending", ["kc", "skip"], "forall(t, 0, len(BL()), t == skip or exists(k, 0, kc, ghost('PI')[k] == t) or "
                                         "forall(a, 0, nA(), isnone(slotB(t, a)) or Us(copy)[KA(a)][some(slotB(t, a))]))"),
        Macro("old_in_copy", ["a", "u"], "UC0[a][u]"),
        Macro("taken", ["kc"], "len(unitary_alignments) == U0 + kc and forall(k, 0, kc, unitary_alignments[U0 + k] == BL()[ghost('PI')[k]])"),
    ]
    contract(F + "Continuum.get_fast_alignment",
             params={"self": CONT(), "dissimilarity": DISSIM(), "window_size": IntT()}, returns=ALIGN("Alignment"),
             modifies=[], macros=FM, binds={"result.continuum": "self"}, lemmas=PSUM_LEMMAS,
             locals={"unitary_alignments": UAT(), "disorders": RealT()},
             ghost_vars={"U0": ("Int", "0"), "NU0": ("Int", "0"), "NUK": ("Int", "0"), "UC0": ("RUSet", None)},
             requires=[c.text for c in callee.requires] + ["window_size >= 1", "NumUnits(self) >= 1"],
             raises={"AssertionError": {}, "SolverError": {}},
             ensures=[cl(c.text, "C10", name=c.name) for c in ens],
             loops={"L0": dict(match="while copy", variant="NumUnits(copy)", modifies=["copy"],
                               inv=["cpbase()", "wf_done(len(unitary_alignments))", "p2_done(len(unitary_alignments))",
                                    "amo_done(len(unitary_alignments))", "cover(len(unitary_alignments))", "dis_ok(len(unitary_alignments))"]),
                    "L0.0": dict(match="for chosen in best_alignment.take_until_limit(x_limit)", index="kc", modifies=["copy"],
                                 inv=["cpbase()", "taken(kc)", "wf_done(U0 + kc)", "p2_done(U0 + kc)", "amo_done(U0 + kc)", "cover(U0 + kc)",
                                      "dis_ok(U0 + kc)", "pending(kc, -1)",
                                      "NumUnits(copy) <= NU0 and implies(kc >= 1, NumUnits(copy) < NU0)"]),
                    "L0.0.0": dict(match="for annotator, unit in chosen.n_tuple", index="ia", modifies=["copy"],
                                   inv=["cpbase()", "taken(kc + 1)", "wf_done(U0 + kc)", "p2_done(U0 + kc + 1)", "amo_done(U0 + kc + 1)",
                                        "cover(U0 + kc + 1)", "dis_ok(U0 + kc + 1)", "pending(kc, ghost('PI')[kc])",
                                        "forall(a, 0, nA(), isnone(slotC(a)) or (Us(copy)[KA(a)][some(slotC(a))] == (a >= ia)))",
                                        "NUK <= NU0 and implies(kc >= 1, NUK < NU0)",
                                        "NumUnits(copy) <= NUK and implies(exists(a, 0, ia, not isnone(slotC(a))), NumUnits(copy) < NUK)"])},
             hooks=[("before", "window, x_limit = copy.get_first_window(dissimilarity, window_size)", "U0 = len(unitary_alignments)"),
                    ("before", "window, x_limit = copy.get_first_window(dissimilarity, window_size)", "NU0 = NumUnits(copy)"),
                    ("before", "window, x_limit = copy.get_first_window(dissimilarity, window_size)", "model_inv wfmap(self)"),
                    ("before", "window, x_limit = copy.get_first_window(dissimilarity, window_size)", "model_inv wfmap(copy)"),
                    ("before", "window, x_limit = copy.get_first_window(dissimilarity, window_size)",
                     "use psum_nonneg(f=lam(k, Cnt(copy)[Kseq(copy)[k]]), k=Nkeys(copy))"),
                    # the window is not empty, so its best alignment has at least one unitary alignment: the generator yields at least once
                    ("before", "for chosen in best_alignment.take_until_limit(x_limit): ...", "model_inv wfmap(window)"),
                    ("before", "for chosen in best_alignment.take_until_limit(x_limit): ...", "assert len(BL()) >= 1"),
                    ("before", "unitary_alignments.append(chosen)", "NUK = NumUnits(copy)"),
                    ("before", "copy.remove(annotator, unit)", "UC0 = Us(copy)"),
                    ("after", "disorders.append(chosen.disorder)", "assert forall(a, 0, nA(), slotU(U0 + kc, a) == slotC(a))"),
                    ("after", "disorders.append(chosen.disorder)", "assert exists(a, 0, nA(), not isnone(slotC(a)))"),
                    ("after", "disorders.append(chosen.disorder)", "assert forall(a, 0, nA(), forall(a2, 0, nA(), implies(a != a2, KA(a) != KA(a2))))"),
                    ("after", "copy.remove(annotator, unit)",
                     "assert not isnone(slotU(U0 + kc, ia)) and some(slotU(U0 + kc, ia)) == unit and KA(ia) == annotator"),
                    ("after", "copy.remove(annotator, unit)",
                     "assert 0 <= U0 + kc and exists(t, 0, U0 + kc + 1, not isnone(slotU(t, ia)) and some(slotU(t, ia)) == unit)"),
                    # the removed unit sits in no other unitary alignment of the window's best alignment (at most once), so the pending ones keep theirs
                    ("after", "copy.remove(annotator, unit)",
                     "assert forall(t, 0, len(BL()), implies(t != ghost('PI')[kc], isnone(slotB(t, ia)) or some(slotB(t, ia)) != unit))"),
                    ("after", "copy.remove(annotator, unit)",
                     "assert forall([a, (u, Unit)], implies(0 <= a and a < nA() and not (a == ia and u == unit) and old_in_copy(KA(a), u), "
                     "Us(copy)[KA(a)][u]))"),
                    ("after", "copy.remove(annotator, unit)",
                     "assert forall(t, 0, len(BL()), forall(a, 0, nA(), implies(t != ghost('PI')[kc] and not isnone(slotB(t, a)) and "
                     "old_in_copy(KA(a), some(slotB(t, a))), Us(copy)[KA(a)][some(slotB(t, a))])))"),
                    ("before", "return Alignment(...", "model_inv wfmap(copy)"),
                    ("before", "return Alignment(...", "model_inv wfmap(self)"),
                    ("before", "return Alignment(...", "assert forall([(a, Real), (u, Unit)], not Us(copy)[a][u])"),
                    ("before", "return Alignment(...", "assert forall(a, 0, nA(), forall(j, 0, cntAt(a), Us(self)[KA(a)][unitAt(a, j)]))"),
                    ("before", "return Alignment(...",
                     "use psum_ext_real(f=lam(t, some(unitary_alignments[t]._disorder)), g=raw(disorders), k=len(unitary_alignments))")],
             calls={"take_until_limit": "pygamma_agreement/alignment.py::Alignment.take_until_limit"},
             notes="termination (variant NumUnits(copy)) and partition of the windowed algorithm, given the assumed contract of get_first_window",
             serves={"C10"})
    contract(F + "_compute_fast_alignment_job",
             params={"dissimilarity": DISSIM(), "continuum": CONT()}, returns=ALIGN("Alignment"), modifies=[],
             macros=[Macro(m.name, m.params, ren(m.body.text)) for m in callee.macros.values()],
             requires=[ren(c.text) for c in callee.requires] +
                      ["continuum.best_window_size.isinf or continuum.best_window_size.val >= 1", "NumUnits(continuum) >= 1"],
             binds={"result.continuum": "continuum"},
             raises={"AssertionError": {}, "SolverError": {}},
             ensures=[cl(ren(c.text), "C10", name=c.name) for c in ens],
             notes="exact algorithm iff best_window_size is infinite: the branch structure is the wiring obligation C10/wiring/*",
             serves={"C10", "C05", "C06"})


fast_contracts()

# =========================================================================================================
# csv export / import   (C18 X1, X2)
# =========================================================================================================
from pyvc.contract import ClassT   # noqa: E402
CSV_MACROS = ITER_MACROS + [
    Macro("rowof", ["r", "a", "u"], "r[0].text == a and r[1].text == ite(u.haslab, u.lab, emptystr()) and r[2].num == u.s and r[3].num == u.e"),
    Macro("validrow", ["r"], "r[3].num - r[2].num > 1e-6"),
    Macro("unitof", ["r"], "mkunit(r[2].num, r[3].num, r[1].text)"),
]

contract(F + "Continuum.to_csv",
         params={"self": CONT(), "path": StrT(), "delimiter": StrT()}, modifies=[], macros=CSV_MACROS,
         ghost_vars={"OUT": ("Int", None)},
         ensures=[cl("len(OUT) == NumUnits(self)", "C18", name="one-row-per-unit"),
                  cl("forall([(a, Real), (u, Unit)], implies(Us(self)[a][u], rowof(OUT[flat(self, a, u)], a, u)))", "C18",
                     name="row-is-annotator-label-start-end")],
         loops={"L0": dict(match="for annotator, unit in self", index="iU", modifies=["csv_file"],
                           inv=["len(filerows(csv_file)) == iU",
                                "forall([(a, Real), (u, Unit)], implies(Us(self)[a][u] and flat(self, a, u) < iU, "
                                "rowof(filerows(csv_file)[flat(self, a, u)], a, u)))"])},
         hooks=[("after", "for annotator, unit in self: ...", "OUT = filerows(csv_file)"),
                ("before", "for annotator, unit in self: ...", "model_inv wfmap(self)")],
         serves={"C18"})

contract(F + "Continuum.from_csv",
         params={"cls": ClassT("Continuum"), "path": StrT(), "discard_invalid_rows": BoolT(), "delimiter": StrT()},
         returns=CONT(), is_classmethod=True, macros=CSV_MACROS + [Macro("T", [], "continuum")],
         ghost_vars={"IN": ("Int", None)},
         raises={"ValueError": {"when": "not discard_invalid_rows"}},
         ensures=[cl("fresh_obj(result)", "C18", name="fresh"),
                  cl("forall([(a, Real), (u, Unit)], Us(result)[a][u] == exists(k, 0, len(IN), validrow(IN[k]) and IN[k][0].text == a and "
                     "unitof(IN[k]) == u))", "C18", name="exactly-the-valid-rows"),
                  cl("implies(not discard_invalid_rows, forall(k, 0, len(IN), validrow(IN[k])))", "C18", name="invalid-rows-only-discarded-when-asked"),
                  cl("RI(result)", name="RI")],
         loops={"L0": dict(match="for row in reader", index="iR", modifies=["continuum"],
                           inv=["forall([(a, Real), (u, Unit)], Us(T())[a][u] == exists(k, 0, iR, validrow(IN[k]) and IN[k][0].text == a and "
                                "unitof(IN[k]) == u))",
                                "implies(not discard_invalid_rows, forall(k, 0, iR, validrow(IN[k])))",
                                "RI(T())"])},
         hooks=[("before", "for row in reader: ...", "IN = filerows(csv_file)")],
         serves={"C18"})

contract(F + "Continuum.__getitem__#annotator",
         params={"self": CONT(), "keys": StrT()}, returns=ObjT("SetUnit"), modifies=[],
         raises={"KeyError": {"iff": "not Ann(self)[keys]"}},
         ensures=[cl("fresh_obj(result) and disjoint_state(result, self)", "C13 C14 C19", name="a-deep-copy"),
                  cl("members(result) == Us(self)[keys] and size(result) == Cnt(self)[keys] and seqof(result) == Useq(self)[keys]",
                     "C13 C19", name="the-annotator's-units-in-order")],
         serves={"C13", "C14", "C19"})

# =========================================================================================================
# Continuum.__eq__ / __ne__   (C13: equality of continua is an equivalence on (annotators, units))
# The characterisation  result == (same annotators and same units)  needs the CANONICAL ENUMERATION lemmas: two well-formed sorted
# containers with the same members enumerate them identically (same length, same element at every position).
# =========================================================================================================
EQV = ("(forall([(a, Real)], Ann(self)[a] == Ann(other)[a]) and forall([(a, Real), (u, Unit)], Us(self)[a][u] == Us(other)[a][u]))")
EQ_HYPS = ["wfmap(self)", "wfmap(other)", "forall([(a, Real)], Ann(self)[a] == Ann(other)[a])",
           "forall([(a, Real), (u, Unit)], Us(self)[a][u] == Us(other)[a][u])"]
EQ_LEMMAS = [
    Lemma("kseq_prefix", "forall(i, 0, k, Kseq(self)[i] == Kseq(other)[i])", binders=[("k", "Int")],
          hyps=EQ_HYPS + ["0 <= k", "k <= Nkeys(self)", "k <= Nkeys(other)"], method=("induction", "k", "0")),
    Lemma("nkeys_equal", "Nkeys(self) == Nkeys(other)", hyps=EQ_HYPS,
          hints=["implies(Nkeys(self) <= Nkeys(other), forall(i, 0, Nkeys(self), Kseq(self)[i] == Kseq(other)[i]))",
                 "implies(Nkeys(other) <= Nkeys(self), forall(i, 0, Nkeys(other), Kseq(self)[i] == Kseq(other)[i]))",
                 "not Nkeys(self) < Nkeys(other)", "not Nkeys(other) < Nkeys(self)"]),
    Lemma("kseq_equal", "forall(i, 0, Nkeys(self), Kseq(self)[i] == Kseq(other)[i]) and forall([(a, Real)], implies(Ann(self)[a], "
                        "Kidx(self)[a] == Kidx(other)[a]))", hyps=EQ_HYPS,
          hints=["Nkeys(self) == Nkeys(other)", "forall(i, 0, Nkeys(self), Kseq(self)[i] == Kseq(other)[i])"]),
    Lemma("useq_prefix", "forall(j, 0, k, Useq(self)[a][j] == Useq(other)[a][j])", binders=[("a", "Real"), ("k", "Int")],
          hyps=EQ_HYPS + ["Ann(self)[a]", "0 <= k", "k <= Cnt(self)[a]", "k <= Cnt(other)[a]"], method=("induction", "k", "0")),
    Lemma("cnt_equal", "Cnt(self)[a] == Cnt(other)[a]", binders=[("a", "Real")], hyps=EQ_HYPS + ["Ann(self)[a]"],
          hints=["implies(Cnt(self)[a] <= Cnt(other)[a], forall(j, 0, Cnt(self)[a], Useq(self)[a][j] == Useq(other)[a][j]))",
                 "implies(Cnt(other)[a] <= Cnt(self)[a], forall(j, 0, Cnt(other)[a], Useq(self)[a][j] == Useq(other)[a][j]))",
                 "implies(Cnt(self)[a] < Cnt(other)[a], Us(self)[a][Useq(other)[a][Cnt(self)[a]]] and "
                 "Uidx(self)[a][Useq(other)[a][Cnt(self)[a]]] < Cnt(self)[a] and "
                 "Useq(other)[a][Uidx(self)[a][Useq(other)[a][Cnt(self)[a]]]] == Useq(other)[a][Cnt(self)[a]])",
                 "not Cnt(self)[a] < Cnt(other)[a]",
                 "implies(Cnt(other)[a] < Cnt(self)[a], Us(other)[a][Useq(self)[a][Cnt(other)[a]]] and "
                 "Uidx(other)[a][Useq(self)[a][Cnt(other)[a]]] < Cnt(other)[a] and "
                 "Useq(self)[a][Uidx(other)[a][Useq(self)[a][Cnt(other)[a]]]] == Useq(self)[a][Cnt(other)[a]])",
                 "not Cnt(other)[a] < Cnt(self)[a]"]),
    Lemma("useq_equal", "forall(j, 0, Cnt(self)[a], Useq(self)[a][j] == Useq(other)[a][j]) and "
                        "forall([(u, Unit)], implies(Us(self)[a][u], Uidx(self)[a][u] == Uidx(other)[a][u]))",
          binders=[("a", "Real")], hyps=EQ_HYPS + ["Ann(self)[a]"],
          hints=["Cnt(self)[a] == Cnt(other)[a]", "forall(j, 0, Cnt(self)[a], Useq(self)[a][j] == Useq(other)[a][j])"]),
    Lemma("offs_equal", "offs(self, k) == offs(other, k)", binders=[("k", "Int")], hyps=EQ_HYPS + ["0 <= k", "k <= Nkeys(self)"],
          method=("induction", "k", "0")),
    Lemma("flat_equal", "flat(self, a, u) == flat(other, a, u)", binders=[("a", "Real"), ("u", "Unit")], hyps=EQ_HYPS + ["Us(self)[a][u]"],
          hints=["Ann(self)[a]", "Kidx(self)[a] == Kidx(other)[a]", "Uidx(self)[a][u] == Uidx(other)[a][u]",
                 "0 <= Kidx(self)[a] and Kidx(self)[a] <= Nkeys(self)", "use offs_equal(k=Kidx(self)[a])",
                 "offs(self, Kidx(self)[a]) == offs(other, Kidx(self)[a])"]),
    Lemma("numunits_equal", "NumUnits(self) == NumUnits(other)", hyps=EQ_HYPS,
          hints=["Nkeys(self) == Nkeys(other)", "use offs_equal(k=Nkeys(self))", "offs(self, Nkeys(self)) == offs(other, Nkeys(self))"]),
]

contract(F + "Continuum.__eq__",
         params={"self": CONT(), "other": CONT()}, returns=BoolT(), modifies=[], macros=ITER_MACROS, lemmas=EQ_LEMMAS,
         requires=["RI(self)", "RI(other)"],
         ensures=[cl("result == " + EQV, "C13", name="equal-iff-same-annotators-and-same-units")],
         loops={"L0": dict(match="for (my_annotator, my_unit), (other_annotator, other_unit) in zip(self, other)", index="kz",
                           seq_name=["YS", "YO"],
                           inv=["forall(k, 0, kz, YS[k][0] == YO[k][0] and YS[k][1] == YO[k][1])"])},
         hooks=[("before", "@entry", "model_inv wfmap(self)"),
                ("before", "@entry", "model_inv wfmap(other)"),
                # every unit sits at its flat position in the iteration, on both sides
                ("before", "return True", "assert forall([(a, Real), (u, Unit)], implies(Us(self)[a][u], 0 <= flat(self, a, u) and "
                                          "flat(self, a, u) < NumUnits(self) and YS[flat(self, a, u)][0] == a and YS[flat(self, a, u)][1] == u))"),
                ("before", "return True", "assert forall([(a, Real), (u, Unit)], implies(Us(other)[a][u], 0 <= flat(other, a, u) and "
                                          "flat(other, a, u) < NumUnits(other) and YO[flat(other, a, u)][0] == a and YO[flat(other, a, u)][1] == u))"),
                ("before", "return True", "assert forall([(a, Real), (u, Unit)], implies(Us(self)[a][u], Us(other)[a][u]))"),
                ("before", "return True", "assert forall([(a, Real), (u, Unit)], implies(Us(other)[a][u], Us(self)[a][u]))")],
         serves={"C13"})

contract(F + "Continuum.__ne__", params={"self": CONT(), "other": CONT()}, returns=BoolT(), modifies=[], macros=ITER_MACROS,
         requires=["RI(self)", "RI(other)"],
         ensures=[cl("result == (not " + EQV + ")", "C13", name="unequal-iff-annotators-or-units-differ")],
         serves={"C13"})

# C18 X5: add_annotation adds exactly the tracks of a pyannote Annotation (modelled as the list of its (segment, track, label) triples)
TRACK = lambda: TupleOf(SegT(), StrT(), OptT(StrT()))    # noqa: E731
contract(F + "Continuum.add_annotation",
         params={"self": CONT(), "annotator": StrT(), "annotation": ListOf(TRACK())}, modifies=["self"], macros=VIEW_MACROS + [
             Macro("trackunit", ["k"], "mkunit(annotation[k][0].start, annotation[k][0].end, annotation[k][2])"),
             Macro("valid", ["k"], "annotation[k][0].end - annotation[k][0].start > 1e-6")],
         requires=["RI(self)"],
         raises={"ValueError": {"iff": "exists(k, 0, len(annotation), not valid(k))"}},
         ensures=[cl("forall([(a, Real)], Ann(self)[a] == (old(Ann(self))[a] or (a == annotator and len(annotation) >= 1)))", "C18",
                     name="X5-the-annotator-is-added-when-there-is-a-track"),
                  cl("forall([(a, Real), (u, Unit)], Us(self)[a][u] == (old(Us(self))[a][u] or (a == annotator and "
                     "exists(k, 0, len(annotation), trackunit(k) == u))))", "C18", name="X5-exactly-one-unit-per-track-segment-and-label-unchanged"),
                  cl("RI(self)", "C18", name="RI")],
         loops={"L0": dict(match="for segment, _, label in annotation.itertracks(yield_label=True)", index="kT", modifies=["self"],
                           inv=["forall(k, 0, kT, valid(k))", "RI(self)",
                                "forall([(a, Real)], Ann(self)[a] == (old(Ann(self))[a] or (a == annotator and kT >= 1)))",
                                "forall([(a, Real), (u, Unit)], Us(self)[a][u] == (old(Us(self))[a][u] or (a == annotator and "
                                "exists(k, 0, kT, trackunit(k) == u))))"])},
         serves={"C18"})

contract(F + "Continuum.from_rttm",
         params={"cls": ClassT("Continuum"), "path": StrT()}, returns=CONT(), is_classmethod=True, macros=VIEW_MACROS + [
             Macro("T", [], "continuum"),
             Macro("funit", ["f", "k"], "mkunit(FILES[f][1][k][0].start, FILES[f][1][k][0].end, FILES[f][1][k][2])"),
             Macro("fvalid", ["f", "k"], "FILES[f][1][k][0].end - FILES[f][1][k][0].start > 1e-6")],
         ghost_vars={"FILES": ("Int", None)},
         raises={"ValueError": {}},
         ensures=[cl("fresh_obj(result)", "C18", name="fresh"),
                  cl("forall([(a, Real), (u, Unit)], Us(result)[a][u] == exists(f, 0, len(FILES), FILES[f][0] == a and "
                     "exists(k, 0, len(FILES[f][1]), funit(f, k) == u)))", "C18", name="X5-one-unit-per-track-annotator-is-the-uri"),
                  cl("RI(result)", name="RI")],
         loops={"L0": dict(match="for uri, annot in annotations.items()", index="fI", modifies=["continuum"],
                           inv=["RI(T())",
                                "forall([(a, Real), (u, Unit)], Us(T())[a][u] == exists(f, 0, fI, FILES[f][0] == a and "
                                "exists(k, 0, len(FILES[f][1]), funit(f, k) == u)))"])},
         hooks=[("after", "annotations = ...", "FILES = annotations")],
         serves={"C18"})

contract(F + "Continuum.add_timeline",
         params={"self": CONT(), "annotator": StrT(), "timeline": ListOf(SegT())}, modifies=["self"], macros=VIEW_MACROS + [
             Macro("segunit", ["k"], "mkunit(timeline[k].start, timeline[k].end, None)")],
         requires=["RI(self)"],
         raises={"ValueError": {"iff": "exists(k, 0, len(timeline), not timeline[k].end - timeline[k].start > 1e-6)"}},
         ensures=[cl("forall([(a, Real), (u, Unit)], Us(self)[a][u] == (old(Us(self))[a][u] or (a == annotator and "
                     "exists(k, 0, len(timeline), segunit(k) == u))))", "C18", name="one-unlabelled-unit-per-segment-of-the-timeline"),
                  cl("RI(self)", "C18", name="RI")],
         loops={"L0": dict(match="for segment in timeline", index="kT", modifies=["self"],
                           inv=["forall(k, 0, kT, timeline[k].end - timeline[k].start > 1e-6)", "RI(self)",
                                "forall([(a, Real), (u, Unit)], Us(self)[a][u] == (old(Us(self))[a][u] or (a == annotator and "
                                "exists(k, 0, kT, segunit(k) == u))))"])},
         serves={"C18"})

# C18 X4: add_elan adds every (start, end, value) annotation of the selected tiers; the label is the value, or the tier name when asked
ELAN_SEL = "(isnone(selected_tiers) or exists(j, 0, len(some(selected_tiers)), some(selected_tiers)[j] == EAF.tiers[t][0]))"
contract(F + "Continuum.add_elan",
         params={"self": CONT(), "annotator": StrT(), "eaf_path": StrT(), "selected_tiers": OptT(ListOf(StrT())), "use_tier_as_annotation": BoolT()},
         modifies=["self"], macros=VIEW_MACROS + [
             Macro("annunit", ["t", "k"], "mkunit(EAF.tiers[t][1][k][0], EAF.tiers[t][1][k][1], "
                                          "ite(use_tier_as_annotation, EAF.tiers[t][0], EAF.tiers[t][1][k][2]))"),
             Macro("selected", ["t"], ELAN_SEL)],
         ghost_vars={"EAF": ("Int", None)},
         requires=["RI(self)"],
         raises={"ValueError": {}},
         ensures=[cl("forall([(a, Real), (u, Unit)], Us(self)[a][u] == (old(Us(self))[a][u] or (a == annotator and "
                     "exists(t, 0, len(EAF.tiers), selected(t) and exists(k, 0, len(EAF.tiers[t][1]), annunit(t, k) == u)))))", "C18",
                     name="X4-every-annotation-of-the-selected-tiers-times-unchanged-label-value-or-tier-name"),
                  cl("RI(self)", "C18", name="RI")],
         loops={"L0": dict(match="for tier_name in eaf.get_tier_names()", index="tI", modifies=["self"],
                           inv=["RI(self)",
                                "forall([(a, Real), (u, Unit)], Us(self)[a][u] == (old(Us(self))[a][u] or (a == annotator and "
                                "exists(t, 0, tI, selected(t) and exists(k, 0, len(EAF.tiers[t][1]), annunit(t, k) == u)))))"]),
                "L0.0": dict(match="for start, end, value in eaf.get_annotation_data_for_tier(tier_name)", index="kA", modifies=["self"],
                             inv=["RI(self)", "selected(tI)",
                                  "forall([(a, Real), (u, Unit)], Us(self)[a][u] == (old(Us(self))[a][u] or (a == annotator and "
                                  "(exists(t, 0, tI, selected(t) and exists(k, 0, len(EAF.tiers[t][1]), annunit(t, k) == u)) or "
                                  "exists(k, 0, kA, annunit(tI, k) == u)))))"])},
         hooks=[("after", "eaf = ...", "EAF = eaf")],
         serves={"C18"})

# C18 X3: add_textgrid adds exactly the intervals with a non-empty mark of the (first tier of each) selected tier name, times unchanged,
# label = the mark, or the tier name when asked
TG_SEL = "(isnone(selected_tiers) or exists(j, 0, len(some(selected_tiers)), some(selected_tiers)[j] == TG.tiers[t][0]))"
contract(F + "Continuum.add_textgrid",
         params={"self": CONT(), "annotator": StrT(), "tg_path": StrT(), "selected_tiers": OptT(ListOf(StrT())), "use_tier_as_annotation": BoolT()},
         modifies=["self"], macros=VIEW_MACROS + [
             Macro("ft", ["t"], "TG.first(TG.tiers[t][0])"),
             Macro("ivunit", ["t", "k"], "mkunit(TG.tiers[ft(t)][1][k].minTime, TG.tiers[ft(t)][1][k].maxTime, "
                                         "ite(use_tier_as_annotation, TG.tiers[t][0], some(TG.tiers[ft(t)][1][k].mark)))"),
             Macro("marked", ["t", "k"], "not isnone(TG.tiers[ft(t)][1][k].mark)"),
             Macro("selected", ["t"], TG_SEL)],
         ghost_vars={"TG": ("Int", None)},
         requires=["RI(self)"],
         raises={"ValueError": {}},
         ensures=[cl("forall([(a, Real), (u, Unit)], Us(self)[a][u] == (old(Us(self))[a][u] or (a == annotator and "
                     "exists(t, 0, len(TG.tiers), selected(t) and exists(k, 0, len(TG.tiers[ft(t)][1]), marked(t, k) and ivunit(t, k) == u)))))", "C18",
                     name="X3-exactly-the-marked-intervals-of-the-selected-tiers-times-unchanged-label-mark-or-tier-name"),
                  cl("RI(self)", "C18", name="RI")],
         loops={"L0": dict(match="for tier_name in tg.getNames()", index="tI", modifies=["self"],
                           inv=["RI(self)",
                                "forall([(a, Real), (u, Unit)], Us(self)[a][u] == (old(Us(self))[a][u] or (a == annotator and "
                                "exists(t, 0, tI, selected(t) and exists(k, 0, len(TG.tiers[ft(t)][1]), marked(t, k) and ivunit(t, k) == u)))))"]),
                "L0.0": dict(match="for interval in tier", index="kI", modifies=["self"],
                             inv=["RI(self)", "selected(tI)",
                                  "forall([(a, Real), (u, Unit)], Us(self)[a][u] == (old(Us(self))[a][u] or (a == annotator and "
                                  "(exists(t, 0, tI, selected(t) and exists(k, 0, len(TG.tiers[ft(t)][1]), marked(t, k) and ivunit(t, k) == u)) or "
                                  "exists(k, 0, kI, marked(tI, k) and ivunit(tI, k) == u)))))"])},
         hooks=[("after", "tg = ...", "TG = tg")],
         serves={"C18"})
