"""StatisticalContinuumSampler.init_sampling (C15): after initialisation on a reference continuum every parameter of the sampling laws
is the one measured on that reference by the four setters (whose own contracts say what is measured)."""
from pyvc.contract import contract, cl, Macro, Lemma, NdArray, RealT, ListOf, OptT
from pyvc.heap import ObjT, OptObjT
from .continuum import CONT, ITER_MACROS
from .speclib import PSUM_LEMMAS
from .sampler import F
from .types import StrT

STATF = lambda: ObjT("StatisticalContinuumSampler", _reference_continuum=OptObjT(CONT()),       # noqa: E731
                     _ground_truth_annotators=OptObjT(ObjT("SetStr")),
                     _avg_nb_units_per_annotator=RealT(), _std_nb_units_per_annotator=RealT(), _avg_gap=RealT(), _std_gap=RealT(),
                     _avg_unit_duration=RealT(), _std_unit_duration=RealT(),
                     _categories=NdArray("f64", 1), _categories_weight=NdArray("f64", 1))
_M = ITER_MACROS + [Macro("ref", [], "reference_continuum"),
                    Macro("hits", ["c", "k"], "psum(lam(q, ite(LAB[q] == Cseq(ref())[c], 1, 0)), k)")]
_GHOSTS = {"NB": ("AInt", None), "DU": ("AReal", None), "LAB": ("AReal", None), "GAPS": ("AReal", None), "NG": ("Int", None)}
_MEASURED = [
    cl("forall(k, 0, Nkeys(ref()), NB[k] == Cnt(ref())[Kseq(ref())[k]]) and "
       "self._avg_nb_units_per_annotator == rpsum(lam(k, toreal(NB[k])), Nkeys(ref())) / Nkeys(ref()) and "
       "self._std_nb_units_per_annotator == npstd(lam(k, toreal(NB[k])), Nkeys(ref()))", "C15",
       name="units-per-annotator-law-measured-on-the-reference"),
    cl("forall([(a, Real), (u, Unit)], implies(Us(ref())[a][u], DU[flat(ref(), a, u)] == u.e - u.s)) and "
       "self._avg_unit_duration == rpsum(DU, NumUnits(ref())) / NumUnits(ref()) and self._std_unit_duration == npstd(DU, NumUnits(ref()))", "C15",
       name="duration-law-measured-on-the-reference"),
    cl("forall([(a, Real), (u, Unit)], implies(Us(ref())[a][u], LAB[flat(ref(), a, u)] == u.lab)) and "
       "shape(self._categories) == (Ncat(ref()),) and forall(c, 0, Ncat(ref()), self._categories[c] == Cseq(ref())[c]) and "
       "shape(self._categories_weight) == (Ncat(ref()),) and forall(c, 0, Ncat(ref()), "
       "self._categories_weight[c] * NumUnits(ref()) == hits(c, NumUnits(ref())))", "C15",
       name="categorical-law-measured-on-the-reference"),
    cl("NG >= 1 and self._avg_gap == rpsum(GAPS, NG) / NG and self._std_gap == npstd(GAPS, NG)", "C15", name="gap-law-measured-on-the-reference"),
]
_LEMMAS = PSUM_LEMMAS + [
    Lemma("psum_dominates", "forall(i, 0, k, psum(f, k) >= f[i])", binders=[("f", "AInt"), ("k", "Int")],
          hyps=["0 <= k", "forall(i, 0, k, f[i] >= 0)"], method=("induction", "k", "0", "fixed"))]
_HOOKS = [("after", "super().init_sampling(...", "model_inv wfmap(ref())"),
          ("after", "super().init_sampling(...", "use psum_dominates(f=lam(k, Cnt(ref())[Kseq(ref())[k]]), k=Nkeys(ref()))"),
          ("after", "super().init_sampling(...", "assert NumUnits(ref()) >= 1"),
          ("after", "self._set_gap_information()", "GAPS = ghost('GAPS')"), ("after", "self._set_gap_information()", "NG = ghost('NG')"),
          ("after", "self._set_duration_information()", "DU = ghost('DU')"),
          ("after", "self._set_categories_information()", "LAB = ghost('LAB')"),
          ("after", "self._set_nb_units_information()", "NB = ghost('NB')")]
_REQ = ["RI(reference_continuum)", "forall([(a, Real), (u, Unit)], implies(Us(reference_continuum)[a][u], u.haslab))"]
_CALLS = {"self._set_gap_information": F + "StatisticalContinuumSampler._set_gap_information",
          "self._set_duration_information": F + "StatisticalContinuumSampler._set_duration_information",
          "self._set_categories_information": F + "StatisticalContinuumSampler._set_categories_information",
          "self._set_nb_units_information": F + "StatisticalContinuumSampler._set_nb_units_information"}

contract(F + "StatisticalContinuumSampler.init_sampling#given",
         params={"self": STATF(), "reference_continuum": CONT(), "ground_truth_annotators": OptT(ListOf(StrT()))},
         modifies=["self"], macros=_M, lemmas=_LEMMAS, ghost_vars=_GHOSTS,
         calls={**_CALLS, "super().init_sampling": F + "AbstractContinuumSampler.init_sampling#given"},
         requires=["not isnone(ground_truth_annotators)"] + _REQ,
         binds={"self._reference_continuum": "reference_continuum"},
         raises={"AssertionError": {"iff": "not exists(k, 0, Nkeys(reference_continuum), Cnt(reference_continuum)[Kseq(reference_continuum)[k]] != 0) or "
                                           "exists(j, 0, len(some(ground_truth_annotators)), not Ann(reference_continuum)[some(ground_truth_annotators)[j]])"}},
         ensures=[cl("not isnone(self._reference_continuum) and not isnone(self._ground_truth_annotators)", "C15", name="initialised"),
                  cl("forall([(a, Real)], members(some(self._ground_truth_annotators))[a] == exists(j, 0, len(some(ground_truth_annotators)), "
                     "some(ground_truth_annotators)[j] == a))", "C15", name="the-ground-truth-annotators-are-exactly-the-given-ones")] + _MEASURED,
         hooks=_HOOKS,
         serves={"C15"})
contract(F + "StatisticalContinuumSampler.init_sampling#default",
         params={"self": STATF(), "reference_continuum": CONT(), "ground_truth_annotators": OptT(ListOf(StrT()))},
         modifies=["self"], macros=_M, lemmas=_LEMMAS, ghost_vars=_GHOSTS,
         calls={**_CALLS, "super().init_sampling": F + "AbstractContinuumSampler.init_sampling#default"},
         requires=["isnone(ground_truth_annotators)"] + _REQ,
         binds={"self._reference_continuum": "reference_continuum"},
         raises={"AssertionError": {"iff": "not exists(k, 0, Nkeys(reference_continuum), Cnt(reference_continuum)[Kseq(reference_continuum)[k]] != 0)"}},
         ensures=[cl("not isnone(self._reference_continuum) and not isnone(self._ground_truth_annotators)", "C15", name="initialised"),
                  cl("members(some(self._ground_truth_annotators)) == Ann(reference_continuum)", "C15",
                     name="by-default-every-annotator-of-the-reference-is-ground-truth")] + _MEASURED,
         hooks=_HOOKS,
         serves={"C15"})
