"""Continuum.__getitem__ by (annotator, index) (C13): the index-th unit of the annotator in the documented order (negative indexes from the end)."""
from pyvc.contract import contract, cl, TupleOf, IntT
from pyvc.heap import UnitT as UnitVT
from .continuum import F, CONT
from .speclib import VIEW_MACROS
from .types import StrT

contract(F + "Continuum.__getitem__#index",
         params={"self": CONT(), "keys": TupleOf(StrT(), IntT())}, returns=UnitVT(), modifies=[], macros=VIEW_MACROS,
         lets={"a": "keys[0]", "i": "keys[1]"},
         raises={"KeyError": {"iff": "not Ann(self)[a]"},
                 "IndexError": {"iff": "Ann(self)[a] and not (0 - Cnt(self)[a] <= i and i < Cnt(self)[a])"}},
         ensures=[cl("result == Useq(self)[a][ite(i >= 0, i, Cnt(self)[a] + i)] and Us(self)[a][result]", "C13",
                     name="the-index-th-unit-of-the-annotator-negative-indexes-from-the-end")],
         hooks=[("before", "@entry", "model_inv wfmap(self)")],
         serves={"C13"})
