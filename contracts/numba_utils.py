"""Contracts for pygamma_agreement/numba_utils.py  (tier A: numeric kernels, unbounded proofs)."""
from pyvc.contract import (contract, cl, GhostFun, Macro, Lemma, NdArray, ListOf, IntT, RealT, TupleOf, FnT)

F = "pygamma_agreement/numba_utils.py::"

# ----------------------------------------------------------------------------------------- extend_right_*
contract(F + "extend_right_alignments",
         params={"arr": NdArray("i16", 2), "n": IntT()},
         returns=NdArray("i16", 2),
         requires=["n >= 0"],
         ensures=[cl("shape(result) == (len(arr) + n, shape(arr)[1])", name="shape"),
                  cl("forall(r, 0, len(arr), forall(c, 0, shape(arr)[1], result[r][c] == arr[r][c]))", name="prefix")],
         serves={"C07", "C01", "C02", "C11"})

contract(F + "extend_right_disorders",
         params={"arr": NdArray("f32", 1), "n": IntT()},
         returns=NdArray("f32", 1),
         requires=["n >= 0"],
         ensures=[cl("len(result) == len(arr) + n", name="shape"),
                  cl("forall(r, 0, len(arr), result[r] == arr[r])", name="prefix")],
         serves={"C07", "C01", "C02", "C11"})

# ----------------------------------------------------------------------------------------- build_A
contract(F + "build_A",
         params={"possible_unitary_alignments": NdArray("i16", 2), "sizes": NdArray("i32", 1)},
         returns=NdArray("f32", 2),
         lets={"na": "len(sizes)", "NP": "len(possible_unitary_alignments)", "P": "possible_unitary_alignments"},
         macros=[Macro("off", ["a"], "psum(sizes, a)"),
                 Macro("col_ok", ["M", "k", "upto"],
                       "forall(a, 0, upto, forall(u, 0, sizes[a], M[off(a) + u][k] == (1 if P[k][a] == u else 0)))")],
         requires=["na >= 1", "shape(P)[1] == na", "forall(a, 0, na, sizes[a] >= 0)",
                   "forall(k, 0, NP, forall(a, 0, na, 0 <= P[k][a] and P[k][a] <= sizes[a]))"],
         lemmas=[Lemma("off_monotone", "off(a) <= off(b)", binders=[("a", "Int"), ("b", "Int")],
                       hyps=["0 <= a", "a <= b", "b <= na"], method=("induction", "b", "a"))],
         ensures=[cl("shape(result) == (off(na), NP)", name="shape"),
                  cl("forall(k, 0, NP, col_ok(result, k, na))", "C01 C02 C08 C11", name="incidence")],
         loops={
             "L0": dict(match="for p_id, unit_ids_tuple in enumerate(possible_unitary_alignments)",
                        inv=["shape(A) == (off(na), NP)",
                             "forall(k, 0, p_id, col_ok(A, k, na))",
                             "forall(r, 0, off(na), forall(k, p_id, NP, A[r][k] == 0))"]),
             "L0.0": dict(match="for annotator_id, unit_id in enumerate(unit_ids_tuple)",
                          inv=["0 <= p_id and p_id < NP", "shape(A) == (off(na), NP)",
                               "annotator_units_start == off(annotator_id)",
                               "col_ok(A, p_id, annotator_id)",
                               "forall(r, off(annotator_id), off(na), A[r][p_id] == 0)",
                               "forall(k, 0, p_id, col_ok(A, k, na))",
                               "forall(r, 0, off(na), forall(k, p_id + 1, NP, A[r][k] == 0))"]),
         },
         serves={"C01", "C02", "C08", "C11"})
