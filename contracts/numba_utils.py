"""Contracts for pygamma_agreement/numba_utils.py  (tier A: numeric kernels, unbounded proofs)."""
from pyvc.contract import (contract, cl, global_ghost, GhostFun, Macro, Lemma, NdArray, ListOf, IntT, RealT, TupleOf, FnT)

F = "pygamma_agreement/numba_utils.py::"

# ----------------------------------------------------------------------------------------- extend_right_*
contract(F + "extend_right_alignments",
         params={"arr": NdArray("i16", 2), "n": IntT()},
         returns=NdArray("i16", 2),
         requires=["n >= 0"],
         ensures=[cl("shape(result) == (len(arr) + n, shape(arr)[1])", name="shape"),
                  cl("forall(r, 0, len(arr), forall(c, 0, shape(arr)[1], result[r][c] == arr[r][c]))", name="prefix")],
         serves={"C07", "C01", "C02", "C11"})

contract(F + "extend_right_disorders",
         params={"arr": NdArray("f32", 1), "n": IntT()},
         returns=NdArray("f32", 1),
         requires=["n >= 0"],
         ensures=[cl("len(result) == len(arr) + n", name="shape"),
                  cl("forall(r, 0, len(arr), result[r] == arr[r])", name="prefix")],
         serves={"C07", "C01", "C02", "C11"})

# ----------------------------------------------------------------------------------------- build_A
contract(F + "build_A",
         params={"possible_unitary_alignments": NdArray("i16", 2), "sizes": NdArray("i32", 1)},
         returns=NdArray("f32", 2),
         lets={"na": "len(sizes)", "NP": "len(possible_unitary_alignments)", "P": "possible_unitary_alignments"},
         macros=[Macro("off", ["a"], "psum(sizes, a)"),
                 Macro("col_ok", ["M", "k", "upto"],
                       "forall(a, 0, upto, forall(u, 0, sizes[a], M[off(a) + u][k] == (1 if P[k][a] == u else 0)))")],
         requires=["na >= 1", "shape(P)[1] == na", "forall(a, 0, na, sizes[a] >= 0)",
                   "forall(k, 0, NP, forall(a, 0, na, 0 <= P[k][a] and P[k][a] <= sizes[a]))"],
         lemmas=[Lemma("off_monotone", "off(a) <= off(b)", binders=[("a", "Int"), ("b", "Int")],
                       hyps=["0 <= a", "a <= b", "b <= na"], method=("induction", "b", "a"))],
         ensures=[cl("shape(result) == (off(na), NP)", name="shape"),
                  cl("forall(k, 0, NP, col_ok(result, k, na))", "C01 C02 C08 C11", name="incidence")],
         loops={
             "L0": dict(match="for p_id, unit_ids_tuple in enumerate(possible_unitary_alignments)",
                        inv=["shape(A) == (off(na), NP)",
                             "forall(k, 0, p_id, col_ok(A, k, na))",
                             "forall(r, 0, off(na), forall(k, p_id, NP, A[r][k] == 0))"]),
             "L0.0": dict(match="for annotator_id, unit_id in enumerate(unit_ids_tuple)",
                          inv=["0 <= p_id and p_id < NP", "shape(A) == (off(na), NP)",
                               "annotator_units_start == off(annotator_id)",
                               "col_ok(A, p_id, annotator_id)",
                               "forall(r, off(annotator_id), off(na), A[r][p_id] == 0)",
                               "forall(k, 0, p_id, col_ok(A, k, na))",
                               "forall(r, 0, off(na), forall(k, p_id + 1, NP, A[r][k] == 0))"]),
         },
         serves={"C01", "C02", "C08", "C11"})

# ----------------------------------------------------------------------------------------- iter_tuples (generator)
# ghost: mixed-radix weights w and rank;  the k-th yielded tuple is in the box and has rank k;  exactly P = w(n) yields.
global_ghost("w", "AInt Int -> Int",
             ["forall([(sz, AInt)], w(sz, 0) == 1)",
              "forall([(sz, AInt), a], implies(a >= 0, w(sz, a + 1) == w(sz, a) * sz[a]), pat=[w(sz, a + 1)])"])
global_ghost("rank", "AInt AInt Int -> Int",
             ["forall([(sz, AInt), (t, AInt)], rank(sz, t, 0) == 0)",
              "forall([(sz, AInt), (t, AInt), a], implies(a >= 0, rank(sz, t, a + 1) == rank(sz, t, a) + t[a] * w(sz, a)),"
              " pat=[rank(sz, t, a + 1)])"])
RANK_GHOST = dict(
    ghost_funs=[GhostFun("tmax", "-> AInt")],
    axioms=["forall(j, tmax[j] == sizes[j] - 1)"],          # the all-maximal tuple (definitional)
)
RANK_LEMMAS = [
    Lemma("w_pos", "w(sizes, a) >= 1", binders=[("a", "Int")], hyps=["0 <= a", "a <= nt"], method=("induction", "a", "0")),
    Lemma("rank_bounds", "0 <= rank(sizes, t, a) and rank(sizes, t, a) <= w(sizes, a) - 1",
          binders=[("t", "AInt"), ("a", "Int")],
          hyps=["0 <= a", "a <= nt", "forall(j, 0, a, 0 <= t[j] and t[j] < sizes[j])"],
          method=("induction", "a", "0")),
    Lemma("rank_zeros", "rank(sizes, t, a) == 0", binders=[("t", "AInt"), ("a", "Int")],
          hyps=["0 <= a", "a <= nt", "forall(j, 0, a, t[j] == 0)"], method=("induction", "a", "0")),
    Lemma("rank_max", "rank(sizes, t, a) == w(sizes, a) - 1", binders=[("t", "AInt"), ("a", "Int")],
          hyps=["0 <= a", "a <= nt", "forall(j, 0, a, t[j] == sizes[j] - 1)"], method=("induction", "a", "0")),
    Lemma("rank_suffix", "rank(sizes, t, b) - rank(sizes, t, a) == rank(sizes, t2, b) - rank(sizes, t2, a)",
          binders=[("t", "AInt"), ("t2", "AInt"), ("a", "Int"), ("b", "Int")],
          hyps=["0 <= a", "a <= b", "b <= nt", "forall(j, a, b, t[j] == t2[j])"], method=("induction", "b", "a")),
    Lemma("rank_injective", "forall(j, 0, a, t[j] == t2[j])",
          binders=[("t", "AInt"), ("t2", "AInt"), ("a", "Int")],
          hyps=["0 <= a", "a <= nt", "forall(j, 0, a, 0 <= t[j] and t[j] < sizes[j] and 0 <= t2[j] and t2[j] < sizes[j])",
                "rank(sizes, t, a) == rank(sizes, t2, a)"], method=("induction", "a", "0")),
    Lemma("rank_max_inv", "forall(j, 0, nt, t[j] == sizes[j] - 1)", binders=[("t", "AInt")],
          hyps=["forall(j, 0, nt, 0 <= t[j] and t[j] < sizes[j])", "rank(sizes, t, nt) == w(sizes, nt) - 1"],
          hints=["rank(sizes, tmax, nt) == w(sizes, nt) - 1", "forall(j, 0, nt, 0 <= tmax[j] and tmax[j] < sizes[j])"]),
]

contract(F + "iter_tuples",
         params={"sizes": NdArray("i16", 1)},
         returns=NdArray("i16", 1),           # type of each yielded value
         lets={"nt": "len(sizes)"},
         macros=[Macro("in_box", ["t"], "forall(j, 0, nt, 0 <= t[j] and t[j] < sizes[j])")],
         requires=["nt >= 1", "forall(a, 0, nt, 1 <= sizes[a] and sizes[a] <= 32767)"],
         lemmas=RANK_LEMMAS,
         yields=[cl("len(yielded) == nt", name="len"),
                 cl("in_box(yielded)", "C01 C07 C11", name="in_box"),
                 cl("rank(sizes, yielded, nt) == nyield", "C07 C02", name="rank")],
         count="w(sizes, nt)",
         loops={
             "L0": dict(match="while True",
                        inv=["len(current) == nt", "in_box(current)", "rank(sizes, current, nt) == nyield", "nyield < w(sizes, nt)"],
                        variant="w(sizes, nt) - nyield"),
             "L0.0": dict(match="for i in range(nb_annotators)",
                          inv=["len(current) == nt",
                               "forall(j, 0, i, c0[j] == sizes[j] - 1 and current[j] == 0)",
                               "forall(j, i, nt, current[j] == c0[j])"]),
         },
         hooks=[("after", "yield current", "c0 = current"),
                # proof hints at the carry exit (they name the terms the rank lemmas are instantiated on)
                ("before", "break", "assert rank(sizes, current, i) == 0 and rank(sizes, c0, i) == w(sizes, i) - 1"),
                ("before", "break", "assert rank(sizes, current, i + 1) == current[i] * w(sizes, i) and "
                                    "rank(sizes, c0, i + 1) == w(sizes, i) - 1 + c0[i] * w(sizes, i)"),
                ("before", "break", "assert rank(sizes, current, nt) - rank(sizes, current, i + 1) == rank(sizes, c0, nt) - rank(sizes, c0, i + 1)")],
         ghost_vars={"c0": ("AInt", None)},
         serves={"C01", "C02", "C07", "C11"},
         **RANK_GHOST)
