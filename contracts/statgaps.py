"""StatisticalContinuumSampler._set_gap_information (C15): the gap law measured on the reference.  The list of gaps is defined by the code:
a leading 0, then for every two units adjacent in iteration order that belong to the same annotator the distance from the end of the first
to the start of the second, then the start of every annotator's first unit when it is positive; the parameters are np.mean / np.std of it."""
from pyvc.contract import contract, cl, Macro, NdArray, RealT, ListOf, OptT
from pyvc.heap import ObjT, OptObjT, UnitT as UnitVT
from .types import StrT
from .continuum import CONT, ITER_MACROS
from .sampler import F, STAT

_M = ITER_MACROS + [Macro("ref", [], "some(self._reference_continuum)"),
                    Macro("adjacent_gap", ["g"], "exists(q, 1, NumUnits(ref()), YA[q] == YA[q - 1] and g == YSs[q] - YSe[q - 1])"),
                    Macro("leading_gap", ["g"], "exists(k, 0, Nkeys(ref()), Cnt(ref())[Kseq(ref())[k]] >= 1 and "
                                                 "g == Useq(ref())[Kseq(ref())[k]][0].s and g > 0)")]

contract(F + "StatisticalContinuumSampler._set_gap_information",
         params={"self": STAT()}, modifies=["self._avg_gap", "self._std_gap"], macros=_M,
         requires=["not isnone(self._reference_continuum)", "RI(ref())"],
         ghost_vars={"GAPS": ("AReal", None), "NG": ("Int", None), "YA": ("AReal", None), "YSs": ("AReal", None), "YSe": ("AReal", None)},
         coerce={"gaps": "Real"}, locals={"current_annotator": OptT(StrT()), "last_unit": OptT(UnitVT())},
         ensures=[cl("forall([(a, Real), (u, Unit)], implies(Us(ref())[a][u], YA[flat(ref(), a, u)] == a and YSs[flat(ref(), a, u)] == u.s and "
                     "YSe[flat(ref(), a, u)] == u.e))", "C15", name="the-units-of-the-reference-in-iteration-order"),
                  cl("NG >= 1 and GAPS[0] == 0 and forall(i, 1, NG, adjacent_gap(GAPS[i]) or leading_gap(GAPS[i]))", "C15",
                     name="every-gap-is-a-gap-between-adjacent-units-of-one-annotator-or-a-positive-first-start"),
                  cl("self._avg_gap == rpsum(GAPS, NG) / NG", "C15", name="mean-gap"),
                  cl("self._std_gap == npstd(GAPS, NG)", "C15", name="standard-deviation-of-the-same-gaps")],
         loops={"L0": dict(match="for annotator, unit in self._reference_continuum", index="kz", seq_name="YS",
                           inv=["len(gaps) >= 1", "gaps[0] == 0",
                                "implies(kz >= 1, not isnone(current_annotator) and some(current_annotator) == YS[kz - 1][0] and "
                                "not isnone(last_unit) and some(last_unit) == YS[kz - 1][1])",
                                "implies(kz == 0, isnone(current_annotator))",
                                "forall(i, 1, len(gaps), exists(q, 1, kz, YS[q][0] == YS[q - 1][0] and gaps[i] == YS[q][1].s - YS[q - 1][1].e))"]),
                "L1": dict(match="for annotation_set in self._reference_continuum._annotations.values()", index="ka",
                           inv=["len(gaps) >= 1", "gaps[0] == 0",
                                "forall(i, 1, len(gaps), adjacent_gap(gaps[i]) or leading_gap(gaps[i]))"])},
         hooks=[("before", "for annotator, unit in self._reference_continuum: ...", "model_inv wfmap(ref())"),
                ("after", "for annotator, unit in self._reference_continuum: ...", "YA = lam(q, YS[q][0])"),
                ("after", "for annotator, unit in self._reference_continuum: ...", "YSs = lam(q, YS[q][1].s)"),
                ("after", "for annotator, unit in self._reference_continuum: ...", "YSe = lam(q, YS[q][1].e)"),
                ("after", "self._std_gap = ...", "GAPS = raw(gaps)"),
                ("after", "self._std_gap = ...", "NG = len(gaps)")],
         serves={"C15"})
