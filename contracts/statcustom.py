"""StatisticalContinuumSampler.init_sampling_custom (C15): the sampling laws get exactly the supplied parameters; the reference is a dummy
continuum holding the supplied annotators (one unit each), all of them ground truth."""
from pyvc.contract import contract, cl, Macro, RealT, ListOf, OptT
from .continuum import ITER_MACROS
from .speclib import PSUM_LEMMAS
from .sampler import F, STAT
from .types import StrT

_M = ITER_MACROS + [Macro("ref", [], "some(self._reference_continuum)")]
contract(F + "StatisticalContinuumSampler.init_sampling_custom",
         params={"self": STAT(), "annotators": ListOf(StrT()), "avg_num_units_per_annotator": RealT(), "std_num_units_per_annotator": RealT(),
                 "avg_gap": RealT(), "std_gap": RealT(), "avg_duration": RealT(), "std_duration": RealT(),
                 "categories": ListOf(StrT()), "categories_weight": OptT(ListOf(RealT()))},
         modifies=["self"], macros=_M,
         calls={"super().init_sampling": F + "AbstractContinuumSampler.init_sampling#default"},
         raises={"AssertionError": {"iff": "len(annotators) == 0"},
                 "ValueError": {"iff": "not isnone(categories_weight) and len(some(categories_weight)) != len(categories)"}},
         ensures=[cl("self._avg_nb_units_per_annotator == avg_num_units_per_annotator and self._std_nb_units_per_annotator == std_num_units_per_annotator "
                     "and self._avg_gap == avg_gap and self._std_gap == std_gap and self._avg_unit_duration == avg_duration and "
                     "self._std_unit_duration == std_duration", "C15", name="the-normal-laws-get-the-supplied-parameters"),
                  cl("len(self._categories) == len(categories) and forall(c, 0, len(categories), self._categories[c] == categories[c])", "C15",
                     name="the-supplied-categories"),
                  cl("isnone(self._categories_weight) == isnone(categories_weight) and implies(not isnone(categories_weight), "
                     "len(some(self._categories_weight)) == len(categories) and "
                     "forall(c, 0, len(categories), some(self._categories_weight)[c] == some(categories_weight)[c]))", "C15",
                     name="the-supplied-weights-or-none-for-equiprobable"),
                  cl("not isnone(self._reference_continuum) and not isnone(self._ground_truth_annotators) and "
                     "forall([(a, Real)], members(some(self._ground_truth_annotators))[a] == exists(j, 0, len(annotators), annotators[j] == a)) and "
                     "forall([(a, Real)], Ann(ref())[a] == exists(j, 0, len(annotators), annotators[j] == a))", "C15",
                     name="the-ground-truth-annotators-are-exactly-the-supplied-ones")],
         loops={"L0": dict(match="for annotator in annotators", index="ka", modifies=["reference_dummy"],
                           inv=["RI(reference_dummy)",
                                "forall([(a, Real)], Ann(reference_dummy)[a] == exists(j, 0, ka, annotators[j] == a))",
                                "forall(j, 0, ka, exists([(u, Unit)], Us(reference_dummy)[annotators[j]][u]))"])},
         hooks=[("before", "super().init_sampling(...", "model_inv wfmap(reference_dummy)")],
         serves={"C15"})
