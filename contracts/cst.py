"""Contracts for pygamma_agreement/cst.py (corpus shuffling tool, C19)."""
from pyvc.contract import (contract, cl, GhostFun, Macro, Lemma, NdArray, ListOf, IntT, RealT, BoolT, TupleOf, FnT, OptT, RecT)
from pyvc.heap import ObjT, UnitT, OptObjT, register_class
from .types import StrT, SegT
from .speclib import VIEW_MACROS

F = "pygamma_agreement/cst.py::"
register_class("CorpusShufflingTool", "pygamma_agreement/cst.py")
CONT = lambda: ObjT("Continuum")      # noqa: E731
CST = lambda: ObjT("CorpusShufflingTool", magnitude=RealT(), _reference_annotator=StrT(), _reference_continuum=CONT(),     # noqa: E731
                   _categories=ObjT("SetStr"), SHIFT_FACTOR=RealT(), SPLIT_FACTOR=RealT())
CST_MACROS = VIEW_MACROS + [Macro("ref", [], "self._reference_continuum"), Macro("ra", [], "self._reference_annotator"),
                            Macro("isname", ["a"], "exists(k, 0, len(new_annotators), new_annotators[k] == a)")]

# K1: corpus_from_reference(names): every requested annotator carries exactly the reference annotator's units, bounds copied
contract(F + "CorpusShufflingTool.corpus_from_reference#names",
         params={"self": CST(), "new_annotators": ListOf(StrT())}, returns=CONT(), modifies=[], macros=CST_MACROS,
         requires=["RI(ref())", "Ann(ref())[ra()]", "Cnt(ref())[ra()] >= 1", "ref().bound_inf <= ref().bound_sup",
                   "forall([(l, Real)], implies(Cat(ref())[l], members(self._categories)[l]))"],
         ensures=[cl("fresh_obj(result) and disjoint_state(result, ref()) and disjoint_state(result, self)", "C19 C14", name="independent"),
                  cl("forall([(a, Real)], Ann(result)[a] == isname(a))", "C19", name="K1-exactly-the-requested-annotators"),
                  cl("forall([(a, Real), (u, Unit)], Us(result)[a][u] == (isname(a) and Us(ref())[ra()][u]))", "C19",
                     name="K1-every-annotator-carries-the-reference-units"),
                  cl("result.bound_inf == ref().bound_inf and result.bound_sup == ref().bound_sup", "C19", name="K1-bounds-copied"),
                  cl("forall([(l, Real)], Cat(result)[l] == members(self._categories)[l])", "C19", name="categories-of-the-tool"),
                  cl("RI(result)", "C19", name="RI")],
         loops={"L0": dict(match="for unit in self._reference_continuum.iter_annotator(self._reference_annotator)", index="jU",
                           modifies=["continuum"],
                           inv=["forall([(a, Real)], Ann(continuum)[a] == (isname(a) and jU >= 1))",
                                "forall([(a, Real), (u, Unit)], Us(continuum)[a][u] == (isname(a) and Us(ref())[ra()][u] and Uidx(ref())[ra()][u] < jU))",
                                "continuum.bound_inf == ref().bound_inf and continuum.bound_sup == ref().bound_sup",
                                "forall([(l, Real)], Cat(continuum)[l] == members(self._categories)[l])", "RI(continuum)"]),
                "L0.0": dict(match="for new_annotator in new_annotators", index="kN", modifies=["continuum"],
                             inv=["forall([(a, Real)], Ann(continuum)[a] == (isname(a) and (jU >= 1 or exists(k, 0, kN, new_annotators[k] == a))))",
                                  "forall([(a, Real), (u, Unit)], Us(continuum)[a][u] == (isname(a) and Us(ref())[ra()][u] and "
                                  "(Uidx(ref())[ra()][u] < jU or (Uidx(ref())[ra()][u] == jU and exists(k, 0, kN, new_annotators[k] == a)))))",
                                  "continuum.bound_inf == ref().bound_inf and continuum.bound_sup == ref().bound_sup",
                                  "forall([(l, Real)], Cat(continuum)[l] == members(self._categories)[l])", "RI(continuum)"])},
         hooks=[("before", "for unit in self._reference_continuum.iter_annotator(self._reference_annotator): ...", "model_inv wfmap(ref())")],
         serves={"C19", "C14"})

contract(F + "CorpusShufflingTool.corpus_from_reference#count",
         params={"self": CST(), "new_annotators": IntT()}, returns=CONT(), modifies=[], macros=VIEW_MACROS + [Macro("ref", [], "self._reference_continuum"), Macro("ra", [], "self._reference_annotator"),
                                      Macro("isname", ["a"], "exists(k, 0, old(new_annotators), fstr('annotator_{}', k) == a)")],
         requires=["new_annotators >= 0", "RI(ref())", "Ann(ref())[ra()]", "Cnt(ref())[ra()] >= 1", "ref().bound_inf <= ref().bound_sup",
                   "forall([(l, Real)], implies(Cat(ref())[l], members(self._categories)[l]))"],
         ensures=[cl("fresh_obj(result) and disjoint_state(result, ref()) and disjoint_state(result, self)", "C19 C14", name="independent"),
                  cl("forall([(a, Real)], Ann(result)[a] == isname(a))", "C19", name="K1-exactly-the-requested-annotators"),
                  cl("forall([(a, Real), (u, Unit)], Us(result)[a][u] == (isname(a) and Us(ref())[ra()][u]))", "C19",
                     name="K1-every-annotator-carries-the-reference-units"),
                  cl("result.bound_inf == ref().bound_inf and result.bound_sup == ref().bound_sup", "C19", name="K1-bounds-copied"),
                  cl("forall([(l, Real)], Cat(result)[l] == members(self._categories)[l])", "C19", name="categories-of-the-tool"),
                  cl("RI(result)", "C19", name="RI")],
         loops={"L0": dict(match="for unit in self._reference_continuum.iter_annotator(self._reference_annotator)", index="jU",
                           modifies=["continuum"],
                           inv=["forall([(a, Real)], Ann(continuum)[a] == (isname(a) and jU >= 1))",
                                "forall([(a, Real), (u, Unit)], Us(continuum)[a][u] == (isname(a) and Us(ref())[ra()][u] and Uidx(ref())[ra()][u] < jU))",
                                "continuum.bound_inf == ref().bound_inf and continuum.bound_sup == ref().bound_sup",
                                "forall([(l, Real)], Cat(continuum)[l] == members(self._categories)[l])", "RI(continuum)"]),
                "L0.0": dict(match="for new_annotator in new_annotators", index="kN", modifies=["continuum"],
                             inv=["forall([(a, Real)], Ann(continuum)[a] == (isname(a) and (jU >= 1 or exists(k, 0, kN, fstr('annotator_{}', k) == a))))",
                                  "forall([(a, Real), (u, Unit)], Us(continuum)[a][u] == (isname(a) and Us(ref())[ra()][u] and "
                                  "(Uidx(ref())[ra()][u] < jU or (Uidx(ref())[ra()][u] == jU and exists(k, 0, kN, fstr('annotator_{}', k) == a)))))",
                                  "continuum.bound_inf == ref().bound_inf and continuum.bound_sup == ref().bound_sup",
                                  "forall([(l, Real)], Cat(continuum)[l] == members(self._categories)[l])", "RI(continuum)"])},
         hooks=[("before", "for unit in self._reference_continuum.iter_annotator(self._reference_annotator): ...", "model_inv wfmap(ref())"),
                ("before", "for unit in self._reference_continuum.iter_annotator(self._reference_annotator): ...",
                 "assert len(new_annotators) == old(new_annotators) and forall(k, 0, old(new_annotators), new_annotators[k] == fstr('annotator_{}', k))")],
         serves={"C19", "C14"})

# K4 (false negatives only remove units) + K2 (no annotator is left empty)
FN_MACROS = VIEW_MACROS + [Macro("done", ["a", "k"], "exists(i, 0, k, old(Kseq(continuum))[i] == a)"),
                           Macro("nonempty", ["a"], "exists([(u, Unit)], Us(continuum)[a][u])")]
contract(F + "CorpusShufflingTool.false_neg_shuffle",
         params={"self": CST(), "continuum": CONT()}, modifies=["continuum"], macros=FN_MACROS,
         requires=["RI(continuum)", "not same_obj(continuum, self._reference_continuum)",
                   "forall([(a, Real)], implies(Ann(continuum)[a], exists([(u, Unit)], Us(continuum)[a][u])))"],
         ensures=[cl("Ann(continuum) == old(Ann(continuum))", "C19", name="same-annotators"),
                  cl("forall([(a, Real)], implies(Ann(continuum)[a], exists([(u, Unit)], Us(continuum)[a][u])))", "C19",
                     name="K2-no-annotator-left-empty-membership-form"),
                  cl("forall([(a, Real), (u, Unit)], implies(Us(continuum)[a][u], old(Us(continuum))[a][u]))", "C19", name="K4-only-removes-units"),
                  cl("forall([(a, Real)], implies(done(a, old(Nkeys(continuum))), nonempty(a)))", "C19", name="K2-no-annotator-left-empty"),
                  cl("RI(continuum)", "C19", name="RI")],
         loops={"L0": dict(match="for annotator in continuum.annotators", index="kA", modifies=["continuum"],
                           inv=["Ann(continuum) == old(Ann(continuum))",
                                "forall([(a, Real), (u, Unit)], implies(Us(continuum)[a][u], old(Us(continuum))[a][u]))",
                                "forall([(a, Real)], implies(done(a, kA), nonempty(a)))",
                                "forall([(a, Real)], implies(not done(a, kA), Us(continuum)[a] == old(Us(continuum))[a]))",
                                "continuum.bound_inf == old(continuum.bound_inf) and continuum.bound_sup == old(continuum.bound_sup) and "
                                "Cat(continuum) == old(Cat(continuum))",
                                "RI(continuum)"]),
                "L0.0": dict(match="for unit in list(continuum[annotator])", index="jU", modifies=["continuum"], iter_name="SNAP",
                             inv=["Ann(continuum) == old(Ann(continuum))",
                                  "forall([(a, Real), (u, Unit)], implies(Us(continuum)[a][u], old(Us(continuum))[a][u]))",
                                  "forall([(a, Real)], implies(a != annotator, Us(continuum)[a] == UB[a]))",
                                  "forall(j, jU, len(SNAP), Us(continuum)[annotator][SNAP[j]])",
                                  "forall(j1, 0, len(SNAP), forall(j2, j1 + 1, len(SNAP), SNAP[j1] != SNAP[j2]))",
                                  "continuum.bound_inf == old(continuum.bound_inf) and continuum.bound_sup == old(continuum.bound_sup) and "
                                  "Cat(continuum) == old(Cat(continuum))",
                                  "RI(continuum)"])},
         hooks=[("before", "for annotator in continuum.annotators: ...", "model_inv wfmap(continuum)"),
                ("before", "for annotator in continuum.annotators: ...",
                 "assert forall(k, 0, Nkeys(continuum), Cnt(continuum)[Kseq(continuum)[k]] >= 1)"),
                ("after", "for annotator in continuum.annotators: ...", "model_inv wfmap(continuum)"),
                ("after", "for annotator in continuum.annotators: ...",
                 "assert forall([(a, Real)], implies(Ann(continuum)[a], done(a, old(Nkeys(continuum)))))"),
                ("before", "for unit in list(continuum[annotator]): ...", "UB = Us(continuum)"),
                ("before", "security = ...", "model_inv wfmap(continuum)"),
                ("before", "if len(continuum._annotations[annotator]) == 0: ...", "model_inv wfmap(continuum)")],
         serves={"C19"})

# K4 (shifting): every unit of the result is an old unit of the same annotator whose ends moved by at most shift_max, label kept;
# nothing else changes; with magnitude 0 the corpus is unchanged (K3).  The COUNT clause ("shifting keeps the number of units") needs the
# genericity hypothesis G (a shifted unit may coincide with another unit of the annotator and be merged by the set): bounded only.
SH_MACROS = VIEW_MACROS + [
    Macro("ref", [], "self._reference_continuum"),
    Macro("near", ["u", "v"], "v.haslab == u.haslab and v.lab == u.lab and v.s - u.s <= SM and u.s - v.s <= SM and v.e - u.e <= SM and u.e - v.e <= SM"),
    Macro("image_of_old", ["a", "v"], "exists([(u, Unit)], U0[a][u] and near(u, v))"),
    Macro("done", ["a", "k"], "exists(i, 0, k, old(Kseq(continuum))[i] == a)"),
]
contract(F + "CorpusShufflingTool.shift_shuffle",
         params={"self": CST(), "continuum": CONT()}, modifies=["continuum"], macros=SH_MACROS,
         ghost_vars={"SM": ("Real", None), "U0": ("RUSet", None), "UB": ("RUSet", None)},
         requires=["RI(continuum)", "not same_obj(continuum, self._reference_continuum)", "RI(ref())", "NumUnits(ref()) >= 1",
                   "self.magnitude >= 0", "self.SHIFT_FACTOR == 2"],
         raises={"ValueError": {}},      # a drawn segment not longer than pyannote's precision is rejected by Continuum.add
         ensures=[cl("Ann(continuum) == old(Ann(continuum))", "C19", name="same-annotators"),
                  cl("SM >= 0 and forall([(a, Real), (v, Unit)], implies(Us(continuum)[a][v], exists([(u, Unit)], old(Us(continuum))[a][u] and near(u, v))))",
                     "C19", name="K4-every-unit-is-an-old-unit-of-the-same-annotator-moved-by-at-most-shift_max-label-kept"),
                  cl("implies(self.magnitude == 0, SM == 0)", "C19", name="K3-no-shift-at-magnitude-0"),
                  cl("forall([(a, Real)], implies(exists([(u, Unit)], old(Us(continuum))[a][u]), exists([(v, Unit)], Us(continuum)[a][v])))", "C19",
                     name="K2-no-annotator-becomes-empty"),
                  cl("RI(continuum)", "C19", name="RI")],
         loops={"L0": dict(match="for annotator in continuum.annotators", index="kA", modifies=["continuum"],
                           inv=["Ann(continuum) == old(Ann(continuum))", "RI(continuum)",
                                "forall([(a, Real), (v, Unit)], implies(Us(continuum)[a][v], image_of_old(a, v)))",
                                "forall([(a, Real)], implies(not done(a, kA), Us(continuum)[a] == U0[a]))",
                                "forall([(a, Real)], implies(exists([(u, Unit)], U0[a][u]), exists([(v, Unit)], Us(continuum)[a][v])))"]),
                "L0.0": dict(match="for unit in continuum[annotator]", index="jU", modifies=["continuum"], iter_name="SNAP",
                             inv=["Ann(continuum) == old(Ann(continuum))", "RI(continuum)", "Ann(continuum)[annotator]",
                                  "forall([(a, Real), (v, Unit)], implies(Us(continuum)[a][v], image_of_old(a, v)))",
                                  "forall([(a, Real)], implies(not done(a, kA) and a != annotator, Us(continuum)[a] == U0[a]))",
                                  "members(SNAP) == U0[annotator]",
                                  "forall(j, jU, size(SNAP), Us(continuum)[annotator][seqof(SNAP)[j]])",
                                  "forall([(a, Real)], implies(a != annotator and exists([(u, Unit)], U0[a][u]), exists([(v, Unit)], Us(continuum)[a][v])))",
                                  "implies(jU >= 1, exists([(v, Unit)], Us(continuum)[annotator][v]))"]),
                "L0.0.0": dict(match="while start_seg >= end_seg",
                               inv=["implies(start_seg < end_seg, start_seg - unit.s <= SM and unit.s - start_seg <= SM and "
                                    "end_seg - unit.e <= SM and unit.e - end_seg <= SM)"])},
         hooks=[("before", "for annotator in continuum.annotators: ...", "model_inv wfmap(continuum)"),
                ("before", "continuum.remove(annotator, unit)", "model_inv wfset(SNAP)"),
                ("before", "continuum.remove(annotator, unit)", "assert U0[annotator][unit] and Us(continuum)[annotator][unit]"),
                ("before", "continuum.remove(annotator, unit)", "assert forall(j, jU + 1, size(SNAP), seqof(SNAP)[j] != unit)"),
                ("after", "shift_max = ...", "SM = shift_max"),
                ("after", "shift_max = ...", "U0 = Us(continuum)"),
                ("after", "shift_max = ...", "assert SM >= 0 and implies(self.magnitude == 0, SM == 0)"),
                ("after", "shift_max = ...", "assert forall([(a, Real), (v, Unit)], implies(Us(continuum)[a][v], image_of_old(a, v)))")],
         serves={"C19"})

# K4 (splitting), set level: every unit of the result lies inside an old unit of the same annotator and keeps its label; nothing else changes.
# The two counting clauses (total duration kept, one unit more per announced split) need the genericity hypothesis G and finite-sum
# reasoning over sets: bounded only.
SP_MACROS = VIEW_MACROS + [
    Macro("ref", [], "self._reference_continuum"),
    Macro("inside", ["u", "v"], "v.haslab == u.haslab and v.lab == u.lab and u.s <= v.s and v.e <= u.e"),
    Macro("piece_of_old", ["a", "v"], "exists([(u, Unit)], U0[a][u] and inside(u, v))"),
    Macro("U_before_pop", ["a", "u"], "UP[a][u] and piece_of_old(a, u) and u.e - u.s > 1e-6"),
]
contract(F + "CorpusShufflingTool.splits_shuffle",
         params={"self": CST(), "continuum": CONT()}, modifies=["continuum"], macros=SP_MACROS,
         ghost_vars={"U0": ("RUSet", None), "UP": ("RUSet", None)},
         requires=["RI(continuum)", "not same_obj(continuum, self._reference_continuum)", "RI(ref())", "Nkeys(ref()) >= 1",
                   "forall([(a, Real)], implies(Ann(continuum)[a], exists([(u, Unit)], Us(continuum)[a][u])))", "self.SPLIT_FACTOR == 2.5"],
         raises={"ValueError": {}},
         ensures=[cl("Ann(continuum) == old(Ann(continuum))", "C19", name="same-annotators"),
                  cl("forall([(a, Real), (v, Unit)], implies(Us(continuum)[a][v], exists([(u, Unit)], old(Us(continuum))[a][u] and inside(u, v))))",
                     "C19", name="K4-every-unit-is-a-piece-of-an-old-unit-of-the-same-annotator-label-kept"),
                  cl("forall([(a, Real)], implies(Ann(continuum)[a], exists([(u, Unit)], Us(continuum)[a][u])))", "C19", name="K2-no-annotator-becomes-empty"),
                  cl("RI(continuum)", "C19", name="RI")],
         loops={"L0": dict(match="for _ in range(int(self.magnitude * self.SPLIT_FACTOR * ...", modifies=["continuum"],
                           inv=["Ann(continuum) == old(Ann(continuum))", "RI(continuum)",
                                "forall([(a, Real), (v, Unit)], implies(Us(continuum)[a][v], piece_of_old(a, v)))",
                                "forall([(a, Real)], implies(Ann(continuum)[a], exists([(u, Unit)], Us(continuum)[a][u])))"]),
                "L0.0": dict(match="for annotator in continuum.annotators", index="kA", modifies=["continuum"],
                             inv=["Ann(continuum) == old(Ann(continuum))", "RI(continuum)",
                                  "forall([(a, Real), (v, Unit)], implies(Us(continuum)[a][v], piece_of_old(a, v)))",
                                  "forall([(a, Real)], implies(Ann(continuum)[a], exists([(u, Unit)], Us(continuum)[a][u])))"])},
         hooks=[("before", "@entry", "U0 = Us(continuum)"),
                ("before", "@entry", "model_inv wfmap(continuum)"),
                ("before", "units = ...", "model_inv wfmap(continuum)"),
                ("before", "units = ...", "assert Ann(continuum)[annotator] and Cnt(continuum)[annotator] >= 1"),
                ("after", "to_split = ...", "assert U_before_pop(annotator, to_split)"),
                ("before", "to_split = ...", "UP = Us(continuum)")],
         serves={"C19"})

# ---- the perturbation that stays outside the encoding (transition matrices): an ASSUMED set-level contract, exercised by the bounded
#      oracle of corpus_shuffle; what the composition below needs of it.  (false_pos_shuffle is proved: contracts/catw.py)
NONEMPTY_ALL = "forall([(a, Real)], implies(Ann(continuum)[a], exists([(u, Unit)], Us(continuum)[a][u])))"
for _name, _extra, _note in (
        ("category_shuffle", [cl("forall([(a, Real), (v, Unit)], implies(Us(continuum)[a][v], exists([(u, Unit)], old(Us(continuum))[a][u] and "
                                 "u.s == v.s and u.e == v.e)))", "C19", name="K4-keeps-all-segments")],
         "category shuffling re-labels units in place: every segment is an old segment of the same annotator"),):
    contract(F + "CorpusShufflingTool." + _name,
             params={"self": CST(), "continuum": CONT()}, modifies=["continuum"], macros=VIEW_MACROS, trusted=True,
             requires=["RI(continuum)", "not same_obj(continuum, self._reference_continuum)", NONEMPTY_ALL],
             raises={"ValueError": {}},
             ensures=[cl("Ann(continuum) == old(Ann(continuum))", "C19", name="same-annotators"), cl(NONEMPTY_ALL, "C19", name="K2-no-annotator-becomes-empty"),
                      cl("RI(continuum)", "C19", name="RI")] + _extra,
             notes="ASSUMED: " + _note, serves={"C19"})

# K2: the corpus has exactly the requested annotators (plus the reference annotator when asked), none of them empty, for EVERY combination of flags
CSH_MACROS = VIEW_MACROS + [Macro("ref", [], "self._reference_continuum"), Macro("ra", [], "self._reference_annotator"),
                            Macro("isname", ["a"], "exists(k, 0, len(annotators), annotators[k] == a)")]
for _v, _T, _isname, _nonempty in (
        ("names", ListOf(StrT()), "exists(k, 0, len(annotators), annotators[k] == a)", "len(annotators) >= 1"),
        ("count", IntT(), "exists(k, 0, annotators, fstr('annotator_{}', k) == a)", "annotators >= 1")):
    contract(F + "CorpusShufflingTool.corpus_shuffle#" + _v,
             params={"self": CST(), "annotators": _T, "shift": BoolT(), "false_pos": BoolT(), "false_neg": BoolT(), "split": BoolT(),
                     "cat_shuffle": BoolT(), "include_ref": BoolT()}, returns=CONT(), modifies=[], macros=CSH_MACROS[:-1] + [Macro("isname", ["a"], _isname)],
             calls={"self.corpus_from_reference": F + "CorpusShufflingTool.corpus_from_reference#" + _v},
             requires=["RI(ref())", "Ann(ref())[ra()]", "Cnt(ref())[ra()] >= 1", "ref().bound_inf <= ref().bound_sup", "NumUnits(ref()) >= 1",
                       "Nkeys(ref()) >= 1", "Kseq(ref())[0] == ra()",
                       "forall([(l, Real)], implies(Cat(ref())[l], members(self._categories)[l]))",
                       "self.magnitude >= 0", "self.SHIFT_FACTOR == 2", "self.SPLIT_FACTOR == 2.5", _nonempty,
                       # false positives draw their labels with Continuum.category_weights, a sorted map keyed by the labels in use: None is no key
                       "implies(false_pos, forall([(a, Real), (u, Unit)], implies(Us(ref())[a][u], u.haslab)))"],
             raises={"ValueError": {}, "AssertionError": {"iff": "include_ref and isname(ra())"}},
             ensures=[cl("fresh_obj(result) and disjoint_state(result, ref())", "C19 C14", name="independent"),
                      cl("forall([(a, Real)], Ann(result)[a] == (isname(a) or (include_ref and a == ra())))", "C19",
                         name="K2-exactly-the-requested-annotators-plus-the-reference-when-asked"),
                      cl("forall([(a, Real)], implies(Ann(result)[a], exists([(u, Unit)], Us(result)[a][u])))", "C19", name="K2-no-annotator-is-empty"),
                      cl("RI(result)", "C19", name="K2-only-valid-units-and-known-categories"),
                      cl("implies(include_ref, forall([(u, Unit)], Us(result)[ra()][u] == Us(ref())[ra()][u]))", "C19",
                         name="the-reference-annotator-carries-the-reference-units")],
             loops={"L0": dict(match="for unit in self._reference_continuum[next(iter(self._reference_continuum.annotators))]", index="jR",
                               modifies=["continuum"], iter_name="RSNAP",
                               inv=["RI(continuum)", "forall([(a, Real)], Ann(continuum)[a] == (isname(a) or (jR >= 1 and a == ra())))",
                                    "forall([(a, Real)], implies(isname(a), exists([(u, Unit)], Us(continuum)[a][u])))",
                                    "forall([(u, Unit)], Us(continuum)[ra()][u] == exists(j, 0, jR, seqof(RSNAP)[j] == u))",
                                    "members(RSNAP) == Us(ref())[ra()] and size(RSNAP) == Cnt(ref())[ra()]"])},
             hooks=[("after", "continuum = self.corpus_from_reference(annotators)", "model_inv wfmap(ref())"),
                    ("after", "continuum = self.corpus_from_reference(annotators)",
                     "assert forall([(a, Real)], implies(Ann(continuum)[a], exists([(u, Unit)], Us(continuum)[a][u])))")],
             serves={"C19", "C14"})

# the constructor establishes what the other contracts require of the tool: the reference annotator is the first annotator of the reference,
# the tool's category set is a COPY of the reference's (C14) enlarged by the extra categories
contract(F + "CorpusShufflingTool.__init__",
         params={"self": CST(), "magnitude": RealT(), "reference_continuum": CONT(), "categories": OptT(ListOf(StrT()))},
         modifies=["self"], macros=VIEW_MACROS,
         requires=["Nkeys(reference_continuum) >= 1"],
         binds={"self._reference_continuum": "reference_continuum"},
         ensures=[cl("self.magnitude == magnitude", "C19", name="magnitude-stored"),
                  cl("self._reference_annotator == Kseq(reference_continuum)[0] and Ann(reference_continuum)[self._reference_annotator]", "C19",
                     name="the-reference-annotator-is-the-first-annotator-of-the-reference"),
                  cl("fresh_obj(self._categories) and not same_obj(self._categories, reference_continuum._categories)", "C19 C14",
                     name="the-tool's-category-set-is-its-own"),
                  cl("forall([(l, Real)], members(self._categories)[l] == (Cat(reference_continuum)[l] or "
                     "(not isnone(categories) and exists(k, 0, len(some(categories)), some(categories)[k] == l))))", "C19",
                     name="categories-of-the-reference-plus-the-extra-ones")],
         loops={"L0": dict(match="for category in categories", index="kC", modifies=["self._categories"],
                           inv=["forall([(l, Real)], members(self._categories)[l] == (Cat(reference_continuum)[l] or "
                                "exists(k, 0, kC, some(categories)[k] == l)))",
                                "fresh_obj(self._categories) and not same_obj(self._categories, reference_continuum._categories)"])},
         hooks=[("before", "@entry", "model_inv wfmap(reference_continuum)")],
         serves={"C19", "C14"})
