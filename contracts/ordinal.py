"""Contracts of the ordinal / numerical categorical dissimilarities (C04): the matrix the constructor builds does not depend on the order in
which the labels were supplied - the entry of two category NAMES is the distance of the positions given to those names, over the largest
distance (at least 1).

The constructor sorts with np.argsort and indexes the matrix by sorted rank; PrecomputedCategoricalDissimilarity reads it by the index of
the name in SortedSet(labels).  That the two enumerations coincide is the lemma `sorted_enumeration_unique` (two strictly increasing
enumerations of one finite set are equal), proved by induction."""
from pyvc.contract import (contract, cl, Macro, Lemma, NdArray, ListOf, RealT, OptT)
from pyvc.heap import ObjT, OptObjT, register_class as _register_class
from .types import StrT, StrListOf
from .dissimilarity import F, DMAT

_register_class("OrdinalCategoricalDissimilarity", "pygamma_agreement/dissimilarity.py",
                ["PrecomputedCategoricalDissimilarity", "CategoricalDissimilarity", "AbstractDissimilarity"])
ORDD = lambda: ObjT("OrdinalCategoricalDissimilarity", delta_empty=RealT(), d_mat=DMAT, categories=OptObjT(ObjT("SetStr")),   # noqa: E731
                    _matrix=NdArray("f32", 2))

SORT_LEMMAS = [
    Lemma("sorted_enumeration_unique", "forall(i, 0, k, s[i] == t[i])",
          binders=[("s", "AReal"), ("t", "AReal"), ("n", "Int"), ("k", "Int")],
          hyps=["0 <= k", "k <= n",
                "forall(i, 0, n, forall(j, 0, i, s[j] < s[i]))", "forall(i, 0, n, forall(j, 0, i, t[j] < t[i]))",
                "forall(i, 0, n, exists(j, 0, n, t[j] == s[i]))", "forall(i, 0, n, exists(j, 0, n, s[j] == t[i]))"],
          method=("induction", "k", "0", "fixed")),
]

ORD_MACROS = [
    Macro("CATS", [], "some(self.categories)"),
    Macro("nodup", [], "forall(k, 0, len(labels), forall(m, 0, k, labels[m] != labels[k]))"),
    Macro("rankof", ["k"], "idxof(CATS())[labels[k]]"),
]


def _ordinal(variant, ptype, pos, extra_requires, extra_hooks):
    contract(F + "OrdinalCategoricalDissimilarity.__init__#" + variant,
             params={"self": ORDD(), "labels": ListOf(StrT()), "p": ptype, "delta_empty": RealT()}, modifies=["self"],
             macros=ORD_MACROS + [Macro("P", ["k"], pos)], lemmas=SORT_LEMMAS,
             ghost_vars={"MAXV": ("Real", None), "IDX": ("AInt", None), "INV": ("AInt", None), "N": ("Int", None)},
             calls={"super().__init__": F + "PrecomputedCategoricalDissimilarity.__init__"},
             requires=["len(labels) <= 32767"] + extra_requires,
             raises={"ValueError": {}, "AssertionError": {}},
             ensures=[cl("nodup()", "C04", name="labels-without-duplicates-else-ValueError"),
                      cl("not isnone(self.categories) and forall([(l, Real)], members(CATS())[l] == exists(k, 0, len(labels), labels[k] == l))",
                         "C04", name="categories-are-the-set-of-the-labels-whatever-their-order"),
                      cl("size(CATS()) == len(labels) and shape(self._matrix) == (len(labels), len(labels)) and MAXV >= 1", "C04",
                         name="one-row-and-column-per-label"),
                      cl("forall(k, 0, len(labels), forall(m, 0, len(labels), "
                         "self._matrix[rankof(k)][rankof(m)] * MAXV == abs(P(k) - P(m)) and abs(P(k) - P(m)) <= MAXV))", "C04",
                         name="entry-of-two-names-is-the-distance-of-their-positions-over-the-largest-distance-whatever-the-order-supplied")],
             loops={"L0": dict(match="for i_sorted, i in enumerate(indexes)", index="ia",
                               inv=["shape(matrix) == (N, N)", "max_val >= 1",
                                    "forall(a, 0, ia, forall(b, 0, N, matrix[a][b] == abs(P(IDX[a]) - P(IDX[b])) and matrix[a][b] <= max_val))"]),
                    "L0.0": dict(match="for j_sorted, j in enumerate(indexes)", index="ib",
                                 inv=["shape(matrix) == (N, N)", "max_val >= 1",
                                      "forall(a, 0, ia, forall(b, 0, N, matrix[a][b] == abs(P(IDX[a]) - P(IDX[b])) and matrix[a][b] <= max_val))",
                                      "forall(b, 0, ib, matrix[ia][b] == abs(P(IDX[ia]) - P(IDX[b])) and matrix[ia][b] <= max_val)"])},
             hooks=extra_hooks + [
                 ("after", "indexes = ...", "IDX = raw(indexes)"),
                 ("after", "indexes = ...", "INV = argsort_inverse()"),
                 ("after", "indexes = ...", "N = len(labels)"),
                 ("after", "matrix /= max_val", "MAXV = max_val"),
                 ("after", "matrix /= max_val", "assert forall(a, 0, N, forall(b, 0, N, matrix[a][b] * MAXV == abs(P(IDX[a]) - P(IDX[b])) and "
                                                "abs(P(IDX[a]) - P(IDX[b])) <= MAXV))"),
                 # the argsort enumeration is strictly increasing (no duplicates), and enumerates exactly the category set
                 ("before", "super().__init__...", "assert forall(a, 0, N, forall(b, 0, a, labels[IDX[b]] < labels[IDX[a]]))"),
                 ("after", "super().__init__...", "assert size(CATS()) == N"),
                 ("after", "super().__init__...", "assert forall(a, 0, N, 0 <= IDX[a] and IDX[a] < N and members(CATS())[labels[IDX[a]]])"),
                 ("after", "super().__init__...", "assert forall(a, 0, N, 0 <= idxof(CATS())[labels[IDX[a]]] and idxof(CATS())[labels[IDX[a]]] < N and "
                                                  "seqof(CATS())[idxof(CATS())[labels[IDX[a]]]] == labels[IDX[a]])"),
                 ("after", "super().__init__...", "assert forall(a, 0, N, exists(j, 0, N, seqof(CATS())[j] == labels[IDX[a]]))"),
                 ("after", "super().__init__...", "assert forall(k, 0, N, 0 <= INV[k] and INV[k] < N and IDX[INV[k]] == k)"),
                 ("after", "super().__init__...", "assert forall(i, 0, N, members(CATS())[seqof(CATS())[i]])"),
                 ("after", "super().__init__...", "assert forall(i, 0, N, exists(k, 0, N, labels[k] == seqof(CATS())[i]))"),
                 ("after", "super().__init__...", "assert forall(i, 0, N, exists(k, 0, N, labels[k] == seqof(CATS())[i] and IDX[INV[k]] == k and 0 <= INV[k] and INV[k] < N))"),
                 ("after", "super().__init__...", "assert forall(i, 0, N, exists(j, 0, N, labels[IDX[j]] == seqof(CATS())[i]))"),
                 ("after", "super().__init__...", "use sorted_enumeration_unique(s=seqof(CATS()), t=lam(a, labels[IDX[a]]), n=N, k=N)"),
                 ("after", "super().__init__...", "assert forall(a, 0, N, seqof(CATS())[a] == labels[IDX[a]])"),
                 ("after", "super().__init__...", "assert forall(k, 0, N, rankof(k) == INV[k] and 0 <= INV[k] and INV[k] < N and IDX[INV[k]] == k)"),
                 ("after", "super().__init__...", "assert forall(a, 0, N, forall(b, 0, N, self._matrix[a][b] * MAXV == abs(P(IDX[a]) - P(IDX[b])) and "
                                                  "abs(P(IDX[a]) - P(IDX[b])) <= MAXV))"),
                 ("after", "super().__init__...", "assert forall(k, 0, N, forall(m, 0, N, self._matrix[INV[k]][INV[m]] * MAXV == abs(P(k) - P(m)) and "
                                                  "abs(P(k) - P(m)) <= MAXV))"),
             ],
             serves={"C04"})


_ordinal("default", OptT(ListOf(RealT())), "toreal(k)", ["isnone(p)"], [])
_ordinal("given", NdArray("f32", 1), "p[k]", [], [])

# numerical family: the position of a label is the number it denotes
_register_class("NumericalCategoricalDissimilarity", "pygamma_agreement/dissimilarity.py",
                ["OrdinalCategoricalDissimilarity", "PrecomputedCategoricalDissimilarity", "CategoricalDissimilarity", "AbstractDissimilarity"])
NUMD = lambda: ObjT("NumericalCategoricalDissimilarity", delta_empty=RealT(), d_mat=DMAT, categories=OptObjT(ObjT("SetStr")),   # noqa: E731
                    _matrix=NdArray("f32", 2))
contract(F + "NumericalCategoricalDissimilarity.__init__",
         params={"self": NUMD(), "labels": StrListOf(), "delta_empty": RealT()}, modifies=["self"],
         macros=ORD_MACROS, ghost_vars={"MAXV": ("Real", None)},
         calls={"super().__init__": F + "OrdinalCategoricalDissimilarity.__init__#given"},
         requires=["len(labels) <= 32767"],
         raises={"ValueError": {}, "AssertionError": {}},
         hooks=[("after", "super().__init__...", "MAXV = ghost('MAXV')")],
         ensures=[cl("forall(k, 0, len(labels), isnumeric(labels[k]))", "C04", name="every-label-is-a-number-literal-else-ValueError"),
                  cl("nodup()", "C04", name="labels-without-duplicates-else-ValueError"),
                  cl("not isnone(self.categories) and forall([(l, Real)], members(CATS())[l] == exists(k, 0, len(labels), labels[k] == l))",
                     "C04", name="categories-are-the-set-of-the-labels-whatever-their-order"),
                  cl("size(CATS()) == len(labels) and shape(self._matrix) == (len(labels), len(labels)) and MAXV >= 1", "C04",
                     name="one-row-and-column-per-label"),
                  cl("forall(k, 0, len(labels), forall(m, 0, len(labels), "
                     "self._matrix[rankof(k)][rankof(m)] * MAXV == abs(numval(labels[k]) - numval(labels[m])) and "
                     "abs(numval(labels[k]) - numval(labels[m])) <= MAXV))", "C04",
                     name="entry-of-two-names-is-the-distance-of-the-numbers-they-denote-over-the-largest-distance")],
         serves={"C04"})
