"""Specification vocabulary shared by the tier-B contracts (DESIGN.md section 2).

View of a continuum c:   Ann(c) : annotator -> Bool        Us(c) : annotator -> (Unit -> Bool)      Cat(c) : label -> Bool
                          c.bound_inf, c.bound_sup           c.best_window_size (.isinf / .val)
Enumerations (ghost):     Nkeys(c), Kseq(c)[k]  annotators ascending;   Cnt(c)[a], Useq(c)[a][j]  units ascending
Representation invariant RI(c): units only under known annotators, longer than the segment precision, labels within the
category set, within the bounds."""
from pyvc.contract import Macro, Lemma

RI = Macro("RI", ["c"],
           "forall([(a, Real), (u, Unit)], implies(Us(c)[a][u], Ann(c)[a] and u.e - u.s > 1e-6 and "
           "implies(u.haslab, Cat(c)[u.lab]) and c.bound_inf <= u.s and u.e <= c.bound_sup and implies(not u.haslab, u.lab == 0)))")
SAME_VIEW = Macro("same_view", ["c"],
                  "Ann(c) == old(Ann(c)) and Us(c) == old(Us(c)) and Cat(c) == old(Cat(c)) and "
                  "c.bound_inf == old(c.bound_inf) and c.bound_sup == old(c.bound_sup) and c.best_window_size == old(c.best_window_size)")
EMPTY_U = Macro("no_units", ["S"], "forall([(u, Unit)], not S[u])")
NUM_UNITS = Macro("NumUnits", ["c"], "psum(lam(k, Cnt(c)[Kseq(c)[k]]), Nkeys(c))")
VIEW_MACROS = [RI, SAME_VIEW, EMPTY_U, NUM_UNITS]

# lemmas about the ghost prefix sum (proved by induction wherever they are listed, exported to callers)
PSUM_LEMMAS = [
    Lemma("psum_ext_int", "psum(f, k) == psum(g, k)", binders=[("f", "AInt"), ("g", "AInt"), ("k", "Int")],
          hyps=["0 <= k", "forall(i, 0, k, f[i] == g[i])"], method=("induction", "k", "0")),
    Lemma("psum_ext_real", "rpsum(f, k) == rpsum(g, k)", binders=[("f", "AReal"), ("g", "AReal"), ("k", "Int")],
          hyps=["0 <= k", "forall(i, 0, k, f[i] == g[i])"], method=("induction", "k", "0")),
    Lemma("psum_nonneg", "psum(f, k) >= 0", binders=[("f", "AInt"), ("k", "Int")],
          hyps=["0 <= k", "forall(i, 0, k, f[i] >= 0)"], method=("induction", "k", "0")),
    Lemma("psum_dec", "psum(g, k) == psum(f, k) - 1", binders=[("f", "AInt"), ("g", "AInt"), ("i0", "Int"), ("k", "Int")],
          hyps=["0 <= i0", "i0 < k", "forall(i, 0, k, implies(i != i0, g[i] == f[i]))", "g[i0] == f[i0] - 1"],
          method=("induction", "k", "i0 + 1"), pats=[("psum(g, k)", "psum(f, k)", "g[i0]")]),
    Lemma("rpsum_pos", "rpsum(f, k) > 0", binders=[("f", "AReal"), ("k", "Int")],
          hyps=["1 <= k", "forall(i, 0, k, f[i] > 0)"], method=("induction", "k", "1")),
    Lemma("psum_pos", "psum(f, k) >= 1", binders=[("f", "AInt"), ("i0", "Int"), ("k", "Int")],
          hyps=["0 <= i0", "i0 < k", "forall(i, 0, k, f[i] >= 0)", "f[i0] >= 1"], method=("induction", "k", "i0 + 1")),
]
