"""Throw-away spike: direct-effect scan + call graph over pygamma_agreement to see what the effect clauses must say."""
import ast, pathlib, collections
PK = pathlib.Path("/repo/pygamma_agreement")
funcs = {}   # qualname -> (module, node)
for f in PK.glob("*.py"):
    if f.name in ("notebook.py",): continue
    t = ast.parse(f.read_text())
    def visit(node, prefix):
        for n in node.body if hasattr(node, "body") else []:
            if isinstance(n, (ast.FunctionDef,)):
                q = f"{f.stem}.{prefix}{n.name}"; funcs[q] = (f.stem, n); visit(n, prefix + n.name + ".<locals>.")
            elif isinstance(n, ast.ClassDef): visit(n, prefix + n.name + ".")
    visit(t, "")
byname = collections.defaultdict(list)
for q in funcs: byname[q.split(".")[-1]].append(q)
def direct(node):
    eff = set(); calls = set()
    for n in ast.walk(node):
        if isinstance(n, (ast.FunctionDef,)) and n is not node: continue
        if isinstance(n, ast.Call):
            s = ast.unparse(n.func)
            if s.startswith(("np.random.", "numpy.random.")): eff.add("rng:numpy")
            elif s.startswith("random."): eff.add("rng:stdlib")
            elif s in ("set", "frozenset"): eff.add("hash_order?")
            elif s in ("open", "print") or s.startswith(("time.", "logging.")): eff.add("io")
            name = s.split(".")[-1]; calls.add(name)
        if isinstance(n, ast.Attribute) and isinstance(n.ctx, ast.Load): calls.add(n.attr)   # property access
        if isinstance(n, (ast.Assign, ast.AugAssign)):
            for t in (n.targets if isinstance(n, ast.Assign) else [n.target]):
                for tt in ast.walk(t):
                    if isinstance(tt, ast.Attribute) and isinstance(tt.ctx, ast.Store): eff.add("write:" + ast.unparse(tt))
    return eff, {c for c in calls if c in byname}
D = {q: direct(n) for q, (m, n) in funcs.items()}
def closure(root):
    seen = set(); stack = [root]; eff = collections.defaultdict(set)
    while stack:
        q = stack.pop()
        if q in seen: continue
        seen.add(q); e, calls = D[q]
        for x in e: eff[x].add(q)
        for c in calls: stack.extend(byname[c])
    return eff, seen
for root in ["continuum._compute_best_alignment_job", "continuum._compute_fast_alignment_job", "continuum._compute_soft_alignment_job", "continuum._compute_gamma_k_job"]:
    eff, seen = closure(root)
    print(root, f"reaches {len(seen)} functions")
    for k in sorted(eff):
        if k.startswith(("rng", "hash", "write")): print("   ", k, "<-", sorted(eff[k])[:6])
