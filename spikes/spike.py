"""Throw-away spike: mechanical VC generation for numba_utils.build_A from the real source.
Forward symbolic execution, loops cut by sidecar invariants, z3 discharge."""
import ast, sys, time, hashlib
from z3 import *
SRC = "/repo/pygamma_agreement/numba_utils.py"
tree = ast.parse(open(SRC).read())
fn = next(n for n in ast.walk(tree) if isinstance(n, ast.FunctionDef) and n.name == "build_A")
I = IntSort(); A2 = ArraySort(I, ArraySort(I, I))
obligations = []
class Arr:  # value-semantic ndarray: z3 array + dims
    def __init__(s, z, dims): s.z, s.dims = z, dims
def fresh(name, sort, _c=[0]):
    _c[0] += 1; return Const(f"{name}!{_c[0]}", sort)
# ---- spec side (sidecar) -----------------------------------------------------------
n, N = Ints("n N")
P = Arr(Const("P", A2), [N, n]); sizes = Arr(Const("sizes", ArraySort(I, I)), [n])
off = Const("off", ArraySort(I, I))
a2, u, k, r = Ints("a2 u k r")
AX = And(n >= 1, N >= 0, off[0] == 0,
         ForAll(a2, Implies(And(0 <= a2, a2 < n), And(sizes.z[a2] >= 0, off[a2 + 1] == off[a2] + sizes.z[a2]))),
         ForAll([a2, u], Implies(And(0 <= a2, a2 <= u, u <= n), off[a2] <= off[u])),   # lemma off_monotone
         ForAll([k, a2], Implies(And(0 <= k, k < N, 0 <= a2, a2 < n), And(0 <= P.z[k][a2], P.z[k][a2] <= sizes.z[a2]))))
def col_ok(A, kc, upto):
    return ForAll([a2, u], Implies(And(0 <= a2, a2 < upto, 0 <= u, u < sizes.z[a2]),
                                   A[off[a2] + u][kc] == If(P.z[kc][a2] == u, 1, 0)))
def inv_outer(env):
    A, p = env["A"].z, env["p_id"]
    return And(0 <= p, p <= N, ForAll(k, Implies(And(0 <= k, k < p), col_ok(A, k, n))),
               ForAll([r, k], Implies(And(0 <= r, r < off[n], p <= k, k < N), A[r][k] == 0)))
def inv_inner(env):
    A, p, a, st = env["A"].z, env["p_id"], env["annotator_id"], env["annotator_units_start"]
    return And(0 <= p, p < N, 0 <= a, a <= n, st == off[a], col_ok(A, p, a),
               ForAll(r, Implies(And(off[a] <= r, r < off[n]), A[r][p] == 0)),
               ForAll(k, Implies(And(0 <= k, k < p), col_ok(A, k, n))),
               ForAll([r, k], Implies(And(0 <= r, r < off[n], p < k, k < N), A[r][k] == 0)))
INV = {0: (inv_outer, ["A", "p_id"]), 1: (inv_inner, ["A", "annotator_id", "annotator_units_start"])}
def post(env, ret): return And(ForAll(k, Implies(And(0 <= k, k < N), col_ok(ret.z, k, n))))
# ---- engine ------------------------------------------------------------------------
loop_counter = [0]
def ev(e, env):
    if isinstance(e, ast.Constant): return IntVal(e.value)
    if isinstance(e, ast.Name): return env[e.id]
    if isinstance(e, ast.BinOp) and isinstance(e.op, ast.Add): return ev(e.left, env) + ev(e.right, env)
    if isinstance(e, ast.Compare) and isinstance(e.ops[0], ast.NotEq): return ev(e.left, env) != ev(e.comparators[0], env)
    if isinstance(e, ast.Subscript):
        base = ev(e.value, env); idx = e.slice
        idxs = [ev(x, env) for x in (idx.elts if isinstance(idx, ast.Tuple) else [idx])]
        z = base.z
        for d, i in enumerate(idxs):
            obligations.append((f"index_in_bounds@{e.lineno}", And(*env["$pc"]), And(0 <= i, i < base.dims[d])))
            z = z[i]
        return Arr(z, base.dims[len(idxs):]) if len(idxs) < len(base.dims) else z
    if isinstance(e, ast.Call):
        f = ast.unparse(e.func)
        if f == "np.sum": return off[n]            # model: np.sum(sizes) == off[n] (ghost prefix sum; lemma)
        if f == "len": return ev(e.args[0], env).dims[0]
        if f == "np.zeros":
            dims = [ev(x, env) for x in e.args[0].elts]; z = fresh("zeros", A2)
            env["$pc"].append(ForAll([r, k], z[r][k] == 0)); return Arr(z, dims)
    raise NotImplementedError(ast.dump(e))
def assign(t, v, env):
    if isinstance(t, ast.Name): env[t.id] = v
    elif isinstance(t, ast.Subscript):
        base = env[t.value.id]; i, j = [ev(x, env) for x in t.slice.elts]
        for d, x in enumerate((i, j)):
            obligations.append((f"store_in_bounds@{t.lineno}", And(*env["$pc"]), And(0 <= x, x < base.dims[d])))
        env[t.value.id] = Arr(Store(base.z, i, Store(base.z[i], j, v)), base.dims)
def run(stmts, env):
    for s in stmts:
        if isinstance(s, ast.Assign): assign(s.targets[0], ev(s.value, env), env)
        elif isinstance(s, ast.AugAssign): assign(s.target, ev(ast.BinOp(s.target, s.op, s.value), env), env)
        elif isinstance(s, ast.If):
            c = ev(s.test, env); e1 = dict(env); e1["$pc"] = env["$pc"] + [c]; run(s.body, e1)
            for kx in list(env):   # merge (no else branch here)
                if kx != "$pc" and isinstance(env[kx], Arr): env[kx] = Arr(If(c, e1[kx].z, env[kx].z), env[kx].dims)
                elif kx != "$pc": env[kx] = If(c, e1[kx], env[kx])
        elif isinstance(s, ast.For):   # for idx, elt in enumerate(seq)
            lid = loop_counter[0]; loop_counter[0] += 1
            inv, mods = INV[lid]; ivar, evar = [t.id for t in s.target.elts]
            seq = ev(s.iter.args[0], env)
            env[ivar] = IntVal(0)
            obligations.append((f"L{lid}/inv_init", And(*env["$pc"]), inv(env)))
            for m in mods + [ivar]:   # havoc
                env[m] = Arr(fresh(m, A2), env[m].dims) if isinstance(env.get(m), Arr) else fresh(m, I)
            head = dict(env); head["$pc"] = env["$pc"] + [inv(head)]
            body = dict(head); body["$pc"] = head["$pc"] + [body[ivar] < seq.dims[0]]
            body[evar] = Arr(seq.z[body[ivar]], seq.dims[1:]) if len(seq.dims) > 1 else seq.z[body[ivar]]
            run(s.body, body); body[ivar] = body[ivar] + 1
            obligations.append((f"L{lid}/inv_preserved", And(*body["$pc"]), inv(body)))
            env["$pc"] = head["$pc"] + [head[ivar] >= seq.dims[0]]
            for m in mods + [ivar]: env[m] = head[m]
        elif isinstance(s, ast.Return):
            obligations.append(("post", And(*env["$pc"]), post(env, ev(s.value, env))))
        else: raise NotImplementedError(ast.dump(s))
env = {"possible_unitary_alignments": P, "sizes": sizes, "$pc": [AX]}
run(fn.body, env)
print("source sha", hashlib.sha256(ast.unparse(fn).encode()).hexdigest()[:12], "obligations", len(obligations))
ok = True
for name, hyp, goal in obligations:
    s = Solver(); s.set("timeout", 30000); s.add(hyp, Not(goal)); t = time.time(); r = s.check()
    print(f"  {name:28s} {'discharged' if r == unsat else str(r).upper():10s} {time.time()-t:.2f}s"); ok &= (r == unsat)
print("ALL DISCHARGED" if ok else "FAILED")
