# feasibility: iter_tuples increments rank by one (mixed radix), z3
from z3 import *
import time
I = IntSort()
sizes = Array('sizes', I, I)
w = Array('w', I, I)          # ghost weights w[0]=1, w[i+1]=w[i]*sizes[i]
n = Int('n')
R = Function('R', ArraySort(I, I), I, I)   # R(c,i)=sum_{j<i} c[j]*w[j]
c0 = Array('c0', I, I)  # tuple at loop head (yielded)
c = Array('c', I, I)    # current (being mutated)
i = Int('i')
j = Int('j')

def axR(arr, k):  # unfold R at k
    return And(R(arr, 0) == 0, Implies(k >= 0, R(arr, k+1) == R(arr, k) + arr[k]*w[k]))
def axW(k):
    return And(w[0] == 1, Implies(k >= 0, w[k+1] == w[k]*sizes[k]))

# Inner for-loop invariant Inv(i):
#   0<=i<=n, forall j<i: c0[j]=sizes[j]-1 and c[j]=0 ; forall j>=i: c[j]=c0[j];
#   R(c0,i) = w[i]-1 ; R(c,i) = 0
def Inv(c, i):
    return And(0 <= i, i <= n,
               ForAll(j, Implies(And(0 <= j, j < i), And(c0[j] == sizes[j]-1, c[j] == 0))),
               ForAll(j, Implies(j >= i, c[j] == c0[j])),
               R(c0, i) == w[i] - 1, R(c, i) == 0)
s = Solver()
s.set("timeout", 20000)
# preservation when current[i]+1 >= sizes[i] (carry): c' = store(c,i,0), i' = i+1
box = ForAll(j, Implies(And(0 <= j, j < n), And(0 <= c0[j], c0[j] < sizes[j])))
cp = Store(c, i, 0)
hyp = And(box, Inv(c, i), i < n, c[i] + 1 >= sizes[i], axR(c0, i), axR(cp, i), axW(i),
          # frame lemma instance: R depends only on prefix (lemma proven separately by induction)
          R(cp, i) == R(c, i))
s.add(hyp, Not(Inv(cp, i+1)))
t=time.time(); print("carry preservation:", s.check(), time.time()-t)

# exit by break: c' = store(c,i,c[i]+1) with c[i]+1<sizes[i]; claim: R(c',n) = R(c0,n)+1
# need suffix lemma: for arrays a,b agreeing on [k,n): R(a,n)-R(a,k) = R(b,n)-R(b,k)  (separate induction lemma)
s2 = Solver(); s2.set("timeout", 20000)
cb = Store(c, i, c[i]+1)
hyp2 = And(box, Inv(c, i), i < n, c[i] + 1 < sizes[i], axR(c0, i), axR(cb, i), axW(i),
           R(cb, i) == R(c, i),
           # suffix lemma instance at k=i+1 between cb and c0 (agree on j>i)
           R(cb, n) - R(cb, i+1) == R(c0, n) - R(c0, i+1))
s2.add(hyp2, Not(R(cb, n) == R(c0, n) + 1))
t=time.time(); print("break rank+1:", s2.check(), time.time()-t)
# also box preserved
s3 = Solver(); s3.set("timeout", 20000)
s3.add(hyp2, Not(ForAll(j, Implies(And(0 <= j, j < n), And(0 <= cb[j], cb[j] < sizes[j])))))
t=time.time(); print("break box:", s3.check(), time.time()-t)
# else-exit (i == n): all c0[j]=sizes[j]-1 -> R(c0,n) = w[n]-1 (last rank)
s4 = Solver(); s4.set("timeout", 20000)
s4.add(box, Inv(c, i), i == n, Not(R(c0, n) == w[n]-1))
print("exit last:", s4.check())
