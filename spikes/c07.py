from z3 import *
import time
I=IntSort(); R=RealSort(); AI=ArraySort(I,I)
def chk(name, hyps, goal, to=60000):
    s=Solver(); s.set("timeout",to); s.add(*hyps); s.add(Not(goal)); t=time.time(); r=s.check()
    print(f"{name:40s} {r} {time.time()-t:.2f}s"); return r
n,P,k,cs,ic = Ints('n P k cs ic'); crit=Real('crit')
Y=Function('Y',I,AI)      # ghost: tuple yielded at rank r  (iter_tuples contract)
S=Function('S',I,R)       # ghost: pair-sum of Y(r)
def cand(r): return S(r) <= crit
D=Array('D',I,R); AL=Array('AL',I,AI); rk=Array('rk',I,I); pos=Array('pos',I,I)
j,j1,j2,r,a=Ints('j j1 j2 r a')
def Inv(k,cs,ic,D,AL,rk,pos):
    return And(0<=k, k<=P, cs>=2, 0<=ic, ic<cs,
      ForAll(j, Implies(And(0<=j,j<ic), And(0<=rk[j], rk[j]<k, cand(rk[j]), D[j]==S(rk[j]),
                                            ForAll(a, Implies(And(0<=a,a<n), AL[j][a]==Y(rk[j])[a]))))),
      ForAll([j1,j2], Implies(And(0<=j1,j1<j2,j2<ic), rk[j1]<rk[j2])),
      ForAll(r, Implies(And(0<=r,r<k,cand(r)), And(0<=pos[r],pos[r]<ic, rk[pos[r]]==r))))
base=[n>=2, P>=1]
# --- preservation, branch taken (disorder <= crit), with possible growth -----------------------------
t_=Y(k); dis=S(k)
D1=Store(D,ic,dis); AL1=Array('AL1',I,AI)   # row copy: AL1 = AL except row ic agrees with t on [0,n)
rowcopy=And(ForAll(j, Implies(j!=ic, AL1[j]==AL[j])), ForAll(a, Implies(And(0<=a,a<n), AL1[ic][a]==t_[a])))
rk1=Store(rk,ic,k); pos1=Store(pos,k,ic); ic1=ic+1
# growth via extend_right contracts: D2/AL2 agree with D1/AL1 on [0,cs), cs2 = cs + cs/2 (floor)
D2=Array('D2',I,R); AL2=Array('AL2',I,AI); add=Int('add')
grow=And(add==cs/2, ForAll(j, Implies(And(0<=j,j<cs), And(D2[j]==D1[j], AL2[j]==AL1[j]))))
hyp=base+[Inv(k,cs,ic,D,AL,rk,pos), k<P, dis<=crit, rowcopy]
chk("store in bounds (ic < len)", hyp, And(0<=ic, ic<cs))
chk("preserved/taken/no-growth", hyp+[ic1!=cs], Inv(k+1,cs,ic1,D1,AL1,rk1,pos1))
chk("preserved/taken/growth", hyp+[ic1==cs, grow], Inv(k+1,cs+add,ic1,D2,AL2,rk1,pos1))
chk("preserved/not-taken", base+[Inv(k,cs,ic,D,AL,rk,pos), k<P, Not(dis<=crit)], Inv(k+1,cs,ic,D,AL,rk,pos))
chk("init", base, Inv(0,10000,0,D,AL,rk,pos))
# --- exit: k == P, cand(P-1) (lemma allnull_is_candidate), slice [:ic-1] ----------------------------
ex=base+[Inv(P,cs,ic,D,AL,rk,pos), cand(P-1)]
K=ic-1
chk("exit: i_chosen >= 1", ex, ic>=1)
chk("exit: last chosen is rank P-1", ex, rk[ic-1]==P-1)
chk("exit: sound (rank < P-1, cand, D=S)", ex, ForAll(j, Implies(And(0<=j,j<K), And(0<=rk[j], rk[j]<P-1, cand(rk[j]), D[j]==S(rk[j])))))
chk("exit: complete", ex, ForAll(r, Implies(And(0<=r,r<P-1,cand(r)), And(0<=pos[r],pos[r]<K, rk[pos[r]]==r))))
chk("exit: once (strictly increasing)", ex, ForAll([j1,j2], Implies(And(0<=j1,j1<j2,j2<K), rk[j1]<rk[j2])))
