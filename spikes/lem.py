from z3 import *
import time
def chk(name, s):
    t=time.time(); r=s.check(); print(name, r, round(time.time()-t,3))
# (c) positional invariance under translation + positive scaling, reals
s1,e1,s2,e2,k,c = Reals('s1 e1 s2 e2 k c')
def absr(x): return If(x>=0,x,-x)
def F(s1,e1,s2,e2): 
    q = (absr(s1-s2)+absr(e1-e2))/((e1-s1)+(e2-s2))
    return q*q
s=Solver(); s.set("timeout",30000)
s.add(k>0, e1-s1>0, e2-s2>0, F(k*s1+c,k*e1+c,k*s2+c,k*e2+c) != F(s1,e1,s2,e2))
chk("pos invariance", s)
# symmetric, nonneg, zero on identical
s=Solver(); s.add(e1-s1>0, e2-s2>0, Or(F(s1,e1,s2,e2)!=F(s2,e2,s1,e1), F(s1,e1,s2,e2)<0, F(s1,e1,s1,e1)!=0)); chk("pos sym/nonneg/zero", s)

# (a) exactly-one from sum: induction step. T(k)=sum_{j<k} t[j], t[j] in {0,1}. 
# Lemma L(k): T(k)==0 => forall j<k t[j]==0 ; T(k)==1 => exists unique j<k with t[j]==1 ; T(k)>=0
I=IntSort()
t_=Array('t',I,I); T=Function('T',I,I); kk=Int('kk'); j=Int('j'); j2=Int('j2'); wit=Function('wit',I,I)
def L(k):
    return And(T(k)>=0,
       Implies(T(k)==0, ForAll(j, Implies(And(0<=j,j<k), t_[j]==0))),
       Implies(T(k)==1, And(0<=wit(k), wit(k)<k, t_[wit(k)]==1, ForAll(j, Implies(And(0<=j,j<k,j!=wit(k)), t_[j]==0)))))
s=Solver(); s.set("timeout",30000)
w2=Int('w2')
s.add(kk>=0, ForAll(j, Or(t_[j]==0,t_[j]==1)), T(kk+1)==T(kk)+t_[kk], L(kk))
# goal: exists witness for k+1 (skolemize: w2 free to choose -> we need to prove EXISTS; encode via negated forall)
goal = And(T(kk+1)>=0,
       Implies(T(kk+1)==0, ForAll(j, Implies(And(0<=j,j<kk+1), t_[j]==0))),
       Implies(T(kk+1)==1, Exists(w2, And(0<=w2, w2<kk+1, t_[w2]==1, ForAll(j, Implies(And(0<=j,j<kk+1,j!=w2), t_[j]==0))))))
s.add(Not(goal)); chk("exactly-one step", s)

# (b) remove_pivot pointwise: one iteration of the *correct* spec vs code branch; show code branch 4 is wrong
x,p,d,a,b = Reals('x p d a b')
inzone = And(x>=p-d, x<=p+d)
# code: else-branch (a < p-d) and not (b > p+d): new = [a, p-d]
s=Solver(); s.add(d>0, a<b, a<p-d, Not(b>p+d))
newcov = And(a<=x, x<=p-d)
want = And(a<=x, x<=b, Not(inzone))
s.add(newcov != want, x != p-d)   # ignore the closed endpoint
chk("remove_pivot branch4 (expect sat)", s); print(s.model())
