from z3 import *
import time
# step of injectivity: a_k*W + Ra = b_k*W + Rb, 0<=Ra,Rb<=W-1, W>=1 => a_k=b_k and Ra=Rb
ak,bk,W,Ra,Rb = Ints('ak bk W Ra Rb')
s=Solver(); s.set("timeout",20000)
s.add(W>=1, 0<=Ra, Ra<=W-1, 0<=Rb, Rb<=W-1, ak*W+Ra == bk*W+Rb, Not(And(ak==bk, Ra==Rb)))
t=time.time(); print("inj step", s.check(), time.time()-t)
# bound lemma step: 0<=R<=W-1, 0<=c<s, W' = W*s => 0 <= R + c*W <= W'-1
c,sz,R = Ints('c sz R')
s=Solver(); s.set("timeout",20000)
s.add(W>=1, 0<=R, R<=W-1, 0<=c, c<sz, Not(And(0 <= R+c*W, R+c*W <= W*sz-1)))
t=time.time(); print("bound step", s.check(), time.time()-t)
