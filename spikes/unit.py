from z3 import *
import time
def chk(name, hyps, goal):
    s=Solver(); s.set("timeout",30000); s.add(*hyps); s.add(Not(goal)); t=time.time(); r=s.check()
    print(f"{name:46s} {r} {time.time()-t:.2f}s", (s.model() if r==sat else ""))
U=Datatype('Unit'); U.declare('mk',('s',RealSort()),('e',RealSort()),('haslab',BoolSort()),('lab',RealSort())); U=U.create()
def seg_eq(a,b): return And(U.s(a)==U.s(b), U.e(a)==U.e(b))
def seg_lt(a,b): return Or(U.s(a)<U.s(b), And(U.s(a)==U.s(b), U.e(a)<U.e(b)))
# Unit.__lt__ as the symbolic executor reads it from the source (current tree)
def lt(a,b): return If(seg_eq(a,b), If(Not(U.haslab(a)), True, If(Not(U.haslab(b)), False, U.lab(a)<U.lab(b))), seg_lt(a,b))
# dataclass eq: fieldwise; a None label has no payload -> normalise lab when haslab false
def eq(a,b): return And(seg_eq(a,b), U.haslab(a)==U.haslab(b), Implies(U.haslab(a), U.lab(a)==U.lab(b)))
a,b,c=Consts('a b c',U)
chk("unit_order/irreflexive", [], Not(lt(a,a)))
chk("unit_order/transitive", [], Implies(And(lt(a,b),lt(b,c)), lt(a,c)))
chk("unit_order/total", [], Or(lt(a,b), lt(b,a), eq(a,b)))
chk("unit_order/consistent with eq", [], Implies(eq(a,b), And(Not(lt(a,b)),Not(lt(b,a)))))
# fixed version
def lt2(a,b): return If(seg_eq(a,b), If(Not(U.haslab(a)), U.haslab(b), If(Not(U.haslab(b)), False, U.lab(a)<U.lab(b))), seg_lt(a,b))
for nm,g in [("irreflexive",Not(lt2(a,a))),("transitive",Implies(And(lt2(a,b),lt2(b,c)),lt2(a,c))),("total",Or(lt2(a,b),lt2(b,a),eq(a,b))),("consistent",Implies(eq(a,b),And(Not(lt2(a,b)),Not(lt2(b,a)))))]:
    chk("fixed unit_order/"+nm, [], g)
# reset_bounds on one annotator's SortedSet model: mem set, last element is lt-maximum
mem=Array('mem',U,BoolSort()); last=Const('last',U); x=Const('x',U)
model=[mem[last], ForAll(x, Implies(And(mem[x], Not(eq(x,last))), lt2(x,last)))]
chk("reset_bounds/hi is max end (expect sat)", model, ForAll(x, Implies(mem[x], U.e(x)<=U.e(last))))
first=Const('first',U)
model=[mem[first], ForAll(x, Implies(And(mem[x], Not(eq(x,first))), lt2(first,x)))]
chk("reset_bounds/lo is min start", model, ForAll(x, Implies(mem[x], U.s(first)<=U.s(x))))
