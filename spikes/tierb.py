"""Throw-away spike (tier B): symbolic execution of Continuum.add / copy / reset_bounds from the real
source over abstract library models (SortedDict-of-SortedSets with handles, deepcopy, Segment/Unit)."""
import ast, time, itertools
from z3 import *
SRC = "/repo/pygamma_agreement/continuum.py"
tree = ast.parse(open(SRC).read())
cls = next(n for n in tree.body if isinstance(n, ast.ClassDef) and n.name == "Continuum")
FN = {n.name: n for n in cls.body if isinstance(n, ast.FunctionDef)}
Rl, B = RealSort(), BoolSort()
U = Datatype('Unit'); U.declare('mk', ('s', Rl), ('e', Rl), ('haslab', B), ('lab', Rl)); U = U.create()
USet = ArraySort(U, B)
EMPTY_U = K(U, False); EMPTY_S = K(Rl, False)
def ueq(a, b): return And(U.s(a) == U.s(b), U.e(a) == U.e(b), U.haslab(a) == U.haslab(b), Implies(U.haslab(a), U.lab(a) == U.lab(b)))
def ult(a, b):   # the *fixed* documented order (the spike assumes unit_order; the lemma is a separate obligation)
    return Or(U.s(a) < U.s(b), And(U.s(a) == U.s(b), U.e(a) < U.e(b)),
              And(U.s(a) == U.s(b), U.e(a) == U.e(b), Or(And(Not(U.haslab(a)), U.haslab(b)), And(U.haslab(a), U.haslab(b), U.lab(a) < U.lab(b)))))
_n = itertools.count()
def fresh(name, sort): return Const(f"{name}!{next(_n)}", sort)
class Ref:
    def __init__(s, oid): s.oid = oid
class Seg:
    def __init__(s, start, end): s.start, s.end = start, end
class Opt:     # Optional[str]
    def __init__(s, isnone, val): s.isnone, s.val = isnone, val
class Handle:  # inner SortedSet of a map-of-sets object
    def __init__(s, owner, key): s.owner, s.key = owner, key
class First:   # result of iter(handle)/reversed(handle)
    def __init__(s, h, last): s.h, s.last = h, last
class Raise(Exception):
    def __init__(s, exc): s.exc = exc
class Return(Exception):
    def __init__(s, val): s.val = val
class State:
    def __init__(s): s.heap = {}; s.pc = []; s.obl = []; s.next = 0
    def alloc(s, cls, **f): s.next += 1; s.heap[s.next] = dict(cls=cls, **f); return Ref(s.next)
    def clone(s):
        t = State(); t.heap = {k: dict(v) for k, v in s.heap.items()}; t.pc = list(s.pc); t.obl = s.obl; t.next = s.next; return t
def new_continuum(st, uri):
    ann = st.alloc("MapOfSets", keys=EMPTY_S, U=K(Rl, EMPTY_U))
    cat = st.alloc("SSetStr", mem=EMPTY_S)
    return st.alloc("Continuum", uri=uri, _annotations=ann, _categories=cat, bound_inf=RealVal(0), bound_sup=RealVal(0), best_window_size="INF")
paths = []   # finished paths: (state, kind, value)
def ev(e, env, st):
    if isinstance(e, ast.Constant): return RealVal(e.value) if isinstance(e.value, (int, float)) and not isinstance(e.value, bool) else e.value
    if isinstance(e, ast.Name): return env[e.id]
    if isinstance(e, ast.Attribute):
        v = ev(e.value, env, st)
        if isinstance(v, Ref): return st.heap[v.oid][e.attr]
        if isinstance(v, Seg):
            if e.attr == "duration": return If(v.end - v.start > RealVal("1e-6"), v.end - v.start, 0)
            return getattr(v, e.attr)
        if isinstance(v, ExprRef) and v.sort() == U:
            if e.attr == "segment": return Seg(U.s(v), U.e(v))
        if e.attr == "values" and isinstance(v, Ref): return ("values", v)
        raise NotImplementedError(ast.dump(e))
    if isinstance(e, ast.Compare):
        l, r = ev(e.left, env, st), ev(e.comparators[0], env, st); op = e.ops[0]
        if isinstance(op, ast.Eq): return l == r
        if isinstance(op, (ast.NotIn, ast.In)):
            o = st.heap[r.oid]; m = o["keys"][l]; return Not(m) if isinstance(op, ast.NotIn) else m
        if isinstance(op, ast.IsNot) and r is None: return Not(l.isnone)
        raise NotImplementedError(ast.dump(e))
    if isinstance(e, ast.Subscript):
        v = ev(e.value, env, st); k = ev(e.slice, env, st)
        st.obl.append((f"key_present@{e.lineno}", And(*st.pc), st.heap[v.oid]["keys"][k])); return Handle(v, k)
    if isinstance(e, ast.Tuple): return tuple(ev(x, env, st) for x in e.elts)
    if isinstance(e, ast.Call):
        f = e.func
        if isinstance(f, ast.Name):
            if f.id == "SortedSet": return "NEWSET"
            if f.id == "ValueError": return "ValueError"
            if f.id == "Unit":
                seg, lab = ev(e.args[0], env, st), ev(e.args[1], env, st); return U.mk(seg.start, seg.end, Not(lab.isnone), lab.val)
            if f.id == "Continuum": return new_continuum(st, ev(e.args[0], env, st))
            if f.id == "deepcopy":
                src = st.heap[ev(e.args[0], env, st).oid]; return st.alloc(src["cls"], **{k: v for k, v in src.items() if k != "cls"})
            if f.id in ("iter", "reversed"): return First(ev(e.args[0], env, st), f.id == "reversed")
            if f.id == "next":
                it = ev(e.args[0], env, st); S = st.heap[it.h.owner.oid]["U"][it.h.key]
                fn = Function(f"{'last' if it.last else 'first'}!{next(_n)}", Rl, U); x = Const("x", U); a = Const("a", Rl)
                st.pc.append(ForAll(a, Implies(Exists(x, st.heap[it.h.owner.oid]["U"][a][x]),
                     And(st.heap[it.h.owner.oid]["U"][a][fn(a)], ForAll(x, Implies(And(st.heap[it.h.owner.oid]["U"][a][x], Not(ueq(x, fn(a)))),
                                                          ult(x, fn(a)) if it.last else ult(fn(a), x)))))))
                return fn(it.h.key)
            if f.id in ("min", "max"):
                if isinstance(e.args[0], ast.GeneratorExp):
                    g = e.args[0]; comp = g.generators[0]; kind, ref = ev(comp.iter, env, st); o = st.heap[ref.oid]
                    a = fresh("a", Rl); env2 = dict(env); env2[comp.target.id] = Handle(ref, a)
                    x = Const("x", U); nonempty = Exists(x, o["U"][a][x]); dom = And(o["keys"][a], nonempty)   # `if annotations`
                    elt = ev(g.elt, env2, st); dflt = ev(e.keywords[0].value, env, st); r = fresh(f.id, Rl)
                    cmp = (r <= elt) if f.id == "min" else (r >= elt)
                    st.pc.append(And(Implies(Not(Exists(a, dom)), r == dflt),
                                     Implies(Exists(a, dom), And(Exists(a, And(dom, r == elt)), ForAll(a, Implies(dom, cmp))))))
                    return r
                x, y = ev(e.args[0], env, st), ev(e.args[1], env, st); return If(x <= y, x, y) if f.id == "min" else If(x >= y, x, y)
        if isinstance(f, ast.Attribute):
            recv = ev(f.value, env, st)
            if f.attr == "values": return ("values", recv)
            if f.attr == "add" and isinstance(recv, Handle):
                o = st.heap[recv.owner.oid]; u = ev(e.args[0], env, st); o["U"] = Store(o["U"], recv.key, Store(o["U"][recv.key], u, True)); return None
            if f.attr == "add" and isinstance(recv, Ref):
                o = st.heap[recv.oid]; o["mem"] = Store(o["mem"], ev(e.args[0], env, st).val, True); return None
        raise NotImplementedError(ast.dump(e))
    raise NotImplementedError(ast.dump(e))
def run(stmts, env, st):
    for i, s in enumerate(stmts):
        if isinstance(s, ast.Expr):
            if isinstance(s.value, ast.Constant): continue
            ev(s.value, env, st)
        elif isinstance(s, ast.Assign):
            tgt = s.targets[0]; val = ev(s.value, env, st)
            tgts = tgt.elts if isinstance(tgt, ast.Tuple) else [tgt]; vals = val if isinstance(tgt, ast.Tuple) else [val]
            for t, v in zip(tgts, vals):
                if isinstance(t, ast.Name): env[t.id] = v
                elif isinstance(t, ast.Attribute): st.heap[ev(t.value, env, st).oid][t.attr] = v
                elif isinstance(t, ast.Subscript):
                    o = st.heap[ev(t.value, env, st).oid]; k = ev(t.slice, env, st)
                    o["keys"] = Store(o["keys"], k, True); o["U"] = Store(o["U"], k, EMPTY_U)
        elif isinstance(s, ast.If):
            c = ev(s.test, env, st)
            for cond, body in ((c, s.body), (Not(c), s.orelse)):
                st2 = st.clone(); st2.pc.append(cond); env2 = dict(env)
                try: run(body + stmts[i+1:], env2, st2); paths.append((st2, "return", None))
                except StopIteration: pass
                except Return as r: paths.append((st2, "return", r.val))
                except Raise as r: paths.append((st2, "raise", r.exc))
            raise StopIteration
        elif isinstance(s, ast.Raise): raise Raise(ev(s.exc, env, st))
        elif isinstance(s, ast.Return): raise Return(ev(s.value, env, st))
        else: raise NotImplementedError(ast.dump(s))
def execute(name, env, st):
    paths.clear()
    try: run(FN[name].body, env, st); paths.append((st, "return", None))
    except StopIteration: pass
    except Return as r: paths.append((st, "return", r.val))
    except Raise as r: paths.append((st, "raise", r.exc))
    return list(paths)
def check(name, hyps, goal):
    s = Solver(); s.set("timeout", 30000); s.add(*hyps); s.add(Not(goal)); t = time.time(); r = s.check()
    print(f"  {name:52s} {'discharged' if r == unsat else ('REFUTED' if r == sat else 'UNDECIDED')} {time.time()-t:.2f}s"); return r
def sym_continuum(st, tag):
    ann = st.alloc("MapOfSets", keys=Const(f"keys_{tag}", ArraySort(Rl, B)), U=Const(f"U_{tag}", ArraySort(Rl, USet)))
    cat = st.alloc("SSetStr", mem=Const(f"cat_{tag}", ArraySort(Rl, B)))
    return st.alloc("Continuum", uri="uri", _annotations=ann, _categories=cat, bound_inf=Real(f"lo_{tag}"), bound_sup=Real(f"hi_{tag}"), best_window_size="bws")
def view(st, ref): o = st.heap[ref.oid]; a = st.heap[o["_annotations"].oid]; return a["keys"], a["U"], st.heap[o["_categories"].oid]["mem"], o["bound_inf"], o["bound_sup"]
# ------------------------------------------------------------------ add
print("Continuum.add")
st = State(); c = sym_continuum(st, "c"); k0, U0, C0, lo0, hi0 = view(st, c)
a = Real("annotator"); ss, se = Reals("seg_s seg_e"); labnone = Bool("lab_none"); lab = Real("lab")
for st2, kind, val in execute("add", {"self": c, "annotator": a, "segment": Seg(ss, se), "annotation": Opt(labnone, lab)}, st):
    k1, U1, C1, lo1, hi1 = view(st2, c); hyp = st2.pc
    if kind == "raise":
        check("add/raises iff zero length", hyp, se - ss <= RealVal("1e-6"))
        check("add/raises leaves view unchanged", hyp, And(k1 == k0, U1 == U0, C1 == C0, lo1 == lo0, hi1 == hi0))
    else:
        u = U.mk(ss, se, Not(labnone), lab); b = Real("b")
        check("add/returns only for positive length", hyp, se - ss > RealVal("1e-6"))
        check("add/post Ann", hyp, k1 == Store(k0, a, True))
        check("add/post U[a]", hyp, U1[a] == Store(If(k0[a], U0[a], EMPTY_U), u, True))
        check("add/post frame other annotators", hyp, ForAll(b, Implies(b != a, U1[b] == U0[b])))
        check("add/post Cat", hyp, C1 == If(labnone, C0, Store(C0, lab, True)))
        check("add/post bounds", hyp, And(lo1 == If(lo0 <= ss, lo0, ss), hi1 == If(hi0 >= se, hi0, se)))
for nm, hy, g in st.obl: check("add/" + nm, [hy], g)
# ------------------------------------------------------------------ copy
print("Continuum.copy")
st = State(); c = sym_continuum(st, "c"); k0, U0, C0, lo0, hi0 = view(st, c)
for st2, kind, val in execute("copy", {"self": c}, st):
    k1, U1, C1, lo1, hi1 = view(st2, val)
    check("copy/post Ann,U", st2.pc, And(k1 == k0, U1 == U0)); check("copy/post bounds", st2.pc, And(lo1 == lo0, hi1 == hi0))
    check("copy/post Cat", st2.pc, C1 == C0)
    src, dst = st2.heap[c.oid], st2.heap[val.oid]
    shared = {src["_annotations"].oid, src["_categories"].oid} & {dst["_annotations"].oid, dst["_categories"].oid}
    print(f"  {'copy/independence (mutable identities disjoint)':52s} {'discharged' if not shared and val.oid != c.oid else 'REFUTED'}")
# ------------------------------------------------------------------ reset_bounds
print("Continuum.reset_bounds")
st = State(); c = sym_continuum(st, "c"); k0, U0, C0, lo0, hi0 = view(st, c)
for st2, kind, val in execute("reset_bounds", {"self": c}, st):
    k1, U1, C1, lo1, hi1 = view(st2, c); a_, x = Real("a_"), Const("xx", U)
    anyu = Exists([a_, x], And(k0[a_], U0[a_][x]))
    def extremum(v, fld, le):
        return And(Implies(Not(anyu), v == 0), Implies(anyu, And(Exists([a_, x], And(k0[a_], U0[a_][x], v == fld(x))),
                                                                 ForAll([a_, x], Implies(And(k0[a_], U0[a_][x]), le(v, fld(x)))))))
    check("reset_bounds/post lo = min start", st2.pc, extremum(lo1, U.s, lambda v, y: v <= y))
    check("reset_bounds/post hi = max end", st2.pc, extremum(hi1, U.e, lambda v, y: v >= y))
    check("reset_bounds/frame", st2.pc, And(k1 == k0, U1 == U0, C1 == C0))
