# spike: small-scope (finite pool) refutation of reset_bounds/post hi, hand-encoded as the engine would emit it
from z3 import *
import time
Rl=RealSort()
# pool: 1 annotator, 3 candidate units with membership flags; RI: dur > 1e-6
us=[(Real(f"s{i}"),Real(f"e{i}"),Bool(f"in{i}")) for i in range(3)]
def lt(a,b): return Or(a[0]<b[0], And(a[0]==b[0], a[1]<b[1]))      # unlabelled units, same label -> segment order
def eq(a,b): return And(a[0]==b[0],a[1]==b[1])
hyp=[And(*[Implies(u[2], u[1]-u[0] > RealVal("1e-6")) for u in us]), Or(*[u[2] for u in us])]
# model of `next(reversed(annotations))`: last is one of the members and is the lt-maximum
li=Int('li'); hyp.append(And(0<=li, li<3))
def sel(f): return If(li==0,f(us[0]),If(li==1,f(us[1]),f(us[2])))
hyp.append(sel(lambda u:u[2]))
last=(sel(lambda u:u[0]), sel(lambda u:u[1]))
hyp += [Implies(And(u[2], Not(eq(u,last))), lt(u,last)) for u in us]
hi=last[1]       # code: bound_sup = max over annotators (one here) of last.end
goal=And(*[Implies(u[2], hi>=u[1]) for u in us])
s=Solver(); s.add(*hyp); s.add(Not(goal)); t=time.time(); r=s.check(); print(r, f"{time.time()-t:.3f}s")
m=s.model(); print([(m.eval(u[0]),m.eval(u[1]),m.eval(u[2],True)) for u in us], "hi =", m.eval(hi))
