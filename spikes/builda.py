from z3 import *
import time
I=IntSort()
A0=Array('A0',I,ArraySort(I,I))   # A[r][k] at inner-loop head (ints 0/1 stand for float32 0/1)
P=Array('P',I,ArraySort(I,I)); sizes=Array('sizes',I,I); off=Array('off',I,I)
n,N,p,a,start=Ints('n N p a start')   # n annotators, N candidates, p=p_id, a=annotator_id
r,k,a2,u=Ints('r k a2 u')
ax = And(off[0]==0, ForAll(a2, Implies(And(0<=a2,a2<n), off[a2+1]==off[a2]+sizes[a2])),
         ForAll(a2, Implies(And(0<=a2,a2<n), sizes[a2]>=0)),
         # lemma (proved separately by induction): offsets monotone
         ForAll([a2,u], Implies(And(0<=a2,a2<=u,u<=n), off[a2]<=off[u])))
pre = ForAll([k,a2], Implies(And(0<=k,k<N,0<=a2,a2<n), And(0<=P[k][a2], P[k][a2]<=sizes[a2])))
def spec_col(A,kcol,upto):  # rows of annotators < upto are right in column kcol
    return ForAll([a2,u], Implies(And(0<=a2,a2<upto,0<=u,u<sizes[a2]), A[off[a2]+u][kcol]==If(P[kcol][a2]==u,1,0)))
def InvInner(A,a,start):
    return And(0<=a,a<=n,start==off[a], spec_col(A,p,a),
               ForAll(r, Implies(And(off[a]<=r, r<off[n]), A[r][p]==0)),
               ForAll(k, Implies(And(0<=k,k<p), spec_col(A,k,n))),
               ForAll([r,k], Implies(And(0<=r,r<off[n],p<k,k<N), A[r][k]==0)))
uid = P[p][a]
A1 = If(uid!=sizes[a], Store(A0, start+uid, Store(A0[start+uid], p, 1)), A0)
s=Solver(); s.set("timeout",60000)
s.add(ax, pre, 0<=p, p<N, n>=1, InvInner(A0,a,start), a<n)
goal = And(InvInner(A1,a+1,start+sizes[a]),
           Implies(uid!=sizes[a], And(0<=start+uid, start+uid<off[n])))   # bounds obligation
s.add(Not(goal))
t=time.time(); print("build_A inner preservation:", s.check(), round(time.time()-t,2))
