"""debug helper: python3-vt tools/dbg.py <qual-substring> <obligation-substring> [drop=i,j] -> prints hyps/goal, tries z3"""
import sys, time
sys.path.insert(0, '/verif')
import z3
from pyvc import check
from pyvc.engine import Engine
from pyvc.contract import REGISTRY
check.load_contracts()
q = [q for q in REGISTRY if sys.argv[1] in q][0]
eng = Engine(q); obls = eng.run()
sel = [o for o in obls if sys.argv[2] in o.name]
opts = dict(a.split("=") for a in sys.argv[3:])
for o in sel[:1]:
    print("==", o.name)
    drop = set(map(int, opts.get("drop", "").split(","))) if opts.get("drop") else set()
    if "show" in opts:
        for i, h in enumerate(o.hyps): print(f"H{i}:", h)
        print("G:", o.goal)
    s = z3.Solver(); s.set("timeout", int(opts.get("t", 20)) * 1000)
    for i, h in enumerate(o.hyps):
        if i not in drop: s.add(h)
    s.add(z3.Not(o.goal))
    t = time.time(); r = s.check(); print(r, f"{time.time()-t:.2f}s", s.reason_unknown() if r == z3.unknown else "")
    if r == z3.sat and "model" in opts: print(s.model())
