#!/bin/bash
# usage: tools/mut.sh <file-relative-to-repo> <old-text> <new-text> -- <check args...>
# applies a textual edit on a scratch copy of /repo (under $TMPDIR) and runs pyvc.check against it
set -e
f="$1"; old="$2"; new="$3"; shift 3; shift
d=$(mktemp -d "${TMPDIR:-/tmp}/pgverif-XXXX")
mkdir -p "$d/pygamma_agreement"; cp /repo/pygamma_agreement/*.py "$d/pygamma_agreement/"
python3 - "$d/$f" "$old" "$new" <<'PY'
import sys
p, old, new = sys.argv[1:4]
s = open(p).read()
assert s.count(old) >= 1, "anchor text not found"
open(p, "w").write(s.replace(old, new, 1))
PY
cd /verif; VERIF_EVIDENCE_DIR="$d/evidence" VERIF_REPO="$d" python3-vt -m pyvc.check "$@" || true
rm -rf "$d"
