"""keep a confirmed seeded change:  python3 tools/keep_seed.py <seed-id> <property> <worktree> <needs...>
Confirms again (in the worktree): demo exits 1 with the change and 0 without; runs the property's quick check against /repo with
the patch applied and records the outcome; writes /verif/seeded/<seed-id>/{patch.diff, demo.py, SEED_REPORT.md, meta.json}."""
import json, os, shutil, subprocess, sys
sid, prop, wt = sys.argv[1:4]
needs = " ".join(sys.argv[4:])
out = f"/verif/seeded/{sid}"
os.makedirs(out, exist_ok=True)
patch = subprocess.run(["git", "-C", wt, "diff", "--", "pygamma_agreement"], capture_output=True, text=True).stdout
open(f"{out}/patch.diff", "w").write(patch)
demo = sorted(f for f in os.listdir(wt) if f.startswith("demo_") and f.endswith(".py"))[0]
shutil.copy(f"{wt}/{demo}", f"{out}/demo.py")
if os.path.exists(f"{wt}/SEED_REPORT.md"):
    shutil.copy(f"{wt}/SEED_REPORT.md", f"{out}/SEED_REPORT.md")
def run(cmd, **kw):
    p = subprocess.run(cmd, capture_output=True, text=True, **kw)
    return p.returncode, (p.stdout + p.stderr)[-1500:]
rc_with, out_with = run(["/venv/bin/python", demo], cwd=wt)
subprocess.run(["git", "-C", wt, "stash", "-q", "--", "pygamma_agreement"])
rc_without, _ = run(["/venv/bin/python", demo], cwd=wt)
subprocess.run(["git", "-C", wt, "stash", "pop", "-q"])
if os.environ.get("KEEP_SEED_SCRATCH"):
    # the change is applied to a scratch copy of /repo's working tree (other checks may be reading /repo right now); same check, VERIF_REPO
    import tempfile
    d = tempfile.mkdtemp(prefix="pgverif-seed-", dir="/tmp")
    try:
        subprocess.run(["rsync", "-a", "--exclude", ".git", "/repo/", d + "/"], check=True)
        subprocess.run(["patch", "-p1", "-s", "-d", d, "-i", f"{out}/patch.diff"], check=True)
        rc_check, out_check = run(["python3-vt", "-m", "pyvc.check", prop], cwd="/verif",
                                  env={**os.environ, "VERIF_REPO": d, "VERIF_EVIDENCE_DIR": "/tmp/pgverif-seed-evidence"})
    finally:
        shutil.rmtree(d, ignore_errors=True)
    how = "patch applied to a scratch copy of /repo (VERIF_REPO); quick check"
else:
    assert subprocess.run(["git", "-C", "/repo", "status", "--porcelain", "--untracked-files=no"], capture_output=True, text=True).stdout == "", "/repo not clean"
    subprocess.run(["git", "-C", "/repo", "apply", f"{out}/patch.diff"], check=True)
    try:
        rc_check, out_check = run(["python3-vt", "-m", "pyvc.check", prop], cwd="/verif",
                                  env={**os.environ, "VERIF_EVIDENCE_DIR": "/tmp/pgverif-seed-evidence"})
    finally:
        subprocess.run(["git", "-C", "/repo", "checkout", "--", "."], check=True)
    how = "git -C /repo apply patch.diff; quick check; git -C /repo checkout -- ."
lines = [l for l in out_check.split("\n") if l.startswith(("VIOLATION", "UNDECIDED", "  failed obligation", prop + ":"))]
meta = {"seed": sid, "breaks_property": prop, "needs_to_manifest": needs,
        "demo": {"exit_with_change": rc_with, "exit_without_change": rc_without, "output_with_change": out_with[-600:]},
        "check": {"cmd": f"python3-vt -m pyvc.check {prop}", "exit": rc_check, "lines": lines},
        "detected": rc_check == 1,
        "ran": ["demo in the sub-agent's worktree with and without the change", how],
        "tests": "existing suite run by the sub-agent with the change applied (see SEED_REPORT.md)"}
json.dump(meta, open(f"{out}/meta.json", "w"), indent=1)
print(json.dumps({k: meta[k] for k in ("seed", "detected")}), meta["demo"]["exit_with_change"], meta["demo"]["exit_without_change"])
print("\n".join(lines))
