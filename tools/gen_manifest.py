"""Regenerate MANIFEST.json from contracts/properties.py (claimed properties) + tools/manifest_meta.py texts."""
import json, sys, os
sys.path.insert(0, "/verif")
from pyvc import check
props = check.load_contracts()
allp = [json.loads(l) for l in open("/verif/properties.jsonl")]
from tools.manifest_meta import META, NOT_APPLICABLE
checks = []
for p in allp:
    pid = p["id"]
    if pid not in props:
        continue
    m = META[pid]
    checks.append({
        "property_id": pid,
        "quick_cmd": f"python3-vt -m pyvc.check {pid} --tier quick",
        "thorough_cmd": f"python3-vt -m pyvc.check {pid} --tier thorough",
        "evidence_file": f"/verif/evidence/{pid}.json",
        "replay_cmd_template": "/venv/bin/python /verif/harness/run_replay.py {path}",
        "engine": "pyvc",
        "level_claimed": {"category": "proof", "text": m["level"], "design_ref": props[pid].get("design_ref", "DESIGN.md")},
        "level_note": m["note"],
        "technique": m["technique"],
    })
na = [{"property_id": p["id"], "reason": NOT_APPLICABLE.get(p["id"], "check not built yet (framework under construction, DESIGN.md section 8)")}
      for p in allp if p["id"] not in props]
man = {
    "version": 1,
    "setup_cmd": "python3-vt -m pyvc.check --selfcheck",
    "hooks": {"guard": "PYGAMMA_AGREEMENT_VERIF",
              "enable": "none needed: the verifier reads /repo through ast only and the replay harness patches from outside; no hook was added to /repo",
              "baseline_off_cmd": "cd /repo && /venv/bin/python -m pytest -ra -q -p no:cacheprovider --timeout=900 --continue-on-collection-errors",
              "source_commits": [], "add_only": True},
    "engines": [{"name": "pyvc", "path": "/verif/pyvc", "serves_properties": sorted(props),
                 "kind_free_text": "contract-based deductive verifier for the Python subset used by pygamma-agreement: sidecar contracts "
                                   "(/verif/contracts) bound to the real function ASTs of /repo on every run, forward symbolic execution "
                                   "with loop invariants / modular calls / ghost state / lemmas by induction, VCs discharged by z3 5.1, "
                                   "z3 4.8.12 and cvc5; failed obligations are replayed on the real numba-compiled code by /verif/harness"}],
    "checks": checks,
    "notes": "exit codes of every check: 0 held, 1 VIOLATION (line printed), 2 undecided / stale contract, 3 checker error. See DESIGN.md.",
    "not_applicable": na,
}
json.dump(man, open("/verif/MANIFEST.json", "w"), indent=1)
import jsonschema
jsonschema.validate(man, json.load(open("/root/.vp/MANIFEST.schema.json")))
print("MANIFEST ok:", [c["property_id"] for c in checks], "not applicable:", len(na))
