"""Texts for MANIFEST.json (per claimed property)."""
NOT_APPLICABLE = {}
META = {
 "C07": dict(
   technique="contract-based deductive verification: sidecar pre/postconditions, loop invariants, ghost rank state and induction "
             "lemmas on the real AST of iter_tuples / extend_right_* / _get_all_valid_alignments; VCs discharged by z3 (unbounded)",
   level="Every obligation generated from the current source of the four functions (postconditions sound / complete / exactly-once "
         "with ghost ranks, loop invariants incl. buffer growth through the extend_right contracts, index / narrowing / division "
         "safety, termination of the enumeration) is discharged by an SMT solver for all inputs and all iterations; a change that "
         "breaks the property fails a named obligation, which is then replayed on the real compiled code.",
   note="Trusted: S1 mathematical integers (int64 overflow not modelled), S2 float32/float64 as reals, S3 arrays by value, S4 numba "
        "code = its Python source, the small model of list comprehension / nb.typed.List, SMT solvers. Not decided: float rounding at "
        "the cut, annotators with >= 32767 units (outside requires)."),
}
