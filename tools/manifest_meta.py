"""Texts for MANIFEST.json (per claimed property)."""
NOT_APPLICABLE = {}
META = {
 "C07": dict(
   technique="contract-based deductive verification: sidecar pre/postconditions, loop invariants, ghost rank state and induction "
             "lemmas on the real AST of iter_tuples / extend_right_* / _get_all_valid_alignments; VCs discharged by z3 (unbounded)",
   level="Every obligation generated from the current source of the four functions (postconditions sound / complete / exactly-once "
         "with ghost ranks, loop invariants incl. buffer growth through the extend_right contracts, index / narrowing / division "
         "safety, termination of the enumeration) is discharged by an SMT solver for all inputs and all iterations; a change that "
         "breaks the property fails a named obligation, which is then replayed on the real compiled code.",
   note="Trusted: S1 mathematical integers (int64 overflow not modelled), S2 float32/float64 as reals, S3 arrays by value, S4 numba "
        "code = its Python source, the small model of list comprehension / nb.typed.List, SMT solvers. Not decided: float rounding at "
        "the cut, annotators with >= 32767 units (outside requires)."),
 "C01": dict(
   technique="contract-based deductive verification of Continuum.get_best_alignment and its callees (candidate kernel, build_A, array "
             "encoding, Continuum observers, alignment constructors) over abstract views of the sorted containers and an assumed "
             "contract of the MIP solver; exactly-one-cover derived by induction lemmas on the ghost dot product",
   level="All obligations of the 18 functions in the cone are discharged: every returned unitary alignment has one slot per annotator "
         "holding one of that annotator's own units or None (P1), at least one real unit (P2), and every unit of the continuum occurs in "
         "exactly one of them (P3), on the CBC exit and on both GLPK exits, for unlabelled units too.",
   note="Assumed: the solver contract (returns a feasible 0/1 optimum or reports failure), numpy where / gather, sortedcontainers, S1-S4. "
        "Not machine-checked: feasibility of the program (so that the solver cannot report infeasible), see evidence.not_decided."),
 "C02": dict(
   technique="contract-based deductive verification: the program handed to the solver is min CD.x s.t. exact cover with CD the candidate "
             "disorders proved in C07; result.disorder is the objective of an optimal feasible vector divided by the mean number of units",
   level="Obligations discharged for all inputs: objective coefficients are the kernel's candidate disorders, the solution is feasible and "
         "optimal among all feasible 0/1 vectors (solver model), the reported disorder is the sum of the chosen candidates' disorders over "
         "x-bar, each unitary alignment carries its candidate's disorder; candidates = exactly those under the cut (C07).",
   note="Assumed: solver optimality; pen-and-paper: lifting of the pruning lemma to whole partitions and the support-sum identity."),
 "C08": dict(
   technique="contract-based deductive verification: the CBC path and the GLPK paths (after ImportError or SolverError) are separate paths of the "
             "symbolic execution through the same postconditions; the cvxpy expression trees are translated to row-wise constraints",
   level="Both exits of get_best_alignment and get_best_soft_alignment discharge the same partition / cover, feasibility and optimality "
         "clauses, so the back ends are handed the same mathematical program ([A@x == 1] vs [1 <= A@x, A@x <= 1]; [A@x >= 1] twice).",
   note="Assumed: the same solver contract for CBC and GLPK_MI (two correct solvers return optima of equal value)."),
 "C11": dict(
   technique="contract-based deductive verification of get_best_soft_alignment (same chain as C01 with the cover program)",
   level="Every unit occurs at least once, unitary alignments are well formed over the continuum's own units, the solution is optimal "
         "among covers made of candidates.", note="As C01 / C02."),
 "C13": dict(
   technique="contract-based deductive verification of every mutating / observing Continuum operation against an abstract view "
             "(annotator set, unit set per annotator, category set, bounds) over a model of sortedcontainers whose precondition "
             "(Unit.__lt__ is the documented strict total order) is itself proved; __eq__ / __ne__ by canonical-enumeration lemmas",
   level="Each operation requires the representation invariant and ensures it together with the whole new view (frame included), so "
         "by induction every history yields the plain set-per-annotator model; zero-length rejection is an iff with the view unchanged; "
         "copy / merge / __add__ results are proved fresh and disjoint from their sources.",
   note="Also proved: a == b iff same annotators and same units (hence an equivalence), __getitem__ by annotator and by (annotator, index). "
        "Assumed: sortedcontainers / deepcopy / pyannote Segment models. Bounded only: iterunits."),
 "C16": dict(
   technique="contract-based deductive verification of ShuffleContinuumSampler.sample_from_continuum (three nested loops, ghost arrays of the "
             "chosen ground-truth annotator and pivot per sampled annotator, every random draw unconstrained within its support) and of "
             "the pure interval function _remove_pivot_segment (invariant over all real points); the weighted draw itself assumed",
   level="Proved for every draw: the sample is a fresh, valid, non-empty continuum with exactly one annotator 'Sampled_annotation i' per "
         "ground-truth annotator, each carrying exactly the units of one ground-truth annotator shifted by one pivot and wrapped by the "
         "continuum's length when they would start beyond the upper bound (labels kept); float pivots drawn while a segment is available lie "
         "within the bounds and pairwise at least avg-unit-length/2 apart; integer pivots are whole numbers. The weighted draw _random_from_segments is proved over the RNG "
         "model (its ValueError fallback is dead code). Bounded (labelled): equal counts, integer timestamps.",
   note="Known finding (int_pivot mode): truncation can leave the available segment, see known_findings.json. Assumed: RNG support model, sortedcontainers."),
 "C03": dict(
   technique="contract-based deductive verification of the disorder kernel (ghost pair-fold, loop invariants, n(n-1)/2 exact) and of the "
             "disorder clauses of get_best_alignment / get_best_soft_alignment, of the recomputation path (encoding of an alignment, "
             "compute_disorder of the dissimilarity and of both alignment classes) and of the lazy disorder property; the rest by a bounded stand-in",
   level="Proved for all inputs: _compute_alignment_disorders returns for each unitary alignment the fold over the pairs j < i of "
         "delta_empty-or-d_mat divided by n(n-1)/2 (with 2*C2 == n(n-1)); the alignments returned by the best / soft computations cache "
         "sum(tau.disorder)/x-bar and each tau carries its candidate's disorder (C07); recomputing stores in every unitary alignment the "
         "kernel's value on its rank-indexed encoding (independent of the order in which annotators are listed) and in the alignment their sum over "
         "x-bar; the lazy property returns the sum of the carried values over x-bar (attached and detached alignments). Bounded (labelled): "
         "recomputed == carried end to end, recomputation of detached alignments.",
   note="Known finding: UnitaryAlignment.compute_disorder (pinned by an existing test), see known_findings.json."),
 "C04": dict(
   technique="contract-based deductive verification of the compiled kernels (closures extracted from compile_d_mat, captured variables "
             "declared and checked) and the d() methods against the documented formulas; lemmas symmetric / non-negative / zero on identical / "
             "affine invariance over the reals; constructors of every family (class invariant through a function-valued field; the matrix builders "
             "of the lambda / ordinal / numerical families with loop invariants and an induction lemma identifying the np.argsort enumeration "
             "with the SortedSet enumeration); agreement of the two forms on encoded units by a bounded stand-in",
   level="Proved: positional kernel and method == ((|ds|+|de|)/(sum of durations))^2 * delta, absolute == [labels differ] * delta, precomputed "
         "kernel reads matrix[c1][c2] with the category index itself (cast modelled exactly), combined kernel == alpha*pos + beta*cat; "
         "after PositionalSporadicDissimilarity(d), AbsoluteCategoricalDissimilarity(d) and CombinedCategoricalDissimilarity(a, b, d) the "
         "object's d_mat IS that formula with the object's own delta_empty, and the one delta_empty reaches both components of the combined one.",
   note="Also proved: supplied components, precomputed / Levenshtein / ordinal / numerical constructors (their matrices do not depend on the "
        "order in which labels are supplied). check_if_dissim is proved to change nothing. Assumed: the Levenshtein distance is a function of the two "
        "names; numpy argsort / unique / arange / number parsing models."),
 "C12": dict(
   technique="contract-based deductive verification of Alignment.gamma_k_disorder against a ghost fold written from the statement "
             "(three nested loop invariants over numerator, denominator and the two 'counted' flags; slice and enumerate desugared exactly)",
   level="Proved for all alignments, categories and combined parameter sets: the result is the weighted mean (or the two from-code corner "
         "values) of the fold whose terms are exactly the statement's: weight 1/(k-1)*max(0, 1-alpha*positional) for real pairs, delta_empty "
         "at weight delta_empty for unit/empty pairs, category filter on either unit; never negative; division safe; TypeError otherwise.",
   note="GammaResults.gamma_cat / gamma_k (thread pool): 8 syntactic data-flow obligations + bounded runs. Known finding: gamma_k of an "
        "absent category (see known_findings.json)."),
 "C06": dict(
   technique="frame / effect contracts checked by a modular effect analysis over the real ASTs (RNG consumption, hash-order iteration, "
             "writes through parameters / non-fresh objects propagated over a conservative call graph); schedules are not enumerated",
   level="Sufficient condition, every obligation discharged on each run: the four functions handed to the executor and everything they may "
         "call consume no RNG, iterate over no builtin set, write only objects they allocated; the sampler draws are submit arguments "
         "(evaluated by the submitting thread in program order); results are read in submission order; no module state.",
   note="Replay tool (not the proof): seeded gamma runs under a deferring reverse-order executor, one worker, repetition, another PYTHONHASHSEED."),
 "C14": dict(
   technique="frame clauses: (a) heap frame obligations of the deductive verifier (objects outside `modifies` unchanged at every exit; "
             "results fresh and disjoint) for the functions under contract, (b) the effect analysis for every listed entry point",
   level="Proved: best / soft / fast alignment, valid_alignments, gamma_k_disorder, d(), recomputed disorders, both samplers' draws and every "
         "sampler initialisation, corpus_from_reference and false_neg_shuffle leave the continuum and dissimilarity they were given unchanged; copy, merge, "
         "__add__, copy_flush, samples and corpora are fresh objects sharing no mutable state. Effect analysis: no listed entry point writes through its "
         "input parameters. Bounded (labelled): the remaining entry points by snapshot comparison.",
   note="Assumed: deepcopy / sortedcontainers models; name-based call graph."),
 "C05": dict(
   technique="contract-based deductive verification of GammaResults (observed / expected disorder, gamma) and of the job functions handed "
             "to the thread pool, on top of the proved best / soft alignment contracts; compute_gamma's plumbing (no executor model) as data-flow obligations "
             "of its AST plus a bounded stand-in",
   level="Proved: gamma == 1 if observed == 0 else 1 - observed/mean(chance disorders) (ZeroDivisionError iff the mean is 0 and observed is "
         "not), <= 1 for non-negative observed and positive mean; expected == mean over exactly the held chance alignments; each job is the "
         "requested kind of alignment of the continuum it is given. Syntactic (12 obligations): which job runs on what, one fresh sample per "
         "job, batch sizes, results read once in order, what reaches GammaResults. Bounded (labelled): the same facts at run time.",
   note="Assumed: solver model (through the alignment contracts), np.mean."),
 "C09": dict(
   technique="lemmas over the contracts already proved on the real kernels: positional formula invariant under t -> k*t + c (non-linear reals), "
             "pair folds homogeneous in (d_mat, delta_empty) by induction, the candidate cut unchanged by that scaling, absolute categorical value "
             "depends on label equality only, unitary disorder invariant under slot permutations for n = 2 .. 5",
   level="Each lemma is an obligation discharged on every run together with the kernel postconditions it is stated over (so a change to a "
         "kernel that breaks an invariance breaks the kernel's formula clause or the lemma). Bounded (labelled): end-to-end metamorphic runs.",
   note="Over the reals (S2); the optimum-level step relies on the solver model."),
 "C20": dict(
   technique="wiring contract over the mechanically extracted argparse option table: data-flow obligations on pygamma_cmd's AST (which option "
             "reaches which parameter of which library call under which guard, in every output mode), plus the proved GammaResults contracts; "
             "value equality by a bounded stand-in",
   level="Every wiring obligation is re-derived from the current source on each run: alpha/beta/delta_empty/categorical choice reach the "
         "combined dissimilarity (each parser choice of -d tested and mapped to its class), precision / sample count / sampler / fast reach "
         "compute_gamma, the seed is set once before the first file, and print / csv / json modes read the same three quantities under the "
         "same -c / -k guards. Bounded (labelled): the numbers themselves, by running the tool in-process against the API.",
   note="argparse and the csv / json writers are trusted; no SMT back end is involved in the wiring obligations."),
 "C18": dict(
   technique="contract-based deductive verification of to_csv and from_csv over an assumed model of the csv module (a file is a sequence of rows of "
             "fields; reader o writer is the identity provided both files are opened with newline='', which is an obligation at every call)",
   level="Proved: to_csv writes exactly one row [annotator, label, start, end] per (annotator, unit), at the unit's position in iteration order; "
         "from_csv returns a fresh continuum holding exactly the rows with a positive length (annotator = column 0, label = column 1, times = "
         "float of columns 2 and 3), raises ValueError only when asked not to discard. Bounded (labelled): TextGrid / ELAN / RTTM readers and "
         "actual csv quoting.",
   note="Assumed: csv / open / float-str model; third-party parsers."),
 "C15": dict(
   technique="contract-based deductive verification of StatisticalContinuumSampler.sample_from_continuum with every random draw a fresh "
             "unconstrained value in its law's support (so clauses hold for every draw), plus law-tag data-flow obligations for the distribution part",
   level="Proved for every draw: the sample is a fresh continuum with exactly the ground-truth annotators, at least one unit, only units "
         "longer than the precision (RI), only labels from the sampler's category array, bounds / window copied from the reference, reference "
         "untouched. Law tags: unit count ~ |int Normal(avg_nb, std_nb)|, gaps ~ Normal(avg_gap, std_gap) chained on the previous end, durations "
         "~ |Normal(avg_dur, std_dur)|, categories ~ Categorical(categories, weights); parameters measured with mean / std of the same sample or "
         "exactly those supplied. Also proved: the four measuring setters (mean / np.std of exactly the reference's per-annotator counts and unit "
         "durations, category frequencies, and of a gap list holding only adjacent-unit distances and positive first starts), "
         "StatisticalContinuumSampler.init_sampling (both ground-truth forms) over them, and init_sampling_custom (the supplied parameters).",
   note="Not decided: convergence of empirical statistics (statistical); NumPy's generators are assumed to implement the tagged laws."),
 "C10": dict(
   technique="contract-based deductive verification of Continuum.get_fast_alignment (three nested loops: outer variant NumUnits(copy), "
             "partition invariants over the shrinking copy), of the generator Alignment.take_until_limit (progress lemma), of the fast job, "
             "and branch-structure (wiring) obligations on the window-size plumbing; get_first_window by an assumed contract plus a "
             "bounded stand-in with a stall detector",
   level="Proved for all continua with a unit and all window sizes >= 1, given the assumed contract of get_first_window: the main loop "
         "terminates (each iteration removes at least one unit: take_until_limit always yields the leftmost unitary alignment, which holds "
         "a real unit of the copy), the result is a partition of the continuum's own units (each exactly once, slots in annotator order), "
         "its reported disorder is the sum of its unitary alignments' over x-bar; the fast job calls the exact algorithm exactly when "
         "best_window_size is infinite and measure_best_window_size stores a verdict on both branches. Bounded (labelled): "
         "get_first_window, disorder >= optimum, == optimum for covering windows.",
   note="Two genuine defects repaired (non-termination on long overlapping units; stale finite window size). Assumed: get_first_window's "
        "contract, sorted() permutation model, solver contract, sortedcontainers model."),
 "C17": dict(
   technique="contract-based deductive verification of Alignment.check / SoftAlignment.check (three argument forms each) and of the "
             "validating constructors, over by-value models of builtin set / Counter and of the nested occurrence table; exceptional "
             "postconditions `raises E iff ...` make the verdict an exact characterisation",
   level="Proved for all alignments with >= 1 unitary alignment: Alignment.check returns normally iff every (annotator, unit) of the "
         "continuum is held by exactly one slot, raises SetPartitionError otherwise (ValueError for unequal widths); SoftAlignment.check "
         "returns normally iff every pair is held at least once (KeyError iff a held pair is foreign, SetPartitionError iff one is missing); "
         "check_validity=True applies exactly that check in both classes. Bounded (labelled): order independence, model conformance.",
   note="Assumed: set / Counter / occurrence-table models, sortedcontainers. Domain notes (empty alignment, repeated foreign pair) in evidence.not_decided."),
 "C19": dict(
   technique="contract-based deductive verification of corpus_from_reference, the shift / false-negative / false-positive / split shuffles, "
             "the constructor and corpus_shuffle (both argument forms, all 32 flag combinations) over the Continuum contracts, every random draw "
             "unconstrained within its support; category_shuffle by an assumed set-level contract and a bounded stand-in",
   level="Proved for every draw: corpus_from_reference returns a fresh continuum whose annotators are exactly the requested names (or "
         "annotator_0..k-1), each carrying exactly the reference annotator's units, bounds copied, categories those of the tool; "
         "false_neg_shuffle only removes units and leaves no annotator empty; shift_shuffle moves every unit by at most shift_max (nothing at "
         "magnitude 0), splits stay inside old units, false_pos_shuffle only adds units; corpus_shuffle yields exactly the requested annotators "
         "(+ the reference iff asked), none empty, only valid units, for every flag combination. Bounded (labelled): category shuffle, the "
         "counting clauses, magnitude 0 = exact copy.",
   note="Assumed: RNG support model, sortedcontainers; genericity hypothesis for the counting clauses."),
}
