"""Law tags of the statistical sampler (C15, DESIGN.md section 4 C15 'distribution part'): data-flow obligations on the AST - which
distribution family with which parameters feeds which quantity.  A contract cannot state convergence of empirical statistics; it pins the
law and the parameters at each draw site, and where the parameters come from (measured on the reference, or supplied)."""
import ast
import os
from . import extract
from .effects import EffectObligation

FILE = os.path.join("pygamma_agreement", "sampler.py")


def norm(n):
    return " ".join(ast.unparse(n).split())


def method(tree, cls, name, prop=False):
    for c in tree.body:
        if isinstance(c, ast.ClassDef) and c.name == cls:
            for f in c.body:
                if isinstance(f, ast.FunctionDef) and f.name == name:
                    return f
    return None


def obligations():
    tree, _ = extract.module_tree(FILE)
    obls = []

    def ob(name, ok, clause, detail=""):
        o = EffectObligation("C15/law/" + name, bool(ok), clause, str(detail)[:500])
        o.backend = "wiring"
        o.func = "pygamma_agreement/sampler.py::StatisticalContinuumSampler.sample_from_continuum"
        obls.append(o)
    f = method(tree, "StatisticalContinuumSampler", "sample_from_continuum")
    draws = [n for n in ast.walk(f) if isinstance(n, ast.Call) and norm(n.func).startswith("np.random.")]
    normal = [tuple(norm(a) for a in n.args) for n in draws if norm(n.func) == "np.random.normal"]
    ob("unit-count-is-normal(avg_nb, std_nb)", normal.count(("self._avg_nb_units_per_annotator", "self._std_nb_units_per_annotator")) == 1 and
       any(isinstance(n, ast.Assign) and norm(n.targets[0]) == "nb_units" and
           norm(n.value) == "abs(int(np.random.normal(self._avg_nb_units_per_annotator, self._std_nb_units_per_annotator)))" for n in ast.walk(f)),
       "the number of units of an annotator is |int(X)|, X ~ Normal(avg, std of units per annotator)", normal)
    ob("gap-is-normal(avg_gap, std_gap)", normal.count(("self._avg_gap", "self._std_gap")) == 1 and
       any(isinstance(n, ast.Assign) and norm(n.targets[0]) == "gap" and norm(n.value) == "np.random.normal(self._avg_gap, self._std_gap)"
           for n in ast.walk(f)) and
       any(isinstance(n, ast.Assign) and norm(n) == "start = last_point + gap" for n in ast.walk(f)) and
       any(isinstance(n, ast.Assign) and norm(n) == "last_point = end" for n in ast.walk(f)),
       "each gap ~ Normal(avg_gap, std_gap), added to the end of the previous unit", normal)
    ob("duration-is-abs-normal(avg_dur, std_dur)", normal.count(("self._avg_unit_duration", "self._std_unit_duration")) == 2 and
       sum(1 for n in ast.walk(f) if isinstance(n, ast.Assign) and norm(n) ==
           "end = start + abs(np.random.normal(self._avg_unit_duration, self._std_unit_duration))") == 2,
       "each duration ~ |Normal(avg_duration, std_duration)|, redrawn while shorter than the precision", normal)
    ob("no-other-normal-draw", len(normal) == 4, "no other normal draw", normal)
    choice = [n for n in draws if norm(n.func) == "np.random.choice"]
    ob("category-is-categorical(categories, weights)", len(choice) == 1 and [norm(a) for a in choice[0].args] == ["self._categories"] and
       {k.arg: norm(k.value) for k in choice[0].keywords} == {"p": "self._categories_weight"},
       "each category ~ Categorical(categories, weights) (uniform when no weights were supplied)", [norm(c) for c in choice])
    ob("no-other-draw", len(draws) == 5, "no other random draw in sample_from_continuum", [norm(d) for d in draws])
    # parameters: measured on the reference ...
    for setter, fields, src in (("_set_nb_units_information", ("_avg_nb_units_per_annotator", "_std_nb_units_per_annotator"), "nb_units"),
                                ("_set_duration_information", ("_avg_unit_duration", "_std_unit_duration"), "durations"),
                                ("_set_gap_information", ("_avg_gap", "_std_gap"), "gaps")):
        g = method(tree, "StatisticalContinuumSampler", setter)
        assigns = {norm(n.targets[0]): norm(n.value) for n in ast.walk(g) if isinstance(n, ast.Assign)} if g else {}
        ob(f"{setter}/mean-and-std-of-the-same-sample", assigns.get(f"self.{fields[0]}") == f"float(np.mean({src}))" and
           assigns.get(f"self.{fields[1]}") == f"float(np.std({src}))", f"{fields[0]} / {fields[1]} are the mean / deviation of `{src}`", assigns)
    g = method(tree, "StatisticalContinuumSampler", "_set_nb_units_information")
    a = {norm(n.targets[0]): norm(n.value) for n in ast.walk(g) if isinstance(n, ast.Assign)} if g else {}
    ob("_set_nb_units_information/sample", a.get("nb_units") == "[len(annotations) for annotator, annotations in self._reference_continuum._annotations.items()]",
       "units per annotator are counted on every annotator of the reference", a.get("nb_units"))
    g = method(tree, "StatisticalContinuumSampler", "_set_duration_information")
    a = {norm(n.targets[0]): norm(n.value) for n in ast.walk(g) if isinstance(n, ast.Assign)} if g else {}
    ob("_set_duration_information/sample", a.get("durations") == "[unit.segment.duration for _, unit in self._reference_continuum]",
       "durations are those of all units of the reference", a.get("durations"))
    g = method(tree, "StatisticalContinuumSampler", "_set_categories_information")
    body = [norm(n) for n in g.body] if g else []
    ob("_set_categories_information/frequencies", body == [
        "categories_set = self._reference_continuum.categories", "self._categories = np.array(categories_set)",
        "self._categories_weight = np.zeros(len(categories_set))",
        "for _, unit in self._reference_continuum: self._categories_weight[categories_set.index(unit.annotation)] += 1",
        "self._categories_weight /= self._reference_continuum.num_units"], "category weights = count / number of units, indexed like the category array", body)
    g = method(tree, "StatisticalContinuumSampler", "init_sampling")
    calls = [norm(n) for n in ast.walk(g) if isinstance(n, ast.Call)] if g else []
    ob("init_sampling/measures-all-four", all(f"self.{m}()" in calls for m in ("_set_gap_information", "_set_duration_information",
                                                                               "_set_categories_information", "_set_nb_units_information"))
       and "super().init_sampling(reference_continuum, ground_truth_annotators)" in calls,
       "init_sampling stores the reference / ground truth and measures the four groups of parameters", calls)
    # ... or supplied
    g = method(tree, "StatisticalContinuumSampler", "init_sampling_custom")
    a = {norm(n.targets[0]): norm(n.value) for n in ast.walk(g) if isinstance(n, ast.Assign)} if g else {}
    want = {"self._avg_nb_units_per_annotator": "avg_num_units_per_annotator", "self._std_nb_units_per_annotator": "std_num_units_per_annotator",
            "self._avg_gap": "avg_gap", "self._std_gap": "std_gap", "self._avg_unit_duration": "avg_duration", "self._std_unit_duration": "std_duration",
            "self._categories": "np.array(categories)"}
    ob("init_sampling_custom/parameters-are-the-supplied-ones", all(a.get(k) == v for k, v in want.items()),
       "custom initialisation stores exactly the supplied parameters", {k: a.get(k) for k in want})
    return obls
