"""VC generator: forward symbolic execution of the *real* function bodies (ast nodes from /repo) against sidecar
contracts.  Loops are cut by invariants, calls are replaced by the callee's contract (never inlined), every
subscript / division / narrowing store / assert yields a safety obligation.  See DESIGN.md 1.5."""
import ast
import fractions
import z3

from . import vals as V
from .vals import I, R, B, EngineError, Arr, SList, Lifted, Tup, Rec, Opt, Func, Ref, PyConst, NONE, NoneV
from . import extract
from .extract import StaleContract
from .contract import (Clause, as_clause, Contract, LoopSpec, REGISTRY, LEMMAS, sort_of, SORTS, NdArray, ListOf, GLOBAL_GHOSTS,
                       IntT, RealT, BoolT, TupleOf, FnT)


class Obligation:
    def __init__(self, name, kind, hyps, goal, func, line=None, clause=None, props=None):
        self.name, self.kind, self.hyps, self.goal = name, kind, list(hyps), goal
        self.func, self.line, self.clause, self.props = func, line, clause, props
        self.verdict = None
        self.backend = None
        self.seconds = 0.0
        self.detail = ""

    def formula(self):
        return z3.And(*self.hyps, z3.Not(self.goal)) if self.hyps else z3.Not(self.goal)

    def smt2(self, variant="all"):
        """variant: 'all' hypotheses, or a sound weakening (fewer hypotheses): 'recent' = global axioms + the most recent
        facts, 'entry+recent' = global axioms + the function-entry block + the most recent facts"""
        s = z3.Solver()
        s.add(*self.select(variant))
        s.add(z3.Not(self.goal))
        return s.to_smt2()

    RECENT = 34

    @staticmethod
    def canon(e, depth=0, cache=None):
        """canonical text of a term modulo the names of bound variables (alpha-equivalence)"""
        if z3.is_quantifier(e):
            n = e.num_vars()
            vs = [z3.Const(f"bv!{depth}!{i}", e.var_sort(i)) for i in range(n)]
            body = z3.substitute_vars(e.body(), *reversed(vs))
            kind = "A" if e.is_forall() else ("E" if e.is_exists() else "L")
            return f"({kind} {' '.join(str(e.var_sort(i)) for i in range(n))} {Obligation.canon(body, depth + 1)})"
        if z3.is_app(e):
            if e.num_args() == 0:
                return e.sexpr()
            return "(" + e.decl().name() + ":" + str(e.decl().kind()) + " " + " ".join(Obligation.canon(c, depth) for c in e.children()) + ")"
        return e.sexpr()

    def syntactic(self):
        """the goal (or each of its top-level conjuncts) is literally one of the hypotheses (or one of their top-level conjuncts),
        modulo bound-variable names"""
        def conjuncts(f):
            return [x for c in f.children() for x in conjuncts(c)] if z3.is_and(f) else [f]
        try:
            have = set()
            for h in self.hyps:
                for c in conjuncts(h):
                    have.add(self.canon(c))
            def close(have_, hyps_):
                # modus ponens on hypotheses that are literally `A -> B` with A (all its conjuncts) already at hand
                imps = [c for h in hyps_ for c in conjuncts(h) if z3.is_implies(c)]
                changed = True
                while changed and imps:
                    changed = False
                    for c in list(imps):
                        if all(self.canon(a) in have_ for a in conjuncts(c.arg(0))):
                            imps.remove(c)
                            for b in conjuncts(c.arg(1)):
                                k = self.canon(b)
                                if k not in have_:
                                    have_.add(k)
                                    changed = True
                return have_
            have = close(have, self.hyps)
            if all(self.canon(g) in have for g in conjuncts(self.goal)):
                return True
            # second pass modulo z3's simplifier (an equivalence-preserving rewriting: x + 0, double negations, ...)
            have2 = set(have)
            simp = [z3.simplify(h) for h in self.hyps]
            for h in simp:
                for c in conjuncts(h):
                    have2.add(self.canon(c))
            have2 = close(have2, simp)
            return all(self.canon(g) in have2 or self.canon(z3.simplify(g)) in have2 for g in conjuncts(self.goal))
        except Exception:   # noqa
            return False

    @staticmethod
    def symbols(e):
        acc, seen, todo = set(), set(), [e]
        while todo:
            x = todo.pop()
            if x.get_id() in seen:
                continue
            seen.add(x.get_id())
            if z3.is_quantifier(x):
                todo.append(x.body())
            elif z3.is_app(x):
                if x.decl().kind() == z3.Z3_OP_UNINTERPRETED:
                    acc.add(x.decl().name())
                todo.extend(x.children())
        return acc

    def relevant(self, depth=2, common=0.3):
        """hypotheses sharing a (not ubiquitous) uninterpreted symbol with the goal, transitively to `depth`;
        a subset of the hypotheses, hence a sound weakening"""
        hs = [self.symbols(h) for h in self.hyps]
        n = len(hs)
        freq = {}
        for s_ in hs:
            for x in s_:
                freq[x] = freq.get(x, 0) + 1
        rare = lambda x: freq.get(x, 0) <= max(3, common * n)     # noqa: E731
        cur = {x for x in self.symbols(self.goal) if rare(x)}
        keep = set(range(getattr(self, "n_global", 0)))
        for _ in range(depth):
            new = set()
            for i, s_ in enumerate(hs):
                if i not in keep and any(x in cur for x in s_):
                    keep.add(i)
                    new |= {x for x in s_ if rare(x)}
            cur |= new
        return [self.hyps[i] for i in sorted(keep)]

    def select(self, variant):
        g, e = getattr(self, "n_global", 0), getattr(self, "entry_len", 0)
        h = self.hyps
        w = self.RECENT
        if variant.startswith("relevant"):
            return self.relevant(int(variant.split(":")[1]) if ":" in variant else 2)
        if variant.startswith("recent:"):
            w = int(variant.split(":")[1])
            variant = "recent"
        if variant == "all" or len(h) <= g + w:
            return h
        tail = h[max(g, len(h) - w):]
        if variant == "recent":
            return h[:g] + tail
        if variant == "entry+recent":
            cut = max(g + e, len(h) - self.RECENT)
            return h[:g + e] + h[cut:]
        return h


class State:
    def __init__(self, env=None, pc=None, heap=None, old=None, nxt=None):
        self.env = env if env is not None else {}
        self.pc = pc if pc is not None else []
        self.heap = heap if heap is not None else {}
        self.old = old            # entry environment (for old(..))
        self.oldheap = None
        self.nxt = nxt if nxt is not None else [0]
        self.trace = []

    def clone(self):
        s = State(dict(self.env), list(self.pc), {k: dict(v) for k, v in self.heap.items()}, self.old, self.nxt)
        s.oldheap = self.oldheap
        s.plan, s.plan_pos = list(getattr(self, "plan", [])), getattr(self, "plan_pos", 0)
        s.trace = list(self.trace)
        return s

    def assume(self, *facts):
        for f in facts:
            if f is None:
                continue
            if isinstance(f, bool):
                f = z3.BoolVal(f)
            self.pc.append(f)


class Split(Exception):
    """an expression needs a case distinction that values cannot express (e.g. a choice between two heap objects):
    the enclosing statement is re-executed once per case"""

    def __init__(self, cond):
        self.cond = cond


class Outcome:
    def __init__(self, kind, st, val=None, exc=None, node=None):
        self.kind, self.st, self.val, self.exc, self.node = kind, st, val, exc, node


def qv(value):
    """exact rational for a Python float literal written in decimal"""
    if isinstance(value, bool):
        return z3.BoolVal(value)
    if isinstance(value, int):
        return z3.IntVal(value)
    fr = fractions.Fraction(repr(value)) if value == value and value not in (float("inf"), float("-inf")) else None
    if fr is None:
        raise EngineError("non-finite float literal")
    return z3.RealVal(fr)


_anchor_cache = {}


def loop_key(header):
    h = " ".join(header.split()).rstrip(":")
    if h.startswith("for ") and " in " in h:
        return h.split(" in ")[0]
    return h.split(" ")[0]


def norm_anchor(text):
    """anchors are compared as ast.unparse output (so spelling differences such as optional parentheses vanish)"""
    if text not in _anchor_cache:
        try:
            node = ast.parse(text.strip()).body[0]
            t = ast.unparse(node)
            if isinstance(node, (ast.For, ast.While, ast.If, ast.Try, ast.With)):
                t = t.split("\n")[0]
        except SyntaxError:
            t = text          # loop / if headers written without a body
        _anchor_cache[text] = " ".join(t.split())
    return _anchor_cache[text]


def anchor_matches(anchor, text):
    """an anchor ending in '...' matches any statement starting with the text before it"""
    a = anchor.strip()
    if a.endswith("..."):
        return text.startswith(" ".join(a[:-3].split()))
    return norm_anchor(a) == text


def is_z3(v):
    return isinstance(v, z3.ExprRef)


def is_bool(v):
    return is_z3(v) and v.sort() == B


def is_int(v):
    return is_z3(v) and v.sort() == I


def is_real(v):
    return is_z3(v) and v.sort() == R


def is_num(v):
    return is_int(v) or is_real(v)


def to_real(v):
    return z3.ToReal(v) if is_int(v) else v


def floor_div(a, b):
    return z3.If(b > 0, a / b, (-a) / (-b))


def trunc_int(x):
    """int(x) for a real x: truncation toward zero"""
    if is_int(x):
        return x
    return z3.If(x >= 0, z3.ToInt(x), -z3.ToInt(-x))


def zmin(a, b):
    a, b = V.coerce_pair(a, b)
    return z3.If(a <= b, a, b)


def zmax(a, b):
    a, b = V.coerce_pair(a, b)
    return z3.If(a >= b, a, b)


def zabs(a):
    return z3.If(a >= 0, a, -a)


class Engine:
    """One engine per function under contract."""

    MERGE = False
    MODELS = []       # list of callables (engine, call_node, st, spec) -> value | NotImplemented  (library models)
    ATTR_MODELS = []  # list of callables (engine, node, base_value, st, spec) -> value | NotImplemented
    ITER_MODELS = []  # list of callables (engine, iter_node, st) -> IterDesc | NotImplemented
    STMT_MODELS = []  # list of callables (engine, stmt, st) -> list[Outcome] | NotImplemented

    def __init__(self, qualname, registry=None, assumptions=None):
        self.qualname = qualname
        self.registry = registry if registry is not None else REGISTRY
        self.c = self.registry[qualname]
        self.fn = extract.find_function(qualname)
        self.loop_labels = extract.label_loops(self.fn)
        decs = extract.decorators(self.fn)
        if ("staticmethod" in decs) != bool(self.c.static):
            raise StaleContract(f"{qualname}: @staticmethod status differs from the contract")
        if ("classmethod" in decs) != bool(getattr(self.c, "is_classmethod", False)):
            raise StaleContract(f"{qualname}: @classmethod status differs from the contract")
        if ("property" in decs) != bool(self.c.is_property):
            raise StaleContract(f"{qualname}: @property status differs from the contract")
        self.obls = []
        self.gfuns = {}
        self.assumptions = assumptions if assumptions is not None else set()
        self.used_models = set()
        self.used_lemmas = set()
        self.callees = set()
        self.loop_seen = set()
        self.hook_seen = set()
        self.canary_points = []   # (name, hyps) : reachability canaries
        self.is_generator = extract.contains_yield(self.fn.body)
        self.depth = 0
        self.pending_raises = []
        self.psum_axioms_done = set()
        self.global_axioms = []

    # ------------------------------------------------------------------------------------------ obligations
    def oblige(self, st, goal, name, kind, line=None, clause=None, props=None):
        if isinstance(goal, bool):
            goal = z3.BoolVal(goal)
        if z3.is_true(goal):
            return
        self.obls.append(Obligation(f"{self.short}/{name}", kind, st.pc, goal, self.qualname, line,
                                    clause, props))

    @property
    def short(self):
        return self.qualname.partition("::")[2]

    # ------------------------------------------------------------------------------------------ entry
    def run(self):
        c = self.c
        st = State()
        argnames = [a.arg for a in self.fn.args.args]
        for name in argnames:
            if name not in c.params:
                raise StaleContract(f"{self.qualname}: parameter {name!r} has no type in the contract")
        for name in c.params:
            if name not in argnames:
                raise StaleContract(f"{self.qualname}: contract parameter {name!r} is not a parameter any more")
        self.check_closure(c)
        for name, t in list(c.params.items()) + list(c.closure.items()):
            v = self.make_param(name, t, st)
            st.env[name] = v
            st.assume(*self.type_facts(v))
        self.setup_spec(c, st)
        st.old = dict(st.env)
        st.oldheap = {k: dict(v) for k, v in st.heap.items()}
        for cl in c.requires:
            st.assume(self.spec(cl, st))
        self.canary_points.append((f"{self.short}/canary/entry", list(st.pc)))
        self.entry_len = len(st.pc)
        for lem in c.lemmas:
            self.prove_lemma(lem, st)
            st.assume(self.lemma_statement(lem, st))
        if self.is_generator:
            st.env["nyield"] = z3.IntVal(0)
        for name, (sortname, init) in c.ghost_vars.items():
            if init is None:
                st.env[name] = z3.Const(f"ghost_{name}", sort_of(sortname))
            else:
                st.env[name] = self.spec(Clause(init), st)
        # hooks anchored at "@entry" run before the first statement (they do not depend on any statement's text)
        for k, (when, anchor, ghost) in enumerate(c.hooks):
            if anchor.strip() == "@entry":
                self.hook_seen.add(k)
                self.exec_ghost(ghost, st)
        body = extract.strip_docstring(self.fn.body)
        outs = self.exec_block(body, st)
        for o in outs:
            if o.kind == "normal":
                self.at_return(o.st, NONE, self.fn.end_lineno)
            elif o.kind == "return":
                self.at_return(o.st, o.val, o.node.lineno if o.node else None)
            elif o.kind == "raise":
                self.at_raise(o)
            else:
                raise EngineError(f"{o.kind} outside a loop")
        # contract hygiene: every loop spec and hook must have bound to something
        for o in self.obls:
            o.entry_len = getattr(self, "entry_len", 0)
        if getattr(self, "psum_used", False):
            # prefix-sum axioms (quantified over arrays) only where np.sum / psum is used: quantifier-free VCs stay decidable
            for o in self.obls:
                o.hyps = list(self.global_axioms) + o.hyps
                o.n_global = len(self.global_axioms)
            self.canary_points = [(n, list(self.global_axioms) + h) for n, h in self.canary_points]
        for lab in c.loops:
            if lab not in self.loop_seen:
                raise StaleContract(f"{self.qualname}: loop contract {lab} binds to no loop")
        for k, h in enumerate(c.hooks):
            if k not in self.hook_seen:
                raise StaleContract(f"{self.qualname}: ghost hook anchored at {h[1]!r} binds to no statement")
        return self.obls

    def make_param(self, name, t, st):
        return t.fresh(name)

    def check_closure(self, c):
        """captured variables of a closure: every free name of the body must be declared (and be a local of the
        enclosing function), so that a new capture cannot go unnoticed"""
        if not c.closure and ".<locals>." not in self.qualname:
            return
        bound = {a.arg for a in self.fn.args.args} | extract.assigned_names(self.fn.body)
        free = set()
        for n in ast.walk(ast.Module(body=self.fn.body, type_ignores=[])):
            if isinstance(n, ast.Name) and isinstance(n.ctx, ast.Load) and n.id not in bound:
                free.add(n.id)
        free -= {"np", "nb", "abs", "min", "max", "int", "float", "len", "range", "enumerate"}
        missing = free - set(c.closure)
        if missing:
            raise StaleContract(f"{self.qualname}: the closure captures {sorted(missing)}, which the contract does not declare")
        unused = set(c.closure) - free
        if unused:
            raise StaleContract(f"{self.qualname}: the contract declares captured names {sorted(unused)} that the body no longer uses")

    def setup_spec(self, c, st):
        prog = extract.assigned_names(self.fn.body) | {a.arg for a in self.fn.args.args}
        clash = prog & (set(c.lets) | set(c.ghost_vars) | set(c.macros) | {g.name for g in c.ghost_funs})
        if clash:
            raise EngineError(f"{self.qualname}: specification names clash with program variables: {sorted(clash)}")
        for g in c.ghost_funs:
            self.gfuns[g.name] = z3.Function(f"{g.name}", *g.arg_sorts, g.ret_sort) if g.arg_sorts \
                else z3.Const(g.name, g.ret_sort)
        for name, text in c.lets.items():
            st.env[name] = self.spec(Clause(text), st)
        for ax in c.axioms:
            st.assume(self.spec(ax, st))
        for lname in c.uses:
            lem = LEMMAS[lname]
            self.used_lemmas.add(lname)
            st.assume(self.lemma_statement(lem, st))

    def lemma_statement(self, lem, st):
        body = lem.statement
        if not lem.binders:
            # (a lemma without binders still holds only under its hypotheses)
            hyps0 = [self.spec(h, st) for h in lem.hyps]
            b0 = self.spec(body, st)
            return z3.Implies(z3.And(*hyps0), b0) if hyps0 else b0
        env2 = st.clone()
        bs = []
        for (n, s) in lem.binders:
            x = z3.Const(n, sort_of(s))
            env2.env[n] = self.wrap_bound(x)
            bs.append(x)
        hyps = [self.spec(h, env2) for h in lem.hyps]
        b = self.spec(body, env2)
        f = z3.Implies(z3.And(*hyps), b) if hyps else b
        if lem.pats:
            pats = [self.spec_pat(p, env2) for p in lem.pats]
            return z3.ForAll(bs, f, patterns=pats)
        return z3.ForAll(bs, f)

    def prove_lemma(self, lem, st):
        """auto: one VC.  ('induction', var, lo): base (var == lo) and step (IH quantified over the other binders)."""
        def instance(subst=None, fresh_tag=""):
            env2 = st.clone()
            xs = {}
            for (n, s_) in lem.binders:
                xs[n] = V.fresh(n + fresh_tag, sort_of(s_))
                env2.env[n] = self.wrap_bound(xs[n])
            if subst:
                for n, f in subst.items():
                    env2.env[n] = f(env2, xs)
            hyps = [self.spec(h, env2) for h in lem.hyps]
            return env2, xs, hyps, self.spec(lem.statement, env2)
        if lem.method == "auto":
            env2, xs, hyps, goal = instance()
            env2.assume(*hyps)
            for k, h in enumerate(lem.hints):
                if h.text.startswith("use "):
                    # one explicit instance of an EARLIER lemma of the same contract (already proved; no circularity)
                    nm = h.text[4:].split("(")[0].strip()
                    names = [l.name for l in self.c.lemmas]
                    if nm not in names or names.index(nm) >= names.index(lem.name):
                        raise EngineError(f"lemma {lem.name}: `use {nm}` must name a lemma stated before it")
                    self.exec_ghost(h.text, env2)
                    continue
                g = self.spec(h, env2)
                self.oblige(env2, g, f"lemma:{lem.name}/hint#{k}", "lemma", None, h.text)
                env2.assume(g)
            self.oblige(env2, goal, f"lemma:{lem.name}", "lemma", None, lem.statement.text)
            return
        kind, var, lo = lem.method[:3]
        fixed = len(lem.method) > 3 and lem.method[3] == "fixed"     # IH at the same values of the other binders only (an instance of the
        assert kind == "induction"                                   # quantified IH: sound, and free of quantifiers over arrays)
        lo_cl = Clause(lo)
        # base
        env2, xs, hyps, goal = instance({var: lambda e, xs: self.spec(lo_cl, e)})
        env2.assume(*hyps)
        self.oblige(env2, goal, f"lemma:{lem.name}/base", "lemma", None, lem.statement.text)
        # step: IH for every value of the other binders at `var`, prove at var+1
        stp = st.clone()
        v0 = V.fresh(var, sort_of(dict(lem.binders)[var]))
        ih_env, ih_xs, ih_hyps, ih_goal = instance({var: lambda e, xs: v0}, "_ih")
        others = [x for n, x in ih_xs.items() if n != var]
        ih = z3.Implies(z3.And(*ih_hyps), ih_goal) if ih_hyps else ih_goal
        env3, xs3, hyps3, goal3 = instance({var: lambda e, xs: v0 + 1})
        if others and fixed:
            ih = z3.substitute(ih, [(x, xs3[n]) for n, x in ih_xs.items() if n != var])
        elif others:
            ih = z3.ForAll(others, ih)
        env3.assume(v0 >= self.spec(lo_cl, env3), ih, *hyps3)
        self.oblige(env3, goal3, f"lemma:{lem.name}/step", "lemma", None, lem.statement.text)

    def spec_pat(self, p, st):
        if isinstance(p, (list, tuple)):
            return z3.MultiPattern(*[self.spec(Clause(x), st) for x in p])
        return self.spec(Clause(p), st)

    def type_facts(self, v):
        facts = []
        if isinstance(v, Arr):
            facts += [d >= 0 for d in v.dims]
        elif isinstance(v, SList):
            facts.append(v.length >= 0)
            k = z3.Int("k!tf")
            el = v.get(k)
            inner = self.type_facts(el)
            if inner:
                facts.append(z3.ForAll(k, z3.Implies(z3.And(0 <= k, k < v.length), z3.And(*inner))))
        elif isinstance(v, Tup):
            for it in v.items:
                facts += self.type_facts(it)
        return facts

    def prove_all(self, st, clauses, prefix, kind, line):
        """prove a list of conjuncts in order; each may rely on the ones before it (sequential assertion semantics:
        a failing earlier conjunct is reported on its own)"""
        for k, cl in enumerate(clauses):
            try:
                g = self.spec(cl, st)
            except EngineError as e:
                raise EngineError(f"{prefix}#{cl.name or k}: {e}")
            self.oblige(st, g, f"{prefix}#{cl.name or k}", kind, line, cl.text, cl.props)
            st.assume(g)

    # ------------------------------------------------------------------------------------------ exits
    def at_return(self, st, val, line):
        c = self.c
        if self.is_generator:
            if c.count is not None:
                g = self.spec(c.count, st)
                self.oblige(st, st.env["nyield"] == g, "count", "post", line, c.count.text, c.count.props)
            self.canary_points.append((f"{self.short}/canary/generator-end@{line}", list(st.pc)))
            self.prove_all(st.clone(), c.count_facts, "count-fact", "post", line)
            return
        st = st.clone()
        st.env["result"] = val
        if c.unreachable:
            # a return the contract declares dead code under its requires (a defensive fallback): proved unreachable instead of
            # being a reachability canary; a declared anchor that matches no return statement makes the contract stale
            rets = [" ".join(ast.unparse(n).split()) for n in ast.walk(self.fn) if isinstance(n, ast.Return)]
            for a in c.unreachable:
                if not any(anchor_matches(a, t) for t in rets):
                    raise StaleContract(f"{self.qualname}: `unreachable` anchor {a!r} matches no return statement")
            here = [" ".join(ast.unparse(n).split()) for n in ast.walk(self.fn) if isinstance(n, ast.Return) and n.lineno == line]
            if here and any(anchor_matches(a, here[0]) for a in c.unreachable):
                self.oblige(st, z3.BoolVal(False), f"unreachable-return@{line}", "post", line,
                            f"`{here[0]}` is never reached under the contract's requires")
                return
        self.canary_points.append((f"{self.short}/canary/return@{line}", list(st.pc)))
        for exc, rs in c.raises.items():
            if rs.get("iff") is not None:
                cl = as_clause(rs["iff"])
                self.oblige(st, z3.Not(self.spec(cl, self.entry_view(st))), f"returns-only-when-not-{exc}@{line}", "post",
                            line, f"not ({cl.text})", cl.props)
        self.prove_all(st, c.ensures, f"post@{line}", "post", line)
        self.frame_obligations(st, line)

    def entry_view(self, st):
        """the state in which `raises` conditions are read: entry values of the parameters, entry heap"""
        st2 = State(env={**st.env, **(st.old or {})}, pc=st.pc, heap=st.oldheap if st.oldheap is not None else st.heap,
                    old=st.old, nxt=st.nxt)
        st2.oldheap = st.oldheap
        return st2

    def frame_obligations(self, st, line):
        pass

    def apply_binds(self, callee, sub, cst, st):
        pass

    def bind_result(self, callee, sub, cst, st, res):
        pass

    def at_raise(self, o):
        c = self.c
        spec = c.raises.get(o.exc)
        line = o.node.lineno if o.node is not None else None
        if spec is None:
            # exception freedom: this path must be infeasible
            self.oblige(o.st, z3.BoolVal(False), f"no-{o.exc}@{line}", "exception-freedom", line,
                        f"{o.exc} is never raised")
            return
        st = o.st.clone()
        when = spec.get("iff", spec.get("when"))
        if when is not None:
            cl = as_clause(when)
            self.oblige(st, self.spec(cl, self.entry_view(st)), f"raises-{o.exc}-only-when@{line}", "post", line, cl.text, cl.props)
        for k, p in enumerate(spec.get("post", [])):
            cl = as_clause(p)
            self.oblige(st, self.spec(cl, st), f"raises-{o.exc}-post#{k}@{line}", "post", line, cl.text, cl.props)

    # ------------------------------------------------------------------------------------------ spec evaluation
    def spec(self, clause, st):
        clause = as_clause(clause)
        try:
            return self.ev(clause.node, st, True)
        except EngineError as e:
            raise EngineError(f"in spec {clause.text!r}: {e}")
        except z3.Z3Exception as e:
            raise EngineError(f"in spec {clause.text!r}: z3: {e}")

    # ------------------------------------------------------------------------------------------ statements
    def exec_block(self, stmts, st):
        outs = [Outcome("normal", st)]
        for s in stmts:
            new = []
            for o in outs:
                if o.kind == "normal":
                    new += self.exec_stmt_hooked(s, o.st)
                else:
                    new.append(o)
            outs = new
            if len(outs) > 4000:
                raise EngineError("path explosion")
        return outs

    def exec_stmt_hooked(self, s, st):
        text = None
        before, after = [], []
        if self.c.hooks:
            text = " ".join(ast.unparse(s).split()) if not isinstance(s, (ast.For, ast.While, ast.If, ast.Try, ast.With)) \
                else " ".join(ast.unparse(s).split("\n")[0].split())
            for k, (when, anchor, ghost) in enumerate(self.c.hooks):
                if anchor_matches(anchor, text):
                    self.hook_seen.add(k)
                    (before if when == "before" else after).append(ghost)
        for g in before:
            self.exec_ghost(g, st)
        outs = self.exec_stmt(s, st)
        if after:
            for o in outs:
                if o.kind == "normal":
                    for g in after:
                        self.exec_ghost(g, o.st)
        return outs

    def exec_ghost(self, text, st):
        if text.startswith("model_inv "):
            # the library's own representation invariant (strictly increasing enumeration onto the members): part of the
            # trusted sorted-container model, usable at any program point; nothing else may be assumed this way
            node = ast.parse(text[len("model_inv "):].strip(), mode="eval").body
            if not (isinstance(node, ast.Call) and isinstance(node.func, ast.Name) and node.func.id in ("wfmap", "wfset", "wfcats")):
                raise EngineError("model_inv accepts only wfmap(..) / wfset(..) / wfcats(..)")
            st.assume(self.ev(node, st, True))
            self.used_models.add("model:sortedcontainers enumeration invariant assumed at a program point (model_inv)")
            return
        if text.startswith("use "):
            # use lemma(b1=expr, ...): one explicit instance of a lemma of this contract (proved at entry; symbols other than its
            # binders denote entry values).  Needed where a binder must be instantiated by a lambda term, which E-matching does not find.
            node = ast.parse(text[len("use "):].strip(), mode="eval").body
            if not (isinstance(node, ast.Call) and isinstance(node.func, ast.Name)):
                raise EngineError("use lemma(binder=expr, ...)")
            lem = next((l for l in self.c.lemmas if l.name == node.func.id), None)
            if lem is None:
                raise EngineError(f"use: no lemma {node.func.id} in this contract")
            vals = {k.arg: self.ev(k.value, st, True) for k in node.keywords}
            if set(vals) != {n for n, _ in lem.binders}:
                raise EngineError(f"use {lem.name}: give every binder {[n for n, _ in lem.binders]}")
            env2 = self.entry_view(st)
            for n, s_ in lem.binders:
                v = vals[n]
                v = v.data if isinstance(v, Arr) else v
                if is_z3(v) and v.sort() != sort_of(s_):
                    if sort_of(s_) == R and v.sort() == I:
                        v = z3.ToReal(v)
                    else:
                        raise EngineError(f"use {lem.name}: binder {n} has sort {sort_of(s_)}, given {v.sort()}")
                env2.env[n] = self.wrap_bound(v)
            hyps = [self.spec(h, env2) for h in lem.hyps]
            b = self.spec(lem.statement, env2)
            st.assume(z3.Implies(z3.And(*hyps), b) if hyps else b)
            return
        if text.startswith("assert "):
            cl = Clause(text[len("assert "):])
            g = self.spec(cl, st)
            self.hint_no = getattr(self, "hint_no", 0) + 1
            self.oblige(st, g, f"hint#{self.hint_no}", "hint", None, cl.text)
            st.assume(g)
            return
        node = ast.parse(text.strip()).body[0]
        if not isinstance(node, ast.Assign) or not isinstance(node.targets[0], ast.Name):
            raise EngineError(f"ghost statement must be 'name = expr': {text}")
        self.ghost_assign(node.targets[0].id, self.ev(node.value, st, True), st)

    def exported_generator_ghosts(self, c=None):
        """ghost variables a generator's yield clauses / count facts mention: the caller sees ONE existential witness for each, which is
        sound only if the variable has the same value at every yield - it may be assigned only before the first yield"""
        c = c or self.c
        import re as _re
        text = " ".join([x.text for x in c.yields] + [x.text for x in c.count_facts] + ([c.count.text] if c.count else []))
        return [g for g in c.ghost_vars if _re.search(r"\b%s\b" % _re.escape(g), text)]

    def ghost_assign(self, name, val, st):
        if self.is_generator and name in self.exported_generator_ghosts():
            self.oblige(st, st.env["nyield"] == 0, f"ghost-constant-{name}-set-before-the-first-yield", "hint", None,
                        f"{name} is exported to callers as one value: assigned only while nyield == 0")
        st.env[name] = val

    def exec_stmt(self, s, st, plan=()):
        """execute one statement; an expression that needs a case distinction (Split) makes the statement re-run once per case.
        Decisions are positional (the k-th case distinction met while executing this statement takes the k-th planned value):
        re-evaluated conditions may contain fresh symbols, so they cannot be recognised by their text."""
        snap = st.clone()
        nobl = len(self.obls)
        st.plan, st.plan_pos = list(plan), 0
        try:
            return self.exec_stmt1(s, st)
        except Split:
            if len(plan) > 12:
                raise EngineError("too many case distinctions in one statement")
            del self.obls[nobl:]
            self.pending_raises = []
            outs = []
            for val in (True, False):
                outs += self.exec_stmt(s, snap.clone(), tuple(plan) + (val,))
            return outs

    def decide(self, cond, st):
        """truth of a condition that values cannot carry: from the plan of the enclosing statement, or None (-> Split)"""
        c = z3.simplify(cond)
        if z3.is_true(c):
            return True
        if z3.is_false(c):
            return False
        k = self.literally_known(c, st)
        if k is not None:
            return k
        if getattr(st, "plan_pos", 0) < len(getattr(st, "plan", [])):
            val = st.plan[st.plan_pos]
            st.plan_pos += 1
            st.assume(cond if val else z3.Not(cond))
            return val
        return None

    def exec_stmt1(self, s, st):
        for m in self.STMT_MODELS:
            r = m(self, s, st)
            if r is not NotImplemented:
                return r
        meth = getattr(self, "st_" + type(s).__name__, None)
        if meth is None:
            raise EngineError(f"unsupported statement {type(s).__name__} at line {s.lineno}")
        return meth(s, st)

    def st_Pass(self, s, st):
        return [Outcome("normal", st)]

    def st_Import(self, s, st):
        return [Outcome("normal", st)]

    st_ImportFrom = st_Import

    def st_Delete(self, s, st):
        for t in s.targets:
            if isinstance(t, ast.Name):
                st.env.pop(t.id, None)
            else:
                raise EngineError("del of a non-name")
        return [Outcome("normal", st)]

    def st_Expr(self, s, st):
        if isinstance(s.value, ast.Constant):
            return [Outcome("normal", st)]
        if isinstance(s.value, ast.Yield):
            return self.do_yield(s.value, st)
        return self.with_raises(lambda: self.ev(s.value, st, False), st, lambda v, st2: None, s)

    def with_raises(self, thunk, st, cont, node):
        """evaluate an expression that may raise through a contract call: returns outcomes"""
        self.pending_raises = []
        saved = self.pending_raises
        v = thunk()
        outs = []
        for (exc, rst) in saved:
            outs.append(Outcome("raise", rst, exc=exc, node=node))
        self.pending_raises = []
        cont(v, st)
        outs.append(Outcome("normal", st, val=v))
        return outs

    def do_yield(self, y, st):
        v = self.ev(y.value, st, False)
        st2 = st.clone()
        st2.env["yielded"] = v
        for k, cl in enumerate(self.c.yields):
            self.oblige(st2, self.spec(cl, st2), f"yield#{k}@{y.lineno}", "post", y.lineno, cl.text, cl.props)
        st.env["nyield"] = st.env["nyield"] + 1
        if "k" in self.c.ghost_vars:
            pass
        return [Outcome("normal", st)]

    def st_Assign(self, s, st):
        empty = (isinstance(s.value, ast.List) and not s.value.elts) or \
                (isinstance(s.value, ast.Call) and not s.value.args and not s.value.keywords
                 and ast.unparse(s.value.func) in ("nb.typed.List", "list"))
        if empty and len(s.targets) == 1 and isinstance(s.targets[0], ast.Name) and s.targets[0].id in self.c.locals:
            tmpl = self.make_param(V.fresh_name(s.targets[0].id + "_elem"), self.c.locals[s.targets[0].id], st)
            st.env[s.targets[0].id] = SList(z3.IntVal(0), Lifted.fresh(tmpl, s.targets[0].id))
            return [Outcome("normal", st)]

        if isinstance(s.value, ast.Call) and ast.unparse(s.value.func) == "set" and not s.value.args and not s.value.keywords:
            # set(): the element type comes from the contract's `locals` (a by-value set needs it before the first add)
            if not (len(s.targets) == 1 and isinstance(s.targets[0], ast.Name) and s.targets[0].id in self.c.locals):
                raise EngineError("set() assigned to a name whose element type the contract does not declare (locals=...)")
            tmpl = self.make_param(V.fresh_name(s.targets[0].id + "_elem"), self.c.locals[s.targets[0].id], st)
            st.env[s.targets[0].id] = self.empty_set(tmpl)
            return [Outcome("normal", st)]

        def cont(v, st2):
            for t in s.targets:
                self.assign(t, v, st2, s)
        return self.with_raises(lambda: self.ev(s.value, st, False), st, cont, s)

    def empty_set(self, tmpl):
        raise EngineError("set(): model not loaded")

    def st_AnnAssign(self, s, st):
        if s.value is None:
            return [Outcome("normal", st)]
        return self.with_raises(lambda: self.ev(s.value, st, False), st,
                                lambda v, st2: self.assign(s.target, v, st2, s), s)

    def st_AugAssign(self, s, st):
        def thunk():
            cur = self.ev(s.target, st, False)
            rhs = self.ev(s.value, st, False)
            return self.binop(s.op, cur, rhs, st, False, s)
        return self.with_raises(thunk, st, lambda v, st2: self.assign(s.target, v, st2, s), s)

    def st_Return(self, s, st):
        if s.value is None:
            return [Outcome("return", st, NONE, node=s)]
        outs = self.with_raises(lambda: self.ev(s.value, st, False), st, lambda v, st2: None, s)
        return [Outcome("return", o.st, o.val, node=s) if o.kind == "normal" else o for o in outs]

    def st_Raise(self, s, st):
        exc = s.exc
        if exc is None:
            name = st.env.get("$current_exc", "Exception")
        elif isinstance(exc, ast.Call):
            name = ast.unparse(exc.func)
        elif isinstance(exc, ast.Name):
            v = st.env.get(exc.id)
            name = v.value if isinstance(v, PyConst) else exc.id
        else:
            name = ast.unparse(exc)
        return [Outcome("raise", st, exc=name.split(".")[-1], node=s)]

    def st_Assert(self, s, st):
        outs = self.with_raises(lambda: self.truthy(self.ev(s.test, st, False), st), st, lambda v, st2: None, s)
        res = []
        for o in outs:
            if o.kind != "normal":
                res.append(o)
                continue
            c = o.val
            bad = o.st.clone()
            bad.assume(z3.Not(c))
            res.append(Outcome("raise", bad, exc="AssertionError", node=s))
            o.st.assume(c)
            res.append(Outcome("normal", o.st))
        return res

    def st_If(self, s, st):
        outs = self.with_raises(lambda: self.truthy(self.ev(s.test, st, False), st), st, lambda v, st2: None, s)
        res = []
        for o in outs:
            if o.kind != "normal":
                res.append(o)
                continue
            c = z3.simplify(o.val)
            known = self.literally_known(c, o.st)
            if z3.is_true(c) or known is True:
                res += self.exec_block(s.body, o.st)
            elif z3.is_false(c) or known is False:
                res += self.exec_block(s.orelse, o.st)
            else:
                st_t, st_f = o.st.clone(), o.st
                st_t.assume(c)
                st_f.assume(z3.Not(c))
                res += self.merge(self.exec_block(s.body, st_t), self.exec_block(s.orelse, st_f), c)
        return res

    def literally_known(self, c, st):
        """cheap syntactic pruning: the condition (or its negation) is literally among the recent path facts.
        Structural comparison on live terms (ast ids of temporaries are recycled by z3, never compare those)."""
        facts = [z3.simplify(f) for f in st.pc[-40:]]
        nc = z3.simplify(z3.Not(c))
        hc, hn = c.hash(), nc.hash()
        for f in facts:
            h = f.hash()
            if h == hc and f.eq(c):
                return True
            if h == hn and f.eq(nc):
                return False
        return None

    def merge(self, outs_t, outs_f, c):
        """join two branch results when both ended normally in exactly one state with mergeable environments"""
        nt = [o for o in outs_t if o.kind == "normal"]
        nf = [o for o in outs_f if o.kind == "normal"]
        rest = [o for o in outs_t + outs_f if o.kind != "normal"]
        if self.MERGE and len(nt) == 1 and len(nf) == 1 and self.mergeable(nt[0].st, nf[0].st):
            a, b = nt[0].st, nf[0].st
            # common prefix of the path conditions
            k = 0
            while k < len(a.pc) and k < len(b.pc) and a.pc[k] is b.pc[k]:
                k += 1
            m = a.clone()
            m.pc = a.pc[:k]
            ta, tb = a.pc[k:], b.pc[k:]
            m.pc.append(z3.Or(z3.And(*ta) if ta else z3.BoolVal(True), z3.And(*tb) if tb else z3.BoolVal(True)))
            for name in set(a.env) | set(b.env):
                if name in a.env and name in b.env:
                    va, vb = a.env[name], b.env[name]
                    if va is vb:
                        continue
                    cond = z3.And(*ta) if ta else z3.BoolVal(True)
                    m.env[name] = V.ite(cond, va, vb)
                else:
                    m.env.pop(name, None)
            for oid in a.heap:
                for f in a.heap[oid]:
                    va, vb = a.heap[oid][f], b.heap[oid].get(f)
                    if va is not vb:
                        cond = z3.And(*ta) if ta else z3.BoolVal(True)
                        m.heap[oid][f] = V.ite(cond, va, vb)
            return [Outcome("normal", m)] + rest
        return outs_t + outs_f

    def mergeable(self, a, b):
        if set(a.heap) != set(b.heap):
            return False
        for oid in a.heap:
            if set(a.heap[oid]) != set(b.heap[oid]):
                return False
            for f in a.heap[oid]:
                va, vb = a.heap[oid][f], b.heap[oid][f]
                if va is not vb and not self._ok_merge(va, vb):
                    return False
        for name in set(a.env) & set(b.env):
            va, vb = a.env[name], b.env[name]
            if va is vb:
                continue
            if not self._ok_merge(va, vb):
                return False
        return True

    def _ok_merge(self, va, vb):
        if isinstance(va, (str, NoneV, PyConst, Func, Ref)) or isinstance(vb, (str, NoneV, PyConst, Func, Ref)):
            return False
        try:
            return V.same_shape(va, vb)
        except EngineError:
            return False

    # ------------------------------------------------------------------------------------------ loops
    def loop_spec(self, s):
        lab = self.loop_labels[id(s)]
        spec = self.c.loops.get(lab)
        if spec is None:
            raise EngineError(f"loop {lab} at line {s.lineno} has no invariant in the contract")
        if isinstance(spec, dict):
            spec = LoopSpec(**spec)
            self.c.loops[lab] = spec
        head = " ".join(ast.unparse(s).split("\n")[0].split())
        # a loop contract is bound by ordinal path + loop kind + iteration variable(s); a changed iterable or guard is a
        # semantic change that the obligations themselves decide, not a binding failure
        if spec.match is not None and loop_key(spec.match) != loop_key(head):
            raise StaleContract(f"{self.qualname}: loop {lab} is now {head!r}, the contract expects {spec.match!r}")
        self.loop_seen.add(lab)
        return lab, spec

    def havoc(self, st, names, body):
        """forget everything about the variables a loop body may write (keep array dims for element-only stores)"""
        rebound = self.rebound_names(body)
        for n in names:
            if n not in st.env:
                continue
            v = st.env[n]
            if isinstance(v, Ref):
                continue
            if isinstance(v, Arr) and n not in rebound:
                st.env[n] = Arr(V.fresh(n, v.data.sort()), v.dims, v.dtype)
            elif isinstance(v, (str, NoneV, PyConst, Func)):
                continue
            else:
                nv = V.fresh_like(v, n)
                st.env[n] = nv
                st.assume(*self.type_facts(nv))

    def loop_shape_check(self, head, end, names, lab):
        """a name the loop body may write keeps, at the head of an arbitrary iteration, the value it had before the loop when that value
        is a Python constant (None, a str / tuple constant, a function): havoc has nothing to forget.  That is only right if the body
        leaves it that constant: otherwise the head state misses the other values (declare the local Optional in `locals`)."""
        for n in names:
            hv = head.env.get(n)
            if not isinstance(hv, (str, NoneV, PyConst, Func)):
                continue
            ev = end.env.get(n)
            same = ev is hv or (isinstance(hv, NoneV) and isinstance(ev, NoneV)) or \
                (isinstance(hv, PyConst) and isinstance(ev, PyConst) and type(hv.value) is type(ev.value) and hv.value == ev.value) or \
                (isinstance(hv, str) and isinstance(ev, str) and hv == ev)
            if not same:
                raise EngineError(f"loop {lab}: `{n}` is the constant {hv!r} before the loop and another value after an iteration: "
                                  f"declare it in the contract's locals (e.g. OptT(...)) so that the loop head covers both")

    def rebound_names(self, stmts):
        out = set()

        class W(ast.NodeVisitor):
            def visit_Assign(s2, n):
                for t in n.targets:
                    s2._t(t)
                s2.generic_visit(n)

            def visit_AugAssign(s2, n):
                s2._t(n.target)
                s2.generic_visit(n)

            def visit_For(s2, n):
                s2._t(n.target)
                s2.generic_visit(n)

            def _t(s2, t):
                if isinstance(t, ast.Name):
                    out.add(t.id)
                elif isinstance(t, (ast.Tuple, ast.List)):
                    for e in t.elts:
                        s2._t(e)

            def visit_Call(s2, n):
                f = n.func
                if isinstance(f, ast.Attribute) and f.attr in extract.MUTATORS and isinstance(f.value, ast.Name):
                    out.add(f.value.id)
                s2.generic_visit(n)
        for s in stmts:
            W().visit(s)
        return out

    def modified_in(self, s, spec):
        names = extract.assigned_names(s.body)
        if isinstance(s, ast.For):
            names |= extract.assigned_names([ast.Assign(targets=[s.target], value=ast.Constant(0))])
        if extract.contains_yield(s.body):
            names.add("nyield")
        # ghost variables written by hooks anchored inside the body
        if self.c.hooks:
            texts = set()
            for n in ast.walk(ast.Module(body=s.body, type_ignores=[])):
                if isinstance(n, ast.stmt):
                    texts.add(" ".join(ast.unparse(n).split("\n")[0].split())
                              if isinstance(n, (ast.For, ast.While, ast.If, ast.Try, ast.With))
                              else " ".join(ast.unparse(n).split()))
            for (when, anchor, ghost) in self.c.hooks:
                if any(anchor_matches(anchor, t) for t in texts):
                    names.add(ghost.split("=")[0].strip())
        names |= set(spec.modifies)
        return names

    def st_For(self, s, st):
        lab0 = self.loop_labels[id(s)]
        if self.c.loops.get(lab0) is None and isinstance(s.iter, ast.Tuple) and 1 <= len(s.iter.elts) <= 4 and not s.orelse:
            # `for x in (a, b, c):` over a literal tuple with no loop contract: executed element by element (exact, no invariant needed)
            states = [st]
            finals = []
            for elt in s.iter.elts:
                nxt_states = []
                for cur in states:
                    outs = self.with_raises(lambda cur=cur, elt=elt: self.ev(elt, cur, False), cur,
                                            lambda v, st2: self.assign(s.target, v, st2, s), s)
                    for o in outs:
                        if o.kind != "normal":
                            finals.append(o)
                            continue
                        for o2 in self.exec_block(s.body, o.st):
                            if o2.kind in ("normal", "continue"):
                                nxt_states.append(o2.st)
                            elif o2.kind == "break":
                                finals.append(Outcome("normal", o2.st))
                            else:
                                finals.append(o2)
                states = nxt_states
            self.loop_seen.add(lab0)
            return finals + [Outcome("normal", x) for x in states]
        lab, spec = self.loop_spec(s)
        if spec.iter_name:
            enum = isinstance(s.iter, ast.Call) and ast.unparse(s.iter.func) == "enumerate" and len(s.iter.args) == 1
            src = s.iter.args[0] if enum else s.iter
            itv = self.ev(src, st, False)
            st.env[spec.iter_name] = itv
            desc = self.iter_value(itv, st, src)
            if enum:
                desc = EnumIter(desc)
            for gname, gtext in spec.iter_ghost.items():
                self.ghost_assign(gname, self.spec(Clause(gtext), st), st)
        else:
            desc = self.iterable(s.iter, st)
        gseq = getattr(desc, "ghost_seq", None) or getattr(getattr(desc, "inner", None), "ghost_seq", None)
        if spec.seq_fun:
            if gseq is None or spec.seq_fun not in self.gfuns:
                raise StaleContract(f"{self.qualname}: loop {lab} no longer iterates over a generator under contract")
            kq = V.fresh("ks", I)
            el = gseq.select(kq)
            st.assume(z3.ForAll(kq, z3.Implies(z3.And(0 <= kq, kq < desc.count),
                                               (el.data if isinstance(el, Arr) else el) == self.gfuns[spec.seq_fun](kq))))
        if spec.seq_name:
            if isinstance(spec.seq_name, (list, tuple)):
                # zip of generators under contract: one ghost sequence per zipped generator
                inners = getattr(desc, "inners", None) or getattr(getattr(desc, "inner", None), "inners", None) or []
                seqs = [getattr(i_, "ghost_seq", None) for i_ in inners]
                if len(seqs) != len(spec.seq_name) or any(q is None for q in seqs):
                    raise StaleContract(f"{self.qualname}: loop {lab} no longer zips {len(spec.seq_name)} generators under contract")
                for nm, q in zip(spec.seq_name, seqs):
                    st.env[nm] = q
            else:
                st.env[spec.seq_name] = gseq
        idx = spec.index or f"$k_{lab}"
        outs_final = []
        # --- initialisation
        st.env[idx] = z3.IntVal(0)
        desc.bind_head(self, s.target, st, z3.IntVal(0))
        self.prove_all(st.clone(), spec.inv, f"{lab}/inv_init", "inv_init", s.lineno)
        # --- arbitrary iteration
        mods = self.modified_in(s, spec)
        head = st.clone()
        self.havoc(head, mods, s.body)
        self.havoc_heap(head, spec)
        kvar = V.fresh(f"k_{lab}", I)
        head.env[idx] = kvar
        head.assume(kvar >= 0, kvar <= desc.count, desc.count >= 0)
        desc.bind_head(self, s.target, head, kvar)
        snap = self.heap_snapshot(head)
        for cl in spec.inv:
            head.assume(self.spec(cl, head))
        # body
        body_st = head.clone()
        body_st.assume(kvar < desc.count)
        desc.bind_item(self, s.target, body_st, kvar, s)
        self.canary_points.append((f"{self.short}/canary/{lab}.body", list(body_st.pc)))
        outs = self.exec_block(s.body, body_st)
        for o in outs:
            if o.kind in ("normal", "continue"):
                e = o.st
                e.env[idx] = kvar + 1
                desc.bind_head(self, s.target, e, kvar + 1)
                self.loop_frame_check(snap, e, spec, lab)
                self.loop_shape_check(head, e, mods, lab)
                self.prove_all(e, spec.inv, f"{lab}/inv_preserved", "inv_preserved", s.lineno)
            elif o.kind == "break":
                outs_final.append(Outcome("normal", o.st))
            else:
                outs_final.append(o)
        # exhaustion
        exit_st = head
        exit_st.assume(kvar == desc.count)
        desc.after(self, s.target, exit_st)
        if s.orelse:
            outs_final += self.exec_block(s.orelse, exit_st)
        else:
            outs_final.append(Outcome("normal", exit_st))
        return outs_final

    def havoc_heap(self, st, spec):
        pass   # tier B: overridden by the heap layer

    def st_While(self, s, st):
        lab, spec = self.loop_spec(s)
        outs_final = []
        self.prove_all(st.clone(), spec.inv, f"{lab}/inv_init", "inv_init", s.lineno)
        mods = self.modified_in(s, spec)
        head = st.clone()
        self.havoc(head, mods, s.body)
        self.havoc_heap(head, spec)
        snap = self.heap_snapshot(head)
        for cl in spec.inv:
            head.assume(self.spec(cl, head))
        variant0 = self.spec(spec.variant, head) if spec.variant is not None else None
        couts = self.with_raises(lambda: self.truthy(self.ev(s.test, head, False), head), head, lambda v, st2: None, s)
        for co in couts:
            if co.kind != "normal":
                outs_final.append(co)
                continue
            c = z3.simplify(co.val)
            body_st = co.st.clone()
            body_st.assume(c)
            self.canary_points.append((f"{self.short}/canary/{lab}.body", list(body_st.pc)))
            outs = self.exec_block(s.body, body_st)
            for o in outs:
                if o.kind in ("normal", "continue"):
                    e = o.st
                    self.loop_frame_check(snap, e, spec, lab)
                    self.loop_shape_check(head, e, mods, lab)
                    self.prove_all(e, spec.inv, f"{lab}/inv_preserved", "inv_preserved", s.lineno)
                    if variant0 is not None:
                        v1 = self.spec(spec.variant, e)
                        self.oblige(e, z3.And(v1 < variant0, variant0 >= 0 if is_int(variant0) else variant0 >= 0),
                                    f"{lab}/variant", "termination", s.lineno, spec.variant.text, spec.variant.props)
                elif o.kind == "break":
                    outs_final.append(Outcome("normal", o.st))
                else:
                    outs_final.append(o)
            if not z3.is_true(c):
                exit_st = co.st
                exit_st.assume(z3.Not(c))
                if s.orelse:
                    outs_final += self.exec_block(s.orelse, exit_st)
                else:
                    outs_final.append(Outcome("normal", exit_st))
        return outs_final

    def heap_snapshot(self, st):
        return None

    def loop_frame_check(self, snap, st, spec, lab):
        pass

    def st_Break(self, s, st):
        return [Outcome("break", st, node=s)]

    def st_Continue(self, s, st):
        return [Outcome("continue", st, node=s)]

    def st_Try(self, s, st):
        if s.finalbody:
            raise EngineError("try/finally not supported")
        outs = self.exec_block(s.body, st)
        res = []
        for o in outs:
            if o.kind != "raise":
                if o.kind == "normal" and s.orelse:
                    res += self.exec_block(s.orelse, o.st)
                else:
                    res.append(o)
                continue
            handled = False
            for h in s.handlers:
                if self.handler_catches(h, o.exc):
                    st2 = o.st
                    if h.name:
                        st2.env[h.name] = PyConst(o.exc)
                    st2.env["$current_exc"] = o.exc
                    res += self.exec_block(h.body, st2)
                    handled = True
                    break
            if not handled:
                res.append(o)
        return res

    EXC_PARENTS = {"IndexError": ["LookupError", "Exception"], "KeyError": ["LookupError", "Exception"],
                   "ValueError": ["Exception"], "TypeError": ["Exception"], "AssertionError": ["Exception"],
                   "ImportError": ["Exception"], "SolverError": ["Exception"], "ZeroDivisionError": ["ArithmeticError", "Exception"],
                   "NotImplementedError": ["RuntimeError", "Exception"], "SetPartitionError": ["Exception"],
                   "ModuleNotFoundError": ["ImportError", "Exception"]}

    def handler_catches(self, h, exc):
        if h.type is None:
            return True
        names = [ast.unparse(t).split(".")[-1] for t in (h.type.elts if isinstance(h.type, ast.Tuple) else [h.type])]
        return exc in names or any(p in names for p in self.EXC_PARENTS.get(exc, ["Exception"]))

    def st_FunctionDef(self, s, st):
        # nested closure: a function value whose own contract (qualname.<locals>.name) is proved separately
        q = f"{self.qualname}.<locals>.{s.name}"
        if q not in self.registry:
            raise EngineError(f"nested function {s.name} has no contract ({q})")
        st.env[s.name] = self.closure_value(q, st, s)
        return [Outcome("normal", st)]

    def closure_value(self, q, st, node=None):
        """`def f(...)` inside a function under contract: f has its own contract (proved separately against the same source, with its
        captured names as extra parameters).  The definition yields a pure function value F with
            forall args: requires(args, captured) -> ensures(F(args), args, captured)
        where `captured` are the CURRENT values of the captured names (they must not be re-assigned after the definition: checked)."""
        callee = self.registry[q]
        pn = [p for p in callee.params if p not in callee.closure]
        if not all(isinstance(callee.params[p], NdArray) and callee.params[p].rank == 1 for p in pn):
            raise EngineError("nested function whose parameters are not rank-1 arrays")
        for cname in callee.closure:
            if cname not in st.env:
                raise EngineError(f"nested function {q}: captured name {cname} is not bound at the definition")
        if node is not None:
            later = [n for n in ast.walk(self.fn) if isinstance(n, (ast.Assign, ast.AugAssign, ast.AnnAssign)) and n.lineno > node.end_lineno
                     and any(isinstance(t, ast.Name) and t.id in callee.closure
                             for t in (n.targets if isinstance(n, ast.Assign) else [n.target]))]
            if later:
                raise EngineError(f"nested function {q}: a captured name is re-assigned after the definition (line {later[0].lineno})")
        sorts = [z3.ArraySort(I, V.elem_sort(callee.params[p].dtype)) for p in pn]
        ret = sort_of("Real") if callee.returns is None else (I if isinstance(callee.returns, IntT) else R)
        f = z3.Function(V.fresh_name("closure_" + q.rpartition(".")[2]), *sorts, ret)
        cst = State(env={}, pc=st.pc, heap=st.heap, nxt=st.nxt)
        qv = []
        import re as _re
        req_text = " and ".join(c.text for c in callee.requires)
        for p, srt in zip(pn, sorts):
            # the value is a function of the array contents; the length is the one the callee's requires fixes (`len(p) == K`)
            m = _re.search(r"\blen\(%s\) == (\d+)" % _re.escape(p), req_text)
            if m is None:
                raise EngineError(f"nested function {q}: its requires must fix len({p})")
            d = V.fresh(p, srt)
            qv.append(d)
            cst.env[p] = Arr(d, [z3.IntVal(int(m.group(1)))], callee.params[p].dtype)
        for cname in callee.closure:
            cst.env[cname] = st.env[cname]
        sub = self.sub_engine(callee, q, cst, st)
        cst.old = dict(cst.env)
        cst.oldheap = None
        cst.env["result"] = f(*[cst.env[p].data for p in pn])
        pre = [sub.spec(cl, cst) for cl in callee.requires]
        post = [sub.spec(cl, cst) for cl in callee.ensures]
        if post:
            st.assume(z3.ForAll(qv, z3.Implies(z3.And(*pre), z3.And(*post)), patterns=[cst.env["result"]]))
        self.callees.add(q)
        return Func(f, name=q)

    def st_With(self, s, st):
        raise EngineError("with: tier B")

    # ------------------------------------------------------------------------------------------ assignment
    def assign(self, t, v, st, node):
        if isinstance(t, ast.Name):
            if self.c.coerce.get(t.id) == "Real" and is_int(v):
                v = z3.ToReal(v)
            lt = self.c.locals.get(t.id)
            if lt is not None and type(lt).__name__ in ("OptT", "OptObjT"):
                v = self.coerce_arg(lt, v, st)      # a local the contract declares Optional: None and values share one shape
            if self.c.coerce.get(t.id) == "Real" and isinstance(v, SList) and len(v.elems.cs) == 1 and v.elems.cs[0].sort().range() == I:
                # a list initialised with int literals that later holds floats ([0] then .append(x - y)): the same numbers, as reals
                kk, c0 = V.fresh("k", I), v.elems.cs[0]
                v = SList(v.length, Lifted(V.fresh("e", R), [z3.Lambda([kk], z3.ToReal(c0[kk]))]))
            st.env[t.id] = v
        elif isinstance(t, (ast.Tuple, ast.List)):
            items = self.unpack(v, len(t.elts), st)
            for e, x in zip(t.elts, items):
                self.assign(e, x, st, node)
        elif isinstance(t, ast.Subscript):
            base = self.ev(t.value, st, False)
            new = self.store_sub(base, t, v, st)
            if new is not None:
                self.assign(t.value, new, st, node)
        elif isinstance(t, ast.Attribute):
            base = self.ev(t.value, st, False)
            if isinstance(base, Opt) and isinstance(base.val, Ref):
                # attribute store on an Optional[object]: None has no attributes (obligation), then the object's field
                self.oblige(st, z3.Not(base.isnone), f"not-None@{getattr(node, 'lineno', 0)}:store", "exception-freedom",
                            getattr(node, "lineno", None), ast.unparse(t.value) + " is not None")
                base = base.val
            if isinstance(base, Ref):
                self.set_field(base, t.attr, v, st, node)
            elif isinstance(base, Rec):
                self.assign(t.value, self.rec_setattr(base, t.attr, v, st, node), st, node)
            else:
                raise EngineError(f"attribute store on {base!r}")
        else:
            raise EngineError(f"assignment target {type(t).__name__}")

    def rec_setattr(self, base, attr, v, st, node):
        return base.with_field(attr, v)

    def set_field(self, ref, attr, v, st, node):
        st.heap[ref.oid][attr] = v

    def unpack(self, v, n, st):
        if isinstance(v, Tup):
            if len(v.items) != n:
                raise EngineError("tuple unpack arity")
            return v.items
        if isinstance(v, SList):
            return [v.get(z3.IntVal(k)) for k in range(n)]
        if isinstance(v, Arr) and v.rank == 1:
            return [v.at([z3.IntVal(k)]) for k in range(n)]
        raise EngineError(f"cannot unpack {v!r}")

    def index_list(self, t):
        sl = t.slice
        return list(sl.elts) if isinstance(sl, ast.Tuple) else [sl]

    def store_sub(self, base, t, v, st):
        idx_nodes = self.index_list(t)
        if isinstance(base, Arr):
            if any(isinstance(n, ast.Slice) for n in idx_nodes):
                return self.store_slice(base, idx_nodes, v, st, t)
            idxs = [self.ev(n, st, False) for n in idx_nodes]
            if len(idxs) > base.rank:
                raise EngineError("too many indices")
            for d, i in enumerate(idxs):
                i = self.as_index(i)
                idxs[d] = i
                self.oblige(st, z3.And(0 <= i, i < base.dims[d]), f"store-in-bounds@{t.lineno}:{t.col_offset}.{d}",
                            "safety:index", t.lineno, ast.unparse(t))
            if len(idxs) < base.rank:
                if not isinstance(v, Arr):
                    raise EngineError("row store of a scalar (broadcast) not supported")
                # row copy: element-wise over the remaining dims (value semantics, possibly of another int dtype)
                sub = base.at(idxs)
                for d in range(sub.rank):
                    self.oblige(st, v.dims[d] == sub.dims[d], f"row-store-shape@{t.lineno}.{d}", "safety:shape",
                                t.lineno, ast.unparse(t))
                self.narrowing(base.dtype, v, st, t)
                return base.store(idxs, self.cast_arr(v, base.dtype, st))
            self.narrowing(base.dtype, v, st, t)
            return base.store(idxs, self.cast_scalar(v, base.dtype))
        if isinstance(base, SList):
            i = self.as_index(self.ev(idx_nodes[0], st, False))
            self.oblige(st, z3.And(0 <= i, i < base.length), f"store-in-bounds@{t.lineno}:{t.col_offset}", "safety:index",
                        t.lineno, ast.unparse(t))
            return base.set(i, v)
        return self.store_sub_other(base, t, v, st)

    def store_sub_other(self, base, t, v, st):
        raise EngineError(f"subscript store on {base!r}")

    def cast_arr(self, v, dtype, st):
        if V.elem_sort(v.dtype) == V.elem_sort(dtype):
            return v
        raise EngineError("array copy across int/float kinds")

    def cast_scalar(self, v, dtype):
        if V.is_int_dtype(dtype):
            if is_real(v):
                return trunc_int(v)
            if is_bool(v):
                return z3.If(v, 1, 0)
            return v
        if is_bool(v):
            return z3.If(v, z3.RealVal(1), z3.RealVal(0))
        return to_real(v)

    def narrowing(self, dtype, v, st, node):
        rng = V.INT_RANGES.get(dtype)
        if rng is None:
            return
        lo, hi = rng
        if isinstance(v, Arr):
            vr = V.INT_RANGES.get(v.dtype)
            if vr is not None and vr[0] >= lo and vr[1] <= hi:
                return
            if v.rank != 1:
                raise EngineError("narrowing of a multi-dimensional array copy")
            k = V.fresh("k", I)
            self.oblige(st, z3.ForAll(k, z3.Implies(z3.And(0 <= k, k < v.dims[0]), z3.And(lo <= v.data[k], v.data[k] <= hi))),
                        f"narrowing-{dtype}@{node.lineno}", "safety:range", node.lineno, ast.unparse(node))
            return
        x = self.cast_scalar(v, dtype)
        self.oblige(st, z3.And(lo <= x, x <= hi), f"narrowing-{dtype}@{node.lineno}:{node.col_offset}", "safety:range",
                    node.lineno, ast.unparse(node))

    def store_slice(self, base, idx_nodes, v, st, t):
        """only whole-prefix copies:  new[:i] = arr   /   new[:i, :] = arr"""
        first = idx_nodes[0]
        if not (isinstance(first, ast.Slice) and first.lower is None and first.step is None and first.upper is not None):
            raise EngineError("slice store other than a[:k] = b")
        for other in idx_nodes[1:]:
            if not (isinstance(other, ast.Slice) and other.lower is None and other.upper is None and other.step is None):
                raise EngineError("slice store other than a[:k, :] = b")
        k = self.as_index(self.ev(first.upper, st, False))
        if not isinstance(v, Arr) or v.rank != base.rank:
            raise EngineError("slice store of a non-array")
        self.oblige(st, z3.And(0 <= k, k <= base.dims[0]), f"slice-in-bounds@{t.lineno}", "safety:index", t.lineno,
                    ast.unparse(t))
        self.oblige(st, z3.And(v.dims[0] == k, *[v.dims[d] == base.dims[d] for d in range(1, base.rank)]),
                    f"slice-shape@{t.lineno}", "safety:shape", t.lineno, ast.unparse(t))
        new = V.fresh("slc", base.data.sort())
        j = V.fresh("j", I)
        st.assume(z3.ForAll(j, new[j] == z3.If(z3.And(0 <= j, j < k), v.data[j], base.data[j])))
        return Arr(new, base.dims, base.dtype)

    def as_index(self, i):
        if is_int(i):
            return i
        if isinstance(i, PyConst):
            return i
        if is_bool(i):
            return z3.If(i, 1, 0)
        raise EngineError(f"non-integer index {i!r}")

    # ------------------------------------------------------------------------------------------ truthiness
    def truthy(self, v, st):
        if is_bool(v):
            return v
        if is_int(v) or is_real(v):
            return v != 0
        if isinstance(v, SList):
            return v.length > 0
        if isinstance(v, Tup):
            return z3.BoolVal(len(v.items) > 0)
        if isinstance(v, Opt):
            # Optional[T]: not None AND the value itself is truthy (an empty list, 0, '' are falsy)
            if is_bool(v.val):
                return z3.And(z3.Not(v.isnone), v.val)
            if isinstance(v.val, NoneV):
                return z3.BoolVal(False)
            if v.empty_text:
                return z3.Not(v.isnone)          # a text modelled as (is-empty, code): truthy iff not empty
            if is_int(v.val) or is_real(v.val):
                raise EngineError("truthiness of an Optional number / string (0 and '' are falsy, and strings are carried as codes): "
                                  "outside the encoding - the code should test `is not None`")
            return z3.And(z3.Not(v.isnone), self.truthy(v.val, st))
        if isinstance(v, NoneV):
            return z3.BoolVal(False)
        return self.truthy_other(v, st)

    def truthy_other(self, v, st):
        raise EngineError(f"truthiness of {v!r}")

    # ------------------------------------------------------------------------------------------ expressions
    def ev(self, e, st, spec):
        meth = getattr(self, "ex_" + type(e).__name__, None)
        if meth is None:
            raise EngineError(f"unsupported expression {type(e).__name__}: {ast.unparse(e)}")
        return meth(e, st, spec)

    def ex_Constant(self, e, st, spec):
        v = e.value
        if v is None:
            return NONE
        if isinstance(v, (bool, int, float)):
            return qv(v)
        if isinstance(v, str):
            return self.str_const(v)
        raise EngineError(f"constant {v!r}")

    def str_const(self, s):
        return PyConst(s)

    def str_code(self, text):
        """the code of a string literal; distinct literals have distinct codes (global axiom added on first use)"""
        known = getattr(Engine, "_str_codes", None)
        if known is None:
            known = Engine._str_codes = {}
        if text not in known:
            c = z3.Real("str:" + text)
            for other in known.values():
                self_ax = c != other
                Engine._str_axioms = getattr(Engine, "_str_axioms", []) + [self_ax]
            known[text] = c
        for ax in getattr(Engine, "_str_axioms", []):
            if not any(ax.eq(x) for x in self.global_axioms):
                self.global_axioms = list(self.global_axioms) + [ax]
                self.psum_used = True          # (the flag that makes the global axioms part of every obligation of this function)
        return known[text]

    def ex_JoinedStr(self, e, st, spec):
        """f-string: with exactly one formatted integer it is an injective function of that integer (str(int) is injective and the
        literal parts are fixed); any other f-string is message text, never inspected"""
        holes = [v for v in e.values if isinstance(v, ast.FormattedValue)]
        if len(holes) == 1:
            try:
                v = self.ev(holes[0].value, st, spec)
            except EngineError:
                v = None
            if v is not None and is_int(v):
                key = "fstr:" + "".join(x.value if isinstance(x, ast.Constant) else "{}" for x in e.values)
                f = z3.Function(key, I, R)
                # injectivity through a left inverse: one instance per f-term (the pairwise form  f(i) == f(j) -> i == j  with a
                # two-term multi-pattern instantiates quadratically and made otherwise trivial VCs time out)
                i = z3.Int("i!fs")
                finv = z3.Function(key + "!inv", R, I)
                ax = z3.ForAll([i], finv(f(i)) == i, patterns=[f(i)])
                if not any(ax.eq(a) for a in self.global_axioms):
                    self.global_axioms = list(self.global_axioms) + [ax]
                    self.psum_used = True
                self.used_models.add("model:f-string with one integer hole = injective function of the integer")
                return f(v)
        return PyConst("<formatted text>")

    def ex_Name(self, e, st, spec):
        if e.id in st.env:
            return st.env[e.id]
        if spec:
            if e.id in self.gfuns and is_z3(self.gfuns[e.id]):
                return self.gfuns[e.id]
            if e.id in SORTS:
                return PyConst(("sort", e.id))
            if e.id in ("True", "False"):
                return z3.BoolVal(e.id == "True")
        v = self.global_name(e.id, st, spec)
        if v is not NotImplemented:
            return v
        raise EngineError(f"unbound name {e.id!r}")

    def global_name(self, name, st, spec):
        return NotImplemented

    def ex_Tuple(self, e, st, spec):
        return Tup([self.ev(x, st, spec) for x in e.elts])

    def ex_List(self, e, st, spec):
        items = [self.ev(x, st, spec) for x in e.elts]
        if not items:
            return self.empty_list(e, st)
        return self.make_list(items)

    def make_list(self, items):
        if all(is_num(x) for x in items):
            if any(is_real(x) for x in items):
                items = [to_real(x) for x in items]
            return SList.of(items)
        return SList.of(items)

    def empty_list(self, e, st):
        raise EngineError("empty list literal: element shape unknown (declare it in the contract's locals)")

    def ex_UnaryOp(self, e, st, spec):
        v = self.ev(e.operand, st, spec)
        if isinstance(e.op, ast.USub):
            return -v
        if isinstance(e.op, ast.UAdd):
            return v
        if isinstance(e.op, ast.Not):
            return z3.Not(self.truthy(v, st))
        raise EngineError("unary op")

    def ex_BoolOp(self, e, st, spec):
        """`and` / `or` with Python's short-circuit evaluation: a later operand is evaluated (and its safety obligations
        are generated) only under the condition that the earlier ones did not decide the result"""
        is_and = isinstance(e.op, ast.And)
        vals = []
        guard = []
        for k, x in enumerate(e.values):
            if k == 0 or spec:
                v = self.truthy(self.ev(x, st, spec), st)
            else:
                st2 = st.clone()
                st2.assume(*guard)
                npc = len(st2.pc)
                nraise = len(self.pending_raises)
                v = self.truthy(self.ev(x, st2, spec), st2)
                for f in st2.pc[npc:]:
                    st.assume(z3.Implies(z3.And(*guard), f))
                for (exc, rst) in self.pending_raises[nraise:]:
                    rst.assume(*guard)
            vals.append(v)
            guard.append(v if is_and else z3.Not(v))
        return z3.And(*vals) if is_and else z3.Or(*vals)

    def ex_IfExp(self, e, st, spec):
        c = self.truthy(self.ev(e.test, st, spec), st)
        cs = z3.simplify(c)
        known = True if z3.is_true(cs) else (False if z3.is_false(cs) else self.literally_known(cs, st))
        if known is True:
            return self.ev(e.body, st, spec)
        if known is False:
            return self.ev(e.orelse, st, spec)
        has_call = any(isinstance(n, (ast.Call, ast.Subscript, ast.BinOp)) for b in (e.body, e.orelse) for n in ast.walk(b))
        if not (has_call and not spec):
            a = self.ev(e.body, st, spec)
            b = self.ev(e.orelse, st, spec)
            try:
                return V.ite(c, a, b)
            except EngineError:
                if spec:
                    raise
        # a branch with calls / subscripts / divisions (or values that cannot be merged) is evaluated only on the path taken
        d = self.decide(c, st)
        if d is None:
            raise Split(c)
        return self.ev(e.body if d else e.orelse, st, spec)

    def ex_BinOp(self, e, st, spec):
        a = self.ev(e.left, st, spec)
        b = self.ev(e.right, st, spec)
        return self.binop(e.op, a, b, st, spec, e)

    def binop(self, op, a, b, st, spec, node):
        if isinstance(a, Arr) or isinstance(b, Arr):
            return self.arr_binop(op, a, b, st, spec, node)
        if is_bool(a):
            a = z3.If(a, 1, 0)
        if is_bool(b):
            b = z3.If(b, 1, 0)
        if not (is_num(a) and is_num(b)):
            r = self.binop_other(op, a, b, st, spec, node)
            if r is not NotImplemented:
                return r
            raise EngineError(f"binary operator on {a!r}, {b!r}")
        if isinstance(op, ast.Add):
            return a + b
        if isinstance(op, ast.Sub):
            return a - b
        if isinstance(op, ast.Mult):
            return a * b
        if isinstance(op, ast.Div):
            if not spec:
                self.div_check(st, b, node)
            return to_real(a) / to_real(b)
        if isinstance(op, ast.FloorDiv):
            if not (is_int(a) and is_int(b)):
                raise EngineError("// on non-integers")
            if not spec:
                self.oblige(st, b != 0, f"div-by-zero@{node.lineno}:{node.col_offset}", "safety:div", node.lineno,
                            ast.unparse(node))
            if z3.is_int_value(b) and b.as_long() > 0:
                return a / b
            return floor_div(a, b)
        if isinstance(op, ast.Mod):
            if not (is_int(a) and is_int(b)):
                raise EngineError("% on non-integers")
            if not spec:
                self.oblige(st, b != 0, f"div-by-zero@{node.lineno}:{node.col_offset}", "safety:div", node.lineno,
                            ast.unparse(node))
            return a - b * floor_div(a, b)
        if isinstance(op, ast.Pow):
            if z3.is_int_value(b) and 0 <= b.as_long() <= 4:
                r = z3.IntVal(1) if is_int(a) else z3.RealVal(1)
                for _ in range(b.as_long()):
                    r = r * a
                return r
            raise EngineError("** with a non-constant exponent")
        raise EngineError(f"binary operator {type(op).__name__}")

    def div_check(self, st, b, node):
        if "ZeroDivisionError" in self.c.raises:
            bad = st.clone()
            bad.assume(b == 0)
            self.pending_raises.append(("ZeroDivisionError", bad))
            st.assume(b != 0)
        else:
            self.oblige(st, b != 0, f"div-by-zero@{node.lineno}:{node.col_offset}", "safety:div", node.lineno,
                        ast.unparse(node))

    def binop_other(self, op, a, b, st, spec, node):
        return NotImplemented

    def arr_binop(self, op, a, b, st, spec, node):
        """element-wise array (op) scalar -> fresh array constrained pointwise (rank 1 and 2)"""
        if isinstance(a, Arr) and is_num(b):
            arr, other, left = a, b, True
        elif isinstance(b, Arr) and is_num(a):
            arr, other, left = b, a, False
        else:
            raise EngineError("array (op) array")
        if isinstance(op, ast.Div) and not spec:
            self.oblige(st, (other if left else z3.BoolVal(True)) != 0 if left else z3.BoolVal(True),
                        f"div-by-zero@{node.lineno}:{node.col_offset}", "safety:div", node.lineno, ast.unparse(node))
        idx = [V.fresh("e", I) for _ in range(arr.rank)]
        x = arr.at(idx)
        y = self.binop(op, x, other, st, True, node) if left else self.binop(op, other, x, st, True, node)
        dtype = arr.dtype
        if is_real(y) and V.is_int_dtype(dtype):
            dtype = "f64"
        if isinstance(op, ast.Div) and not V.is_int_dtype(dtype):
            pass
        new = V.fresh("ew", V.nested_sort(V.elem_sort(dtype), arr.rank))
        z = new
        for i in idx:
            z = z[i]
        if V.elem_sort(dtype) == R:
            y = to_real(y)
        st.assume(z3.ForAll(idx, z == y))
        return Arr(new, arr.dims, dtype)

    def ex_Compare(self, e, st, spec):
        left = self.ev(e.left, st, spec)
        res = []
        for op, cn in zip(e.ops, e.comparators):
            right = self.ev(cn, st, spec)
            res.append(self.compare(op, left, right, st, spec, e))
            left = right
        return res[0] if len(res) == 1 else z3.And(*res)

    def compare(self, op, a, b, st, spec, node):
        if isinstance(op, (ast.Is, ast.IsNot)):
            r = self.is_same(a, b, st)
            return r if isinstance(op, ast.Is) else z3.Not(r)
        if isinstance(op, (ast.Eq, ast.NotEq)):
            r = self.eq(a, b, st, spec)
            return r if isinstance(op, ast.Eq) else z3.Not(r)
        if isinstance(op, (ast.In, ast.NotIn)):
            r = self.contains(b, a, st, spec, node)
            return r if isinstance(op, ast.In) else z3.Not(r)
        if is_bool(a):
            a = z3.If(a, 1, 0)
        if is_bool(b):
            b = z3.If(b, 1, 0)
        if not (is_num(a) and is_num(b)):
            r = self.order_other(op, a, b, st, spec, node)
            if r is not NotImplemented:
                return r
            raise EngineError(f"ordering comparison of {a!r} and {b!r}")
        if isinstance(op, ast.Lt):
            return a < b
        if isinstance(op, ast.LtE):
            return a <= b
        if isinstance(op, ast.Gt):
            return a > b
        if isinstance(op, ast.GtE):
            return a >= b
        raise EngineError("comparison operator")

    def order_other(self, op, a, b, st, spec, node):
        return NotImplemented

    def contains(self, container, item, st, spec, node):
        raise EngineError("in / not in: tier B")

    def is_same(self, a, b, st):
        if isinstance(b, NoneV):
            a, b = b, a
        if isinstance(a, NoneV):
            if isinstance(b, NoneV):
                return z3.BoolVal(True)
            if isinstance(b, Opt):
                return b.isnone
            return z3.BoolVal(False)
        if isinstance(a, Ref) and isinstance(b, Ref):
            return z3.BoolVal(a.oid == b.oid)
        raise EngineError(f"'is' on {a!r}, {b!r}")

    def eq(self, a, b, st, spec):
        if is_bool(a) and is_num(b):
            a = z3.If(a, 1, 0)
        if is_bool(b) and is_num(a):
            b = z3.If(b, 1, 0)
        if is_z3(a) and is_z3(b):
            a, b = V.coerce_pair(a, b)
            return a == b
        if isinstance(a, Tup) and isinstance(b, Tup):
            if len(a.items) != len(b.items):
                return z3.BoolVal(False)
            return z3.And(*[self.eq(x, y, st, spec) for x, y in zip(a.items, b.items)])
        if isinstance(a, NoneV) or isinstance(b, NoneV):
            return self.is_same(a, b, st)
        if isinstance(a, Opt) and isinstance(b, Opt):
            return z3.And(a.isnone == b.isnone, z3.Implies(z3.Not(a.isnone), self.eq(a.val, b.val, st, spec)))
        if isinstance(a, Opt):
            return z3.And(z3.Not(a.isnone), self.eq(a.val, b, st, spec))
        if isinstance(b, Opt):
            return self.eq(b, a, st, spec)
        if isinstance(a, PyConst) and isinstance(b, PyConst):
            return z3.BoolVal(a.value == b.value)
        # a string-valued term compared with a literal: literals get pairwise distinct codes (strings are real-coded, S5)
        if isinstance(b, PyConst) and isinstance(b.value, str) and is_z3(a) and a.sort() == R:
            return a == self.str_code(b.value)
        if isinstance(a, PyConst) and isinstance(a.value, str) and is_z3(b) and b.sort() == R:
            return b == self.str_code(a.value)
        if isinstance(a, Rec) and isinstance(b, Rec) and a.cls == b.cls:
            return z3.And(*[self.eq(a.fields[k], b.fields[k], st, spec) for k in a.fields])
        r = self.eq_other(a, b, st, spec)
        if r is not NotImplemented:
            return r
        raise EngineError(f"equality of {a!r} and {b!r}")

    def eq_other(self, a, b, st, spec):
        return NotImplemented

    # ---- subscripts
    def ex_Subscript(self, e, st, spec):
        base = self.ev(e.value, st, spec)
        idx_nodes = self.index_list(e)
        if isinstance(base, Arr):
            if any(isinstance(n, ast.Slice) for n in idx_nodes):
                return self.load_slice(base, idx_nodes, st, spec, e)
            idxs = [self.ev(n, st, spec) for n in idx_nodes]
            if len(idxs) == 1 and isinstance(idxs[0], Arr):
                return self.fancy_index(base, idxs[0], st, spec, e)
            if len(idxs) > base.rank:
                raise EngineError("too many indices")
            out = []
            for d, i in enumerate(idxs):
                i = self.as_index(i)
                # literal negative indices: numpy / python wrap-around
                if z3.is_int_value(i) and i.as_long() < 0:
                    if not spec:
                        self.oblige(st, base.dims[d] + i >= 0, f"index-in-bounds@{e.lineno}:{e.col_offset}.{d}",
                                    "safety:index", e.lineno, ast.unparse(e))
                    i = base.dims[d] + i
                elif not spec:
                    self.oblige(st, z3.And(0 <= i, i < base.dims[d]), f"index-in-bounds@{e.lineno}:{e.col_offset}.{d}",
                                "safety:index", e.lineno, ast.unparse(e))
                out.append(i)
            return base.at(out)
        if isinstance(base, SList):
            if isinstance(idx_nodes[0], ast.Slice):
                return self.list_slice(base, idx_nodes[0], st, spec, e)
            i = self.as_index(self.ev(idx_nodes[0], st, spec))
            if z3.is_int_value(i) and i.as_long() < 0:
                if not spec:
                    self.oblige(st, base.length + i >= 0, f"index-in-bounds@{e.lineno}:{e.col_offset}", "safety:index",
                                e.lineno, ast.unparse(e))
                i = base.length + i
            elif not spec:
                self.index_check(st, base, i, e)
            return base.get(i)
        if isinstance(base, Tup):
            i = self.ev(idx_nodes[0], st, spec)
            if z3.is_int_value(i):
                k = i.as_long()
                if not -len(base.items) <= k < len(base.items):
                    raise EngineError("tuple index out of range")
                return base.items[k]
            raise EngineError("symbolic tuple index")
        if isinstance(base, Lifted):
            if not spec:
                raise EngineError("ghost sequence in code")
            return base.select(self.as_index(self.ev(idx_nodes[0], st, spec)))
        if is_z3(base) and base.sort().kind() == z3.Z3_ARRAY_SORT:
            if not spec:
                raise EngineError("raw array in code")
            z = base
            for n in idx_nodes:
                i = self.ev(n, st, spec)
                if z.sort().domain() == R:
                    i = to_real(i)
                z = z[i]
            return z
        return self.subscript_other(base, e, st, spec)

    def index_check(self, st, base, i, e):
        self.oblige(st, z3.And(0 <= i, i < base.length), f"index-in-bounds@{e.lineno}:{e.col_offset}", "safety:index",
                    e.lineno, ast.unparse(e))

    def subscript_other(self, base, e, st, spec):
        raise EngineError(f"subscript on {base!r}")

    def load_slice(self, base, idx_nodes, st, spec, e):
        first = idx_nodes[0]
        if len(idx_nodes) != 1 or first.step is not None or first.lower is not None or first.upper is None:
            raise EngineError("slice load other than a[:k]")
        k = self.as_index(self.ev(first.upper, st, spec))
        if not spec:
            self.oblige(st, z3.And(0 <= k, k <= base.dims[0]), f"slice-in-bounds@{e.lineno}:{e.col_offset}",
                        "safety:index", e.lineno, ast.unparse(e))
        return Arr(base.data, [k] + base.dims[1:], base.dtype)

    def list_slice(self, base, sl, st, spec, e):
        if sl.step is not None:
            raise EngineError("list slice with step")
        lo = self.as_index(self.ev(sl.lower, st, spec)) if sl.lower is not None else z3.IntVal(0)
        hi = self.as_index(self.ev(sl.upper, st, spec)) if sl.upper is not None else base.length
        # python clamps slices; require the in-range case to keep the model exact
        if not spec:
            self.oblige(st, z3.And(0 <= lo, hi <= base.length), f"slice-in-bounds@{e.lineno}:{e.col_offset}",
                        "safety:index", e.lineno, ast.unparse(e))
        j = V.fresh("j", I)
        new = Lifted.fresh(base.elems.template, "sl")
        for c_new, c_old in zip(new.cs, base.elems.cs):
            st.assume(z3.ForAll(j, c_new[j] == c_old[j + lo]))
        return SList(zmax(hi - lo, z3.IntVal(0)), new)

    def fancy_index(self, base, ids, st, spec, e):
        raise EngineError("fancy indexing: tier B")

    # ---- attributes
    def ex_Attribute(self, e, st, spec):
        text = ast.unparse(e)
        if text in ("np.inf", "numpy.inf", "math.inf"):
            return self.infinity(st)
        if isinstance(e.value, ast.Name) and e.value.id in ("np", "numpy", "nb", "cp", "math") and e.value.id not in st.env:
            return PyConst(("module-attr", text))
        base = self.ev(e.value, st, spec)
        if isinstance(base, Arr):
            if e.attr == "shape":
                return Tup(base.dims)
            if e.attr == "T":
                if base.rank == 1:
                    return base
                raise EngineError(".T of a matrix")
            if e.attr == "size" and base.rank == 1:
                return base.dims[0]
        if isinstance(base, Rec):
            if e.attr in base.fields:
                return base.fields[e.attr]
        if isinstance(base, Ref):
            obj = st.heap[base.oid]
            if e.attr in obj:
                return obj[e.attr]
        for m in self.ATTR_MODELS:
            r = m(self, e, base, st, spec)
            if r is not NotImplemented:
                return r
        raise EngineError(f"attribute {e.attr!r} of {base!r}")

    def infinity(self, st):
        raise EngineError("np.inf: tier B")

    # ---- calls
    def ex_Call(self, e, st, spec):
        f = e.func
        name = ast.unparse(f)
        if spec:
            r = self.spec_call(name, e, st)
            if r is not NotImplemented:
                return r
        r = self.builtin_call(name, e, st, spec)
        if r is not NotImplemented:
            return r
        # function value bound in the environment (d_mat parameter, closure)
        if isinstance(f, ast.Name) and f.id in st.env and isinstance(st.env[f.id], Func):
            return self.apply_func(st.env[f.id], [self.ev(a, st, spec) for a in e.args], st, spec, e)
        if name in self.c.calls and not spec:
            callee = self.registry.get(self.c.calls[name])
            if callee is not None and isinstance(e.func, ast.Attribute) and "self" in callee.params and not callee.static \
                    and isinstance(e.func.value, ast.Name) and isinstance(st.env.get(e.func.value.id), Ref):
                # `obj.method(...)` bound explicitly to one contract variant of the method: obj is the receiver
                return self.call_contract(self.c.calls[name], e, st, recv=st.env[e.func.value.id])
            if callee is not None and isinstance(e.func, ast.Attribute) and ast.unparse(e.func.value) == "super()" \
                    and "self" in callee.params and isinstance(st.env.get("self"), Ref):
                return self.call_contract(self.c.calls[name], e, st, recv=st.env["self"])
            return self.call_contract(self.c.calls[name], e, st)
        for m in self.MODELS:
            r = m(self, e, st, spec)
            if r is not NotImplemented:
                return r
        r = self.call_other(name, e, st, spec)
        if r is not NotImplemented:
            return r
        raise EngineError(f"call to {name!r} is not modelled and has no contract")

    def call_other(self, name, e, st, spec):
        return NotImplemented

    def apply_func(self, fv, args, st, spec, e):
        zs = []
        for a in args:
            if isinstance(a, Arr):
                zs.append(a.data)
            elif is_z3(a):
                zs.append(a)
            else:
                raise EngineError("function argument")
        dom = [fv.decl.domain(k) for k in range(fv.decl.arity())]
        zs = [to_real(z) if d == R and is_int(z) else z for z, d in zip(zs, dom)]
        return fv.decl(*zs)

    def call_contract(self, qual, e, st, recv=None, argvals=None):
        """modular call: prove the callee's requires, assume its ensures (the body is never inlined)"""
        callee = self.registry.get(qual)
        if callee is None:
            raise EngineError(f"callee {qual} has no contract")
        self.callees.add(qual)
        if argvals is None:
            argvals = [self.ev(a, st, False) for a in e.args]
            kwvals = {k.arg: self.ev(k.value, st, False) for k in e.keywords}
        else:
            kwvals = {}
        pnames = [p for p in callee.params if p not in callee.closure]
        if recv is not None and not callee.static:
            argvals = [recv] + list(argvals)
        if len(argvals) > len(pnames):
            raise EngineError(f"too many arguments for {qual}")
        cst = State(env={}, pc=st.pc, heap=st.heap, nxt=st.nxt)
        for n, v in zip(pnames, argvals):
            cst.env[n] = v
        for n, v in kwvals.items():
            if n not in pnames:
                raise EngineError(f"unknown keyword {n} for {qual}")
            cst.env[n] = v
        missing = [n for n in pnames if n not in cst.env]
        for n in missing:
            d = self.default_arg(qual, n, st)
            cst.env[n] = d
        for n in pnames:
            cst.env[n] = self.coerce_arg(callee.params[n], cst.env[n], st)
        sub = self.sub_engine(callee, qual, cst, st)
        cst.old = dict(cst.env)
        cst.oldheap = {k: dict(v) for k, v in st.heap.items()}
        line = getattr(e, "lineno", None)
        tag = f"call-{qual.partition('::')[2]}@{line}"
        for k, cl in enumerate(callee.requires):
            g = sub.spec(cl, cst)
            self.oblige(st, g, f"{tag}/pre#{cl.name or k}", "call_pre", line, cl.text, cl.props)
            st.assume(g)
        self.import_lemmas(sub, callee, cst, st)
        # exceptional exits declared by the callee: {"when": may raise only when} / {"iff": raises exactly when}
        for exc, rs in callee.raises.items():
            cond = rs.get("iff", rs.get("when"))
            rst = st.clone()
            if cond is not None:
                cst_r = State(env=dict(cst.env), pc=rst.pc, heap=rst.heap, old=cst.old, nxt=st.nxt)
                cst_r.oldheap = cst.oldheap
                rst.assume(sub.spec(as_clause(cond), cst_r))
            self.pending_raises.append((exc, rst))
        for exc, rs in callee.raises.items():
            if rs.get("iff") is not None:
                st.assume(z3.Not(sub.spec(as_clause(rs["iff"]), cst)))
        # havoc what the callee may modify, produce the result
        self.call_frame(callee, cst, st)
        new_self = None
        if callee.value_self:
            # `self` is a record by value: the call produces its new value
            new_self = self.make_param(V.fresh_name("self"), callee.params["self"], st)
            st.assume(*self.type_facts(new_self))
            cst.env["self"] = new_self
            self.last_new_self = new_self
        if callee.returns_expr is not None:
            res = sub.spec(Clause(callee.returns_expr), cst)      # the call returns an existing object (alias)
        elif callee.inline_result:
            # a pure scalar getter whose contract says `result == <expr>`: the call IS that expression (no fresh symbol to relate to it)
            texts = [c.text[len("result == "):] for c in callee.ensures if c.text.startswith("result == ") and "result" not in c.text[10:]]
            if not texts or callee.modifies:
                raise EngineError(f"{qual}: inline_result needs modifies=[] and an ensures clause `result == <expr>`")
            res = sub.spec(Clause(texts[0]), cst)
        else:
            res = self.fresh_result(callee, qual, cst, st)
        self.apply_binds(callee, sub, cst, st)
        if res is not None and not isinstance(res, NoneV):
            self.bind_result(callee, sub, cst, st, res)
        # the final values of the callee's ghost variables are existential witnesses of its ensures clauses
        for gname, gsort in list(callee.ghost_returns.items()) + [(n, s_[0]) for n, s_ in callee.ghost_vars.items()]:
            gv = V.fresh(gname, sort_of(gsort))
            cst.env[gname] = gv
            st.env.setdefault("$ghost_returns", {})
            st.env["$ghost_returns"] = {**st.env["$ghost_returns"], gname: gv}
        cst.env["result"] = res
        for cl in callee.ensures:
            st.assume(sub.spec(cl, cst))
        return res

    def sub_engine(self, callee, qual, cst, st):
        """spec evaluator for a callee's contract at a call site: fresh instances of the callee's ghost functions
        (they depend on the actual arguments), exported to the caller's specification under their own names"""
        sub = Engine.__new__(type(self))
        sub.__dict__.update(self.__dict__)
        sub.c = callee
        sub.gfuns = dict(self.gfuns)
        self.call_no = getattr(self, "call_no", 0) + 1
        for g in callee.ghost_funs:
            gname = f"{g.name}@{qual.rpartition('.')[2]}#{self.call_no}"
            f = z3.Function(gname, *g.arg_sorts, g.ret_sort) if g.arg_sorts else z3.Const(gname, g.ret_sort)
            sub.gfuns[g.name] = f
            if g.name not in self.gfuns and g.name not in self.c.macros:
                self.gfuns[g.name] = f
        for name, text in callee.lets.items():
            cst.env[name] = sub.spec(Clause(text), cst)
        for ax in callee.axioms:
            st.assume(sub.spec(ax, cst))
        return sub

    def import_lemmas(self, sub, callee, cst, st):
        """a callee's lemmas were proved from its axioms and requires; once the requires are established at the call
        site, the lemma statements hold for this instantiation"""
        if not callee.export_lemmas:
            return
        for lem in callee.lemmas:
            lst = State(env=dict(cst.env), pc=st.pc, heap=st.heap, old=cst.old, nxt=st.nxt)
            st.assume(sub.lemma_statement(lem, lst))

    def coerce_arg(self, t, v, st):
        return v

    def call_frame(self, callee, cst, st):
        pass

    def fresh_result(self, callee, qual, cst, st):
        if callee.returns is None:
            return NONE
        v = callee.returns.fresh(V.fresh_name("ret_" + qual.rpartition(".")[2]))
        st.assume(*self.type_facts(v))
        return v

    def default_arg(self, qual, n, st):
        fn = extract.find_function(qual)
        args = fn.args.args
        defaults = fn.args.defaults
        names = [a.arg for a in args]
        k = names.index(n) - (len(names) - len(defaults))
        if k < 0:
            raise EngineError(f"missing argument {n} for {qual}")
        return self.ev(defaults[k], State(), False)

    # ---- spec-only functions
    def spec_call(self, name, e, st):
        if name == "fstr":
            # the string f"<literal parts with {} for the integer hole>" as a function of the integer (see ex_JoinedStr)
            key = e.args[0].value
            return z3.Function("fstr:" + key, I, R)(self.ev(e.args[1], st, True))
        if name == "last_perm":
            # the permutation of the most recent sorted(...) (models/pylists.sorted_list) as an integer array
            pq = getattr(self, "last_perm", None)
            if pq is None:
                raise EngineError("last_perm(): no sorted(...) was evaluated")
            arr = V.fresh("perm_arr", z3.ArraySort(I, I))
            ii = V.fresh("i", I)
            st.assume(z3.ForAll(ii, arr[ii] == pq[0](ii), patterns=[arr[ii]]))
            return arr
        if name == "ghost":
            gname = e.args[0].value if isinstance(e.args[0], ast.Constant) else e.args[0].id
            gr = st.env.get("$ghost_returns", {})
            if gname not in gr:
                raise EngineError(f"no ghost output named {gname} is available here")
            return gr[gname]
        if name in ("forall", "exists"):
            return self.quantifier(name, e, st)
        if name == "implies":
            a = self.truthy(self.ev(e.args[0], st, True), st)
            known = self.literally_known(z3.simplify(a), st)
            if z3.is_false(z3.simplify(a)) or known is False:
                return z3.BoolVal(True)          # the consequent is not evaluated on paths where the antecedent is false
            b = self.truthy(self.ev(e.args[1], st, True), st)
            return z3.Implies(a, b)
        if name == "iff":
            a, b = [self.truthy(self.ev(x, st, True), st) for x in e.args]
            return a == b
        if name == "ite":
            c = self.truthy(self.ev(e.args[0], st, True), st)
            return V.ite(c, self.ev(e.args[1], st, True), self.ev(e.args[2], st, True))
        if name == "old":
            # entry values of parameters / entry heap; specification-bound names (macro parameters, quantified
            # variables) and locals keep their current meaning
            st2 = State(env={**st.env, **st.old}, pc=st.pc, heap=st.oldheap if st.oldheap is not None else st.heap,
                        old=st.old, nxt=st.nxt)
            st2.oldheap = st.oldheap
            return self.ev(e.args[0], st2, True)
        if name == "store":
            a, i, v = [self.ev(x, st, True) for x in e.args]
            if isinstance(a, Arr):
                return a.store([i], v)
            if a.sort().range() == R:
                v = to_real(v)
            if a.sort().domain() == R:
                i = to_real(i)
            return z3.Store(a, i, v)
        if name == "shape":
            a = self.ev(e.args[0], st, True)
            return Tup(a.dims)
        if name == "toreal":
            return to_real(self.ev(e.args[0], st, True))
        if name == "true":
            return z3.BoolVal(True)
        if name == "isint":
            v = self.ev(e.args[0], st, True)
            return z3.BoolVal(True) if is_int(v) else z3.IsInt(to_real(v))
        if name in ("psum", "rpsum"):
            a, k = [self.ev(x, st, True) for x in e.args]
            return self.psum_fun(a.dtype if isinstance(a, Arr) else ("int" if name == "psum" else "f64"), st)(
                a.data if isinstance(a, Arr) else a, k)
        if name in GLOBAL_GHOSTS and name not in self.gfuns:
            self.use_global_ghost(name, st)
        if name in self.gfuns:
            args = [self.ev(a, st, True) for a in e.args]
            zs = [a.data if isinstance(a, Arr) else a for a in args]
            decl = self.gfuns[name]
            if len(zs) != decl.arity():
                raise EngineError(f"ghost function {name}: arity")
            zs = [to_real(z) if decl.domain(k) == R and is_int(z) else z for k, z in enumerate(zs)]
            return decl(*zs)
        if name in self.c.macros:
            m = self.c.macros[name]
            if len(m.params) != len(e.args):
                raise EngineError(f"macro {name}: arity")
            st2 = State(env=dict(st.env), pc=st.pc, heap=st.heap, old=st.old, nxt=st.nxt)
            st2.oldheap = st.oldheap
            for p, a in zip(m.params, e.args):
                st2.env[p] = self.ev(a, st, True)
            return self.ev(m.body.node, st2, True)
        return NotImplemented

    def wrap_bound(self, x):
        return x

    def use_global_ghost(self, name, st):
        g = GLOBAL_GHOSTS[name]
        if g.decl is None:
            g.decl = z3.Function(name, *g.arg_sorts, g.ret_sort)
        self.gfuns[name] = g.decl
        blank = State(env={}, pc=[], heap={}, nxt=st.nxt)
        for ax in g.axioms:
            self.global_axioms = list(self.global_axioms) + [self.spec(ax, blank)]
        self.psum_used = True

    def quantifier(self, name, e, st):
        """forall(x, lo, hi, body) | forall(x, body) | forall([x, (y, Sort)], body); directly nested quantifiers of
        the same kind are flattened into one binder list (prenex form is friendlier to E-matching)."""
        st2 = State(env=dict(st.env), pc=st.pc, heap=st.heap, old=st.old, nxt=st.nxt)
        st2.oldheap = st.oldheap
        guards = []
        bound = []
        pats = []

        def bind(b):
            if isinstance(b, ast.Name):
                x = V.fresh(b.id, I)
                st2.env[b.id] = x
                bound.append(x)
                return x
            if isinstance(b, ast.Tuple) and len(b.elts) == 2 and isinstance(b.elts[0], ast.Name):
                x = V.fresh(b.elts[0].id, sort_of(b.elts[1].id))
                st2.env[b.elts[0].id] = self.wrap_bound(x)
                bound.append(x)
                return x
            raise EngineError("bad quantifier binder")
        node = e
        while True:
            args = list(node.args)
            kws = {k.arg: k.value for k in node.keywords}
            body = args[-1]
            if len(args) == 4 and isinstance(args[0], ast.Name):
                lo = self.ev(args[1], st2, True)
                hi = self.ev(args[2], st2, True)
                x = bind(args[0])
                guards += [lo <= x, x < hi]
            elif len(args) == 2 and isinstance(args[0], ast.List):
                for b in args[0].elts:
                    bind(b)
            elif len(args) == 2:
                bind(args[0])
            else:
                raise EngineError("quantifier form: forall(x, lo, hi, body) | forall(x, body) | forall([x, (y, Sort)], body)")
            if "pat" in kws:
                pn = kws["pat"]
                pl = pn.elts if isinstance(pn, ast.List) else [pn]
                for p in pl:
                    if isinstance(p, ast.Tuple):
                        pats.append(("multi", p.elts))
                    else:
                        pats.append(("one", p))
            if isinstance(body, ast.Call) and isinstance(body.func, ast.Name) and body.func.id == name \
                    and body.func.id not in st2.env:
                node = body
                continue
            break
        b = self.truthy(self.ev(body, st2, True), st2)
        if name == "forall" and not pats:
            # a universally quantified body (typically a macro expansion) is pulled into the same binder list
            while z3.is_quantifier(b) and b.is_forall() and b.num_patterns() == 0:
                inner = [V.fresh(b.var_name(i), b.var_sort(i)) for i in range(b.num_vars())]
                bound += inner
                b = z3.substitute_vars(b.body(), *reversed(inner))
                if z3.is_implies(b):
                    guards.append(b.arg(0))
                    b = b.arg(1)
        zp = []
        for kind, p in pats:
            if kind == "multi":
                zp.append(z3.MultiPattern(*[self.ev(x, st2, True) for x in p]))
            else:
                zp.append(self.ev(p, st2, True))
        if name == "forall":
            f = z3.Implies(z3.And(*guards), b) if guards else b
            return z3.ForAll(bound, f, patterns=zp) if zp else z3.ForAll(bound, f)
        f = z3.And(*guards, b) if guards else b
        return z3.Exists(bound, f, patterns=zp) if zp else z3.Exists(bound, f)

    # ---- builtins and numpy (textbook models, DESIGN.md 1.8)
    def builtin_call(self, name, e, st, spec):
        A = lambda k: self.ev(e.args[k], st, spec)
        if name == "len":
            v = A(0)
            if isinstance(v, Arr):
                return v.dims[0]
            if isinstance(v, SList):
                return v.length
            if isinstance(v, Tup):
                return z3.IntVal(len(v.items))
            r = self.len_other(v, st, spec, e)
            if r is not NotImplemented:
                return r
            raise EngineError(f"len of {v!r}")
        if name == "int":
            v = A(0)
            if is_bool(v):
                return z3.If(v, 1, 0)
            if is_num(v):
                return trunc_int(v)
            raise EngineError("int() of a non-number")
        if name in ("float", "np.float32", "np.float64", "np.int64", "np.int32"):
            v = A(0)
            if is_bool(v):
                v = z3.If(v, 1, 0)
            if not is_num(v):
                r = self.float_other(v, st, spec, e)
                if r is not NotImplemented:
                    return r
                raise EngineError(f"{name}() of a non-number")
            if name in ("np.int64", "np.int32"):
                return trunc_int(v)
            return to_real(v)
        if name in ("np.int8", "np.int16"):
            v = A(0)
            lo, hi = V.INT_RANGES["i8" if name == "np.int8" else "i16"]
            t = trunc_int(v)
            span = hi - lo + 1
            # two's complement wrap (numba / C cast of an in-range-of-int64 value)
            return (t - lo) % span + lo if False else (t - lo) - span * floor_div(t - lo, z3.IntVal(span)) + lo
        if name in ("abs", "np.abs"):
            v = A(0)
            if is_num(v):
                return zabs(v)
            raise EngineError("abs of a non-number")
        if name in ("min", "max", "np.minimum", "np.maximum"):
            if len(e.args) == 2 and not e.keywords:
                a, b = A(0), A(1)
                if is_num(a) and is_num(b):
                    return zmin(a, b) if name in ("min", "np.minimum") else zmax(a, b)
                r = self.minmax_other(name, a, b, st, spec, e)
                if r is not NotImplemented:
                    return r
                raise EngineError("min/max of non-numbers")
            return NotImplemented
        if name in ("np.min", "np.max"):
            v = A(0)
            if isinstance(v, SList) and z3.is_int_value(v.length):
                items = [v.get(z3.IntVal(k)) for k in range(v.length.as_long())]
                r = items[0]
                for x in items[1:]:
                    r = zmin(r, x) if name == "np.min" else zmax(r, x)
                return r
            return NotImplemented
        if name == "np.array" and len(e.args) == 1 and isinstance(e.args[0], ast.List) and not spec and len(e.keywords) == 1 \
                and e.keywords[0].arg == "dtype" and e.args[0].elts:
            # np.array([c0, .., ck], dtype=T) of scalars: a rank-1 array of that length holding the (cast) values
            dt = self.dtype_of(e.keywords[0].value)
            vals = [self.cast_scalar(self.ev(x, st, spec), dt) for x in e.args[0].elts]
            es = V.elem_sort(dt)
            data = V.fresh("nparr", z3.ArraySort(I, es))
            for k, v in enumerate(vals):
                v = z3.ToReal(v) if es == R and is_int(v) else v
                data = z3.Store(data, k, v)
            return Arr(data, [z3.IntVal(len(vals))], dt)
        if name == "np.array" and len(e.args) == 1 and isinstance(e.args[0], ast.List) and not spec and not e.keywords:
            return A(0)      # np.array([a, b, c]) of scalars: the list itself (only consumed by np.min / np.max)
        if name in ("np.zeros", "np.empty", "np.ones"):
            return self.np_alloc(name, e, st, spec)
        if name == "np.sum" and len(e.args) == 1:
            v = A(0)
            if isinstance(v, Arr) and v.rank == 1:
                return self.array_sum(v, st)
            if isinstance(v, SList) and len(v.elems.cs) == 1 and v.elems.cs[0].sort().range() in (R, I):
                # np.sum of a python list of numbers: the same prefix sum over the list's elements
                dt = "f64" if v.elems.cs[0].sort().range() == R else "int"
                return self.psum_fun(dt, st)(v.elems.cs[0], v.length)
            return NotImplemented
        if isinstance(e.func, ast.Attribute) and e.func.attr == "astype":
            v = self.ev(e.func.value, st, spec)
            if isinstance(v, Arr):
                dt = self.dtype_of(e.args[0])
                # contents of np.empty are arbitrary; after the cast they are arbitrary values of the new dtype
                if getattr(v, "uninit", False):
                    a = Arr(V.fresh("cast", V.nested_sort(V.elem_sort(dt), v.rank)), v.dims, dt)
                    a.uninit = True
                    return a
                return NotImplemented
        return NotImplemented

    def len_other(self, v, st, spec, e):
        return NotImplemented

    def float_other(self, v, st, spec, e):
        return NotImplemented

    def minmax_other(self, name, a, b, st, spec, e):
        return NotImplemented

    def dtype_of(self, node):
        t = ast.unparse(node)
        table = {"np.float32": "f32", "np.float64": "f64", "np.int16": "i16", "np.int32": "i32", "np.int8": "i8",
                 "np.int64": "i64", "float": "f64", "int": "i64", "np.float_": "f64"}
        if t in table:
            return table[t]
        raise EngineError(f"dtype {t}")

    def np_alloc(self, name, e, st, spec):
        shape = e.args[0]
        dims = [self.ev(x, st, spec) for x in shape.elts] if isinstance(shape, ast.Tuple) else [self.ev(shape, st, spec)]
        dims = [self.as_index(d) for d in dims]
        dtype = "f64"
        for k in e.keywords:
            if k.arg == "dtype":
                dtype = self.dtype_of(k.value)
        if len(e.args) > 1:
            dtype = self.dtype_of(e.args[1])
        for k, d in enumerate(dims):
            if not spec:
                self.oblige(st, d >= 0, f"alloc-nonneg@{e.lineno}:{e.col_offset}.{k}", "safety:alloc", e.lineno,
                            ast.unparse(e))
        sort = V.nested_sort(V.elem_sort(dtype), len(dims))
        if name == "np.empty":
            a = Arr(V.fresh("empty", sort), dims, dtype)
            a.uninit = True
            return a
        val = (z3.IntVal if V.is_int_dtype(dtype) else z3.RealVal)(0 if name == "np.zeros" else 1)
        z = val
        for _ in dims:
            z = z3.K(I, z)
        return Arr(z, dims, dtype)

    def psum_fun(self, dtype, st):
        """ghost prefix sums shared by code (np.sum) and specs:  psum(a,0)=0, psum(a,k+1)=psum(a,k)+a[k]"""
        es = V.elem_sort(dtype)
        key = "psum_int" if es == I else "psum_real"
        f = z3.Function(key, z3.ArraySort(I, es), I, es)
        if key not in self.psum_axioms_done:
            self.psum_axioms_done.add(key)
            a = z3.Const("a!ps", z3.ArraySort(I, es))
            k = z3.Int("k!ps")
            self.global_axioms.append(z3.ForAll(a, f(a, 0) == 0))
            self.global_axioms.append(z3.ForAll([a, k], z3.Implies(k >= 0, f(a, k + 1) == f(a, k) + a[k]),
                                                patterns=[f(a, k + 1), z3.MultiPattern(f(a, k), a[k])]))
        self.psum_used = True
        return f

    def array_sum(self, v, st):
        return self.psum_fun(v.dtype, st)(v.data, v.dims[0])

    # ------------------------------------------------------------------------------------------ iterables
    def iterable(self, node, st):
        if isinstance(node, ast.Call):
            fname = ast.unparse(node.func)
            if fname == "range":
                args = [self.as_index(self.ev(a, st, False)) for a in node.args]
                if len(args) == 1:
                    lo, hi = z3.IntVal(0), args[0]
                elif len(args) == 2:
                    lo, hi = args
                else:
                    raise EngineError("range with a step")
                return RangeIter(lo, hi)
            if fname == "enumerate":
                inner = self.iterable(node.args[0], st)
                return EnumIter(inner)
            if fname == "zip":
                return ZipIter([self.iterable(a, st) for a in node.args])
            if fname in self.c.calls and self.registry[self.c.calls[fname]].yields:
                return self.generator_iter(self.c.calls[fname], node, st)
        for m in self.ITER_MODELS:
            r = m(self, node, st)
            if r is not NotImplemented:
                return r
        v = self.ev(node, st, False)
        return self.iter_value(v, st, node)

    def iter_value(self, v, st, node):
        if isinstance(v, Arr):
            return SeqIter(v.dims[0], lambda k: v.at([k]))
        if isinstance(v, SList):
            return SeqIter(v.length, lambda k: v.get(k))
        if isinstance(v, Tup):
            return SeqIter(z3.IntVal(len(v.items)), lambda k: self.tup_at(v, k), concrete=len(v.items))
        raise EngineError(f"iteration over {v!r}")

    def tup_at(self, v, k):
        if z3.is_int_value(k):
            return v.items[k.as_long()]
        r = v.items[-1]
        for j in range(len(v.items) - 2, -1, -1):
            r = V.ite(k == j, v.items[j], r)
        return r

    def generator_iter(self, qual, node, st, argvals=None):
        callee = self.registry[qual]
        self.callees.add(qual)
        if argvals is None:
            argvals = [self.ev(a, st, False) for a in node.args]
        pnames = list(callee.params)
        cst = State(env=dict(zip(pnames, argvals)), pc=st.pc, heap=st.heap, nxt=st.nxt)
        sub = self.sub_engine(callee, qual, cst, st)
        cst.old = dict(cst.env)
        cst.oldheap = {k: dict(v) for k, v in st.heap.items()}
        line = node.lineno
        for k, cl in enumerate(callee.requires):
            g = sub.spec(cl, cst)
            self.oblige(st, g, f"call-{qual.partition('::')[2]}@{line}/pre#{cl.name or k}", "call_pre",
                        line, cl.text, cl.props)
            st.assume(g)
        self.import_lemmas(sub, callee, cst, st)
        # a generator that raises does so at the first next(): exceptional exits declared by its contract
        for exc, rs in callee.raises.items():
            cond = rs.get("iff", rs.get("when"))
            rst = st.clone()
            if cond is not None:
                cst_r = State(env=dict(cst.env), pc=rst.pc, heap=rst.heap, old=cst.old, nxt=st.nxt)
                cst_r.oldheap = cst.oldheap
                rst.assume(sub.spec(as_clause(cond), cst_r))
            self.pending_raises.append((exc, rst))
            if rs.get("iff") is not None:
                st.assume(z3.Not(sub.spec(as_clause(rs["iff"]), cst)))
        for gname in self.exported_generator_ghosts(callee):
            gv = V.fresh(gname, sort_of(callee.ghost_vars[gname][0]))
            cst.env[gname] = gv
            st.env["$ghost_returns"] = {**st.env.get("$ghost_returns", {}), gname: gv}
        if callee.count is not None:
            count = sub.spec(callee.count, cst)
        else:       # data-dependent number of yields: an unknown count constrained by the callee's proven count facts
            count = V.fresh("nyields", I)
            cst_c = State(env=dict(cst.env), pc=st.pc, heap=st.heap, old=cst.old, nxt=st.nxt)
            cst_c.oldheap = cst.oldheap
            cst_c.env["nyield"] = count
            st.assume(count >= 0)
            for cf in callee.count_facts:
                st.assume(sub.spec(cf, cst_c))
        tmpl = self.make_param("yield_tmpl", callee.returns, st)
        # ghost sequence of yielded values: one lifted family indexed by the yield number
        seq = Lifted(tmpl, [z3.Const(V.fresh_name("Y"), z3.ArraySort(I, c.sort())) for c in V.comps(tmpl)])
        kq = V.fresh("ky", I)
        cst_q = State(env=dict(cst.env), pc=st.pc, heap=st.heap, old=cst.old, nxt=st.nxt)
        cst_q.env["yielded"] = seq.select(kq)
        cst_q.env["nyield"] = kq
        facts = [sub.spec(cl, cst_q) for cl in callee.yields] + self.type_facts(seq.select(kq))
        st.assume(z3.ForAll(kq, z3.Implies(z3.And(0 <= kq, kq < count), z3.And(*facts))))
        st.assume(count >= 0)
        self.last_generator = (seq, count)
        return SeqIter(count, lambda k: seq.select(k), ghost_seq=seq)


class IterDesc:
    concrete = None

    def bind_head(self, eng, target, st, k):
        pass

    def after(self, eng, target, st):
        for n in extract.assigned_names([ast.Assign(targets=[target], value=ast.Constant(0))]):
            v = st.env.get(n)
            if v is not None and not isinstance(v, (str, NoneV, PyConst, Func, Ref)):
                st.env[n] = V.fresh_like(v, n)


class RangeIter(IterDesc):
    def __init__(self, lo, hi):
        self.lo, self.hi = lo, hi
        self.count = z3.simplify(zmax(hi - lo, z3.IntVal(0)))

    def bind_head(self, eng, target, st, k):
        # at the loop head the loop variable denotes the next value to be taken (== hi on exhaustion)
        eng.assign(target, z3.simplify(self.lo + k), st, None)

    def bind_item(self, eng, target, st, k, node):
        eng.assign(target, z3.simplify(self.lo + k), st, node)

    def item(self, k):
        return self.lo + k


class SeqIter(IterDesc):
    def __init__(self, count, getter, concrete=None, ghost_seq=None):
        self.count, self.getter, self.concrete, self.ghost_seq = count, getter, concrete, ghost_seq

    def bind_item(self, eng, target, st, k, node):
        eng.assign(target, self.getter(k), st, node)

    def item(self, k):
        return self.getter(k)


class EnumIter(IterDesc):
    def __init__(self, inner):
        self.inner = inner
        self.count = inner.count

    def bind_head(self, eng, target, st, k):
        # the index variable of enumerate is visible to invariants at the head
        if isinstance(target, ast.Tuple) and isinstance(target.elts[0], ast.Name):
            st.env[target.elts[0].id] = k

    def bind_item(self, eng, target, st, k, node):
        eng.assign(target, Tup([k, self.inner.item(k)]), st, node)

    def item(self, k):
        return Tup([k, self.inner.item(k)])


class ZipIter(IterDesc):
    def __init__(self, inners):
        self.inners = inners
        c = inners[0].count
        for i in inners[1:]:
            c = zmin(c, i.count)
        self.count = z3.simplify(c)

    def bind_item(self, eng, target, st, k, node):
        eng.assign(target, self.item(k), st, node)

    def item(self, k):
        return Tup([i.item(k) for i in self.inners])
