"""Models of the numpy selection idioms and of cvxpy used by get_best_alignment / get_best_soft_alignment
(the trusted base of C01, C02, C08, C11 - DESIGN.md 1.8).

numpy:   ids, = np.where(v > c)   ->  strictly increasing index array of exactly the positions with v[k] > c
         arr[ids]                 ->  fancy indexing: result[i] == arr[ids[i]]
cvxpy:   x = cp.Variable(shape=(n,), boolean=True);  c.T @ x;  A @ x (==, >=, <=) b;  cp.Minimize;  cp.Problem(obj, cons)
         Problem.solve(solver=S)  ->  either raises SolverError, or leaves x.value None - only if no 0/1 vector satisfies the
                                      constraints - or sets x.value to a 0/1 vector satisfying every constraint whose objective
                                      is minimal among all such vectors.  The same contract for every back end S.
         `import cylp` may raise ImportError.
Ghost: dot(c, y, k) = sum_{j<k} c[j]*y[j]   (so a constraint row r of `A @ x` is dot(A[r], x, n))."""
import ast
import z3
from .. import vals as V
from ..vals import Arr, Rec, Ref, Opt, Tup, PyConst, EngineError, I, R, B, NONE
from ..engine import Engine, Outcome, State, is_num, is_int, to_real
from ..heap import alloc, _heap

TRUSTED_NP = "model:numpy np.where(1-d condition) = sorted positions where it holds; arr[index_array] = row gather"
TRUSTED_CVX = ("model:cvxpy boolean program: Problem.solve either raises SolverError, or leaves x.value None only if the "
               "program is infeasible, or returns a 0/1 vector satisfying all constraints with minimal objective "
               "(assumed for CBC and GLPK_MI alike; `import cylp` may raise ImportError)")

AR = z3.ArraySort(I, R)
DOT = z3.Function("dot", AR, AR, I, R)


def dot_axioms():
    c, y = z3.Consts("c!dot y!dot", AR)
    k = z3.Int("k!dot")
    return [z3.ForAll([c, y], DOT(c, y, 0) == 0),
            z3.ForAll([c, y, k], z3.Implies(k >= 0, DOT(c, y, k + 1) == DOT(c, y, k) + c[k] * y[k]),
                      patterns=[DOT(c, y, k + 1)])]


def use_dot(self):
    if not getattr(self, "dot_used", False):
        self.dot_used = True
        self.global_axioms = list(self.global_axioms) + dot_axioms()
        self.psum_used = True     # global axioms are prepended to every obligation of the function


_prev_spec_call = Engine.spec_call


def spec_call(self, name, e, st):
    if name == "dot":
        c, y, k = [self.ev(a, st, True) for a in e.args]
        use_dot(self)
        return DOT(c.data if isinstance(c, Arr) else c, y.data if isinstance(y, Arr) else y, k)
    if name == "where_pos":
        return st.env["$where_pos"]
    return _prev_spec_call(self, name, e, st)


Engine.spec_call = spec_call


# ------------------------------------------------------------------------------------------ numpy
def np_where(self, e, st, spec):
    if ast.unparse(e.func) != "np.where" or len(e.args) != 1 or spec:
        return NotImplemented
    cond = e.args[0]
    if not (isinstance(cond, ast.Compare) and len(cond.ops) == 1 and isinstance(cond.ops[0], ast.Gt)):
        return NotImplemented
    v = self.ev(cond.left, st, spec)
    if isinstance(v, Opt):
        # x.value: the caller has asserted it is not None
        self.oblige(st, z3.Not(v.isnone), f"not-None@{e.lineno}:{e.col_offset}", "exception-freedom", e.lineno, ast.unparse(cond.left))
        v = v.val
    c = to_real(self.ev(cond.comparators[0], st, spec))
    if not (isinstance(v, Arr) and v.rank == 1):
        return NotImplemented
    n = v.dims[0]
    L = V.fresh("nwhere", I)
    ids = V.fresh("where", z3.ArraySort(I, I))
    wpos = V.fresh("wpos", z3.ArraySort(I, I))
    i, j, k = z3.Ints("i!w j!w k!w")
    st.assume(0 <= L, L <= n,
              z3.ForAll(i, z3.Implies(z3.And(0 <= i, i < L), z3.And(0 <= ids[i], ids[i] < n, v.data[ids[i]] > c, wpos[ids[i]] == i)),
                        patterns=[ids[i]]),
              z3.ForAll([i, j], z3.Implies(z3.And(0 <= i, i < j, j < L), ids[i] < ids[j]), patterns=[z3.MultiPattern(ids[i], ids[j])]),
              z3.ForAll(k, z3.Implies(z3.And(0 <= k, k < n, v.data[k] > c), z3.And(0 <= wpos[k], wpos[k] < L, ids[wpos[k]] == k)),
                        patterns=[wpos[k]]))
    st.env["$where_pos"] = wpos
    self.used_models.add(TRUSTED_NP)
    return Tup([Arr(ids, [L], "i64")])


Engine.MODELS.append(np_where)


def np_stats(self, e, st, spec):
    """np.mean(list of reals) = ghost prefix sum / length;  np.std = ghost function of (values, length) with std >= 0;
    np.ceil(x) = the least integer >= x (as a real);  .astype(np.int32) of it = that integer"""
    name = ast.unparse(e.func)
    if name in ("np.mean", "np.std") and len(e.args) == 1 and not e.keywords:
        v = self.ev(e.args[0], st, spec)
        if isinstance(v, Arr) and v.rank == 1:
            data, n = v.data, v.dims[0]
        elif isinstance(v, V.SList) and is_num(v.elems.template):
            data, n = v.elems.cs[0], v.length
        else:
            return NotImplemented
        if data.sort().range() == I:
            k = V.fresh("k", I)
            data = z3.Lambda([k], z3.ToReal(data[k]))
        self.used_models.add(TRUSTED_NP)
        if name == "np.mean":
            return self.psum_fun("f64", st)(data, n) / z3.ToReal(n)
        f = z3.Function("npstd", AR, I, R)
        st.assume(f(data, n) >= 0)
        return f(data, n)
    if name == "np.ceil" and len(e.args) == 1:
        x = to_real(self.ev(e.args[0], st, spec))
        c = V.fresh("ceil", I)
        st.assume(z3.ToReal(c) >= x, z3.ToReal(c) - 1 < x)
        self.used_models.add(TRUSTED_NP)
        return z3.ToReal(c)
    return NotImplemented


Engine.MODELS.append(np_stats)

_prev_spec_call_np = Engine.spec_call


def spec_call_np(self, name, e, st):
    if name == "npstd":
        # npstd(values, n): the ghost function standing for np.std of the first n values (np.std is a library function: only its
        # arguments are pinned, and std >= 0)
        a = self.ev(e.args[0], st, True)
        n = self.ev(e.args[1], st, True)
        a = a.data if isinstance(a, Arr) else a
        return z3.Function("npstd", AR, I, R)(a, n)
    return _prev_spec_call_np(self, name, e, st)


Engine.spec_call = spec_call_np


def fancy_index(self, base, ids, st, spec, e):
    if not (isinstance(ids, Arr) and ids.rank == 1 and V.is_int_dtype(ids.dtype)):
        raise EngineError("fancy indexing with a non-integer index array")
    L = ids.dims[0]
    i = V.fresh("i", I)
    if not spec:
        self.oblige(st, z3.ForAll(i, z3.Implies(z3.And(0 <= i, i < L), z3.And(0 <= ids.data[i], ids.data[i] < base.dims[0]))),
                    f"gather-in-bounds@{e.lineno}:{e.col_offset}", "safety:index", e.lineno, ast.unparse(e))
    new = V.fresh("gather", base.data.sort())
    st.assume(z3.ForAll(i, z3.Implies(z3.And(0 <= i, i < L), new[i] == base.data[ids.data[i]]), patterns=[new[i]]))
    self.used_models.add(TRUSTED_NP)
    return Arr(new, [L] + base.dims[1:], base.dtype)


Engine.fancy_index = fancy_index


# ------------------------------------------------------------------------------------------ cvxpy
def cvx_calls(self, e, st, spec):
    name = ast.unparse(e.func)
    if spec:
        return NotImplemented
    if name == "cp.Variable":
        kw = {k.arg: k.value for k in e.keywords}
        if "shape" not in kw or not (isinstance(kw.get("boolean"), ast.Constant) and kw["boolean"].value is True):
            raise EngineError("cp.Variable outside the modelled form (shape=(n,), boolean=True)")
        shp = kw["shape"]
        if not (isinstance(shp, ast.Tuple) and len(shp.elts) == 1):
            raise EngineError("cp.Variable: shape must be (n,)")
        n = self.as_index(self.ev(shp.elts[0], st, spec))
        self.used_models.add(TRUSTED_CVX)
        return alloc(st, {"$cls": "CvxVar", "n": n, "value": Opt(z3.BoolVal(True), Arr(V.fresh("xv", AR), [n], "f64"))})
    if name == "cp.Minimize":
        ex = self.ev(e.args[0], st, spec)
        if not (isinstance(ex, Rec) and ex.cls == "CvxLin"):
            raise EngineError("cp.Minimize of a non-linear form")
        return Rec("CvxMin", {"e": ex})
    if name == "cp.Problem":
        obj = self.ev(e.args[0], st, spec)
        if not isinstance(e.args[1], ast.List):
            raise EngineError("cp.Problem: constraints must be a list literal")
        cons = [self.ev(c, st, spec) for c in e.args[1].elts]
        for c in cons:
            if not (isinstance(c, Rec) and c.cls == "CvxCon"):
                raise EngineError("cp.Problem: unsupported constraint")
        return CvxProblem(obj, cons)
    if isinstance(e.func, ast.Attribute) and e.func.attr == "solve":
        p = self.ev(e.func.value, st, spec)
        if isinstance(p, CvxProblem):
            return solve(self, p, e, st)
    return NotImplemented


class CvxProblem(V.Val):
    def __init__(self, obj, cons):
        self.obj, self.cons = obj, cons

    def comps(self):
        return []

    def rebuild(self, cs):
        return self

    def static(self):
        return ("cvxproblem", id(self))


def con_holds(con, y, n):
    """constraint `A @ x (op) b` on a candidate vector y (z3 array): every row r satisfies dot(A[r], y, n) op b"""
    A = con.fields["A"]
    r = V.fresh("r", I)
    lhs = DOT(A.data[r], y, n)
    b = to_real(con.fields["b"])
    kind = con.fields["kind"].value
    rel = {"eq": lhs == b, "ge": lhs >= b, "le": lhs <= b}[kind]
    return z3.ForAll(r, z3.Implies(z3.And(0 <= r, r < A.dims[0]), rel), patterns=[DOT(A.data[r], y, n)])


def is01(y, n):
    k = V.fresh("k", I)
    return z3.ForAll(k, z3.Implies(z3.And(0 <= k, k < n), z3.Or(y[k] == 0, y[k] == 1)), patterns=[y[k]])


def solve(self, p, e, st):
    use_dot(self)
    self.used_models.add(TRUSTED_CVX)
    lin = p.obj.fields["e"]
    xref = lin.fields["x"]
    xo = _heap(st, xref)
    n = xo["n"]
    for c in p.cons:
        if c.fields["x"].oid != xref.oid:
            raise EngineError("constraints over another variable")
        self.oblige(st, z3.And(c.fields["A"].dims[1] == n), f"cvx-shape@{e.lineno}", "safety:shape", e.lineno, ast.unparse(e))
    self.oblige(st, lin.fields["c"].dims[0] == n, f"cvx-shape-objective@{e.lineno}", "safety:shape", e.lineno, ast.unparse(e))
    # 1. the solver may fail
    self.pending_raises.append(("SolverError", st.clone()))
    # 2. otherwise: value None (only if infeasible) or an optimal 0/1 solution
    isnone = V.fresh("xnone", B)
    v = V.fresh("xval", AR)
    y = V.fresh("y", AR)
    feas_v = z3.And(is01(v, n), *[con_holds(c, v, n) for c in p.cons])
    feas_y = z3.And(is01(y, n), *[con_holds(c, y, n) for c in p.cons])
    cdat = lin.fields["c"].data
    st.assume(z3.Implies(isnone, z3.ForAll(y, z3.Not(feas_y))),
              z3.Implies(z3.Not(isnone), z3.And(feas_v, z3.ForAll(y, z3.Implies(feas_y, DOT(cdat, v, n) <= DOT(cdat, y, n)),
                                                                   patterns=[DOT(cdat, y, n)]))))
    xo["value"] = Opt(isnone, Arr(v, [n], "f64"))
    return NONE


Engine.MODELS.append(cvx_calls)

_prev_binop_other = Engine.binop_other


def binop_other(self, op, a, b, st, spec, node):
    if isinstance(op, ast.MatMult) and isinstance(b, Ref) and _heap(st, b).get("$cls") == "CvxVar" and isinstance(a, Arr):
        if a.rank == 1:
            return Rec("CvxLin", {"c": a, "x": b})
        if a.rank == 2:
            return Rec("CvxMatVec", {"A": a, "x": b})
    return _prev_binop_other(self, op, a, b, st, spec, node)


Engine.binop_other = binop_other
_prev_arr_binop = Engine.arr_binop


def arr_binop(self, op, a, b, st, spec, node):
    if isinstance(op, ast.MatMult):
        r = binop_other(self, op, a, b, st, spec, node)
        if r is not NotImplemented:
            return r
    return _prev_arr_binop(self, op, a, b, st, spec, node)


Engine.arr_binop = arr_binop

_prev_compare = Engine.compare


def compare(self, op, a, b, st, spec, node):
    ma, mb = isinstance(a, Rec) and a.cls == "CvxMatVec", isinstance(b, Rec) and b.cls == "CvxMatVec"
    if ma or mb:
        if ma and is_num(b):
            kind = {ast.Eq: "eq", ast.GtE: "ge", ast.LtE: "le"}.get(type(op))
            m, rhs = a, b
        elif mb and is_num(a):
            kind = {ast.Eq: "eq", ast.GtE: "le", ast.LtE: "ge"}.get(type(op))      # b0 <= A@x  is  A@x >= b0
            m, rhs = b, a
        else:
            kind = None
        if kind is None:
            raise EngineError("cvxpy constraint outside the modelled forms (A @ x ==/>=/<= number)")
        return Rec("CvxCon", {"kind": PyConst(kind), "A": m.fields["A"], "x": m.fields["x"], "b": rhs})
    return _prev_compare(self, op, a, b, st, spec, node)


Engine.compare = compare

# `import cylp` may raise ImportError (the package may be absent)
def import_stmt(self, s, st):
    if isinstance(s, ast.Import) and any(a.name == "cylp" for a in s.names):
        self.used_models.add(TRUSTED_CVX)
        return [Outcome("raise", st.clone(), exc="ImportError", node=s), Outcome("normal", st)]
    return NotImplemented


Engine.STMT_MODELS.append(import_stmt)
