"""Model of the random generators (trusted base of C15, C16, C19; DESIGN.md 1.5 'Randomness'): every call returns a fresh value
restricted only by the support of its law, so a postcondition proved over it holds for EVERY draw:
   np.random.normal(mu, sigma)        any real            np.random.uniform(a, b) / numpy.random.uniform   a value in [a, b] (a <= b)
   np.random.random()                 in [0, 1)           np.random.randint(lo, hi)                        an integer in [lo, hi); ValueError when empty
   np.random.choice(xs[, p=w])        an element of xs (xs: sorted set of strings, or a list / array)  - requires xs non-empty
   np.random.choice(list, p=float array)   ValueError unless the weights are a probability vector over the list, else an element of it
   random.uniform / random.randrange  likewise (stdlib generator)
Which generator (NumPy's global one or the stdlib's) is consumed is an effect, checked by pyvc/effects.py."""
import ast
import z3
from .. import vals as V
from ..vals import SList, Arr, Ref, Opt, EngineError, I, R
from ..engine import Engine, is_num, to_real
from ..heap import set_of, wrap, deopt, wf_set

TRUSTED = "model:random generators return a value within the support of the requested law (normal: any real; uniform: [a,b]; choice: an element)"


def rng(self, e, st, spec):
    name = ast.unparse(e.func)
    if spec or not name.startswith(("np.random.", "numpy.random.", "random.")):
        return NotImplemented
    fn = name.split(".")[-1]
    self.used_models.add(TRUSTED)
    A = lambda k: self.ev(e.args[k], st, spec)      # noqa: E731
    if fn == "normal":
        A(0), A(1)
        return V.fresh("normal", R)
    if fn == "uniform":
        a, b = to_real(A(0)), to_real(A(1))
        r = V.fresh("uniform", R)
        st.assume(z3.Implies(a <= b, z3.And(a <= r, r <= b)), z3.Implies(b < a, z3.And(b <= r, r <= a)))
        return r
    if fn == "random":
        r = V.fresh("random", R)
        st.assume(0 <= r, r < 1)
        return r
    if fn in ("randint", "randrange"):
        lo, hi = self.as_index(A(0)), self.as_index(A(1))
        r = V.fresh("randint", I)
        # an empty range raises ValueError (random.randrange: "empty range", np.random.randint: "low >= high")
        bad = st.clone()
        bad.assume(z3.Not(lo < hi))
        self.pending_raises.append(("ValueError", bad))
        st.assume(lo < hi, lo <= r, r < hi)
        return r
    if fn == "choice":
        xs = deopt(self, A(0), st, spec, e)
        s_ = set_of(self, st, xs)
        if s_ is not None:
            st.assume(*wf_set(s_["mem"], s_["n"], s_["seq"], s_["idx"]))
            self.oblige(st, s_["n"] > 0, f"choice-from-nonempty@{e.lineno}:{e.col_offset}", "exception-freedom", e.lineno, ast.unparse(e))
            k = V.fresh("choice", I)
            st.assume(0 <= k, k < s_["n"], s_["mem"][s_["seq"][k]])
            return wrap(s_["seq"][k])
        pk = [kw_.value for kw_ in e.keywords if kw_.arg == "p"]
        w = self.ev(pk[0], st, spec) if isinstance(xs, SList) and pk else None
        if isinstance(w, Arr) and w.rank == 1 and w.data.sort().range() == R:
            # choice(xs, p=w) with w a float array: ValueError unless w is a probability vector over xs (no negative entry, sum 1, one
            # weight per element); otherwise an element of xs (NaN entries: S2).  (Weights held as a Python list / None: the older,
            # coarser model below - an element of xs, the weights' validity not examined.)
            j = V.fresh("j", I)
            f = self.psum_fun("f64", st)
            valid = z3.And(xs.length > 0, w.dims[0] == xs.length, z3.ForAll(j, z3.Implies(z3.And(0 <= j, j < xs.length), w.data[j] >= 0)),
                           f(w.data, xs.length) == 1)
            bad = st.clone()
            bad.assume(z3.Not(valid))
            self.pending_raises.append(("ValueError", bad))
            st.assume(valid)
            k = V.fresh("choice", I)
            st.assume(0 <= k, k < xs.length)
            self.last_choice_index = k
            return xs.get(k)
        if isinstance(xs, SList):
            self.oblige(st, xs.length > 0, f"choice-from-nonempty@{e.lineno}:{e.col_offset}", "exception-freedom", e.lineno, ast.unparse(e))
            k = V.fresh("choice", I)
            st.assume(0 <= k, k < xs.length)
            self.last_choice_index = k
            return xs.get(k)
        raise EngineError("np.random.choice over an unmodelled population")
    if fn == "seed":
        A(0)
        return V.NONE
    raise EngineError(f"random generator call {name}")


Engine.MODELS.insert(0, rng)


def consts(self, e, base, st, spec):
    return NotImplemented


_prev_attr = Engine.ex_Attribute


def ex_Attribute(self, e, st, spec):
    if ast.unparse(e) == "pyannote.core.segment.SEGMENT_PRECISION":
        from fractions import Fraction
        return z3.RealVal(Fraction(1, 1000000))
    return _prev_attr(self, e, st, spec)


Engine.ex_Attribute = ex_Attribute
