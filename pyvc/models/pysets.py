"""Model of the builtin `set` and `collections.Counter` as used by Alignment.check (trusted base of C17), by value:

   set()                      the empty set (element type declared in the contract's locals)                       s.add(x)         s := s U {x}   (rebinding the name, S3)
   set(lst)                   {x | exists k: lst[k] == x}         a - b            {x | x in a and x not in b}
   bool(s)                    exists x: x in s
   Counter(lst)[x]            the number of occurrences of x in lst.  Used facts (the model's axioms; true of any exact count):
                                  c[x] >= 0;   c[x] >= 1  iff  x occurs;   c[x] >= 2  iff  x occurs at two positions;
                                  c[x] >= 3  iff  x occurs at three positions
   {k for k, n in c.items() if cond(n)}     {x | c[x] >= 1 and cond(c[x])}
   sep.join(<anything>)       some string (message text, never inspected)
Elements are hashable values whose equality is component-wise (strings, numbers, Units (S6), tuples of those): membership is a nested
z3 array over the element's components.  Iteration order of a set is never used by the modelled code (only inside message formatting)."""
import ast
import z3
from .. import vals as V
from ..vals import Val, SList, Tup, EngineError, I, B, NONE, PyConst
from ..engine import Engine, State, is_int

TRUSTED = ("model:builtin set / collections.Counter by value (membership arrays; Counter facts: count >= 1 / >= 2 / >= 3 iff one / two / three "
           "positions of the list hold the element); str.join = some string")


def nested_sort(sorts, leaf):
    s = leaf
    for k in reversed(sorts):
        s = z3.ArraySort(k, s)
    return s


def sel(arr, keys):
    for k in keys:
        arr = arr[k]
    return arr


class PSet(Val):
    def __init__(self, mem, template):
        self.mem, self.template = mem, template

    def comps(self):
        return [self.mem]

    def rebuild(self, cs):
        return PSet(cs[0], self.template)

    def static(self):
        return ("pyset", tuple(str(c.sort()) for c in V.comps(self.template)))

    def has(self, x):
        return sel(self.mem, V.comps(x))

    def __repr__(self):
        return f"PSet({self.mem})"


class PCounter(Val):
    def __init__(self, cnt, template):
        self.cnt, self.template = cnt, template

    def comps(self):
        return [self.cnt]

    def rebuild(self, cs):
        return PCounter(cs[0], self.template)

    def static(self):
        return ("pycounter",)


def empty_set(self, tmpl):
    ks = [c.sort() for c in V.comps(tmpl)]
    base = z3.K(ks[-1], z3.BoolVal(False))
    for kk in reversed(ks[:-1]):
        base = z3.K(kk, base)
    self.used_models.add(TRUSTED)
    return PSet(base, tmpl)


Engine.empty_set = empty_set


def key_consts(template, tag):
    return [V.fresh(tag, c.sort()) for c in V.comps(template)]


def fresh_set(template, tag="set"):
    ks = [c.sort() for c in V.comps(template)]
    return PSet(z3.Const(V.fresh_name(tag), nested_sort(ks, B)), template)


def define(st, s, keys, body):
    """s := {keys | body}"""
    st.assume(z3.ForAll(keys, sel(s.mem, keys) == body, patterns=[sel(s.mem, keys)]))


def calls(self, e, st, spec):
    name = ast.unparse(e.func)
    if name == "set" and not e.keywords and not spec:
        self.used_models.add(TRUSTED)
        if not e.args:
            raise EngineError("set() outside a plain assignment to a declared local")
        v = self.ev(e.args[0], st, spec)
        if isinstance(v, SList):
            tmpl = v.get(z3.IntVal(0))
            s = fresh_set(tmpl, "setof")
            keys = key_consts(tmpl, "x")
            k = V.fresh("k", I)
            eq = z3.And(*[a == b for a, b in zip(V.comps(v.get(k)), keys)])
            define(st, s, keys, z3.Exists(k, z3.And(0 <= k, k < v.length, eq)))
            return s
        return NotImplemented
    if name == "Counter" and len(e.args) == 1 and not e.keywords and not spec:
        v = self.ev(e.args[0], st, spec)
        if not isinstance(v, SList):
            return NotImplemented
        self.used_models.add(TRUSTED)
        tmpl = v.get(z3.IntVal(0))
        ks = [c.sort() for c in V.comps(tmpl)]
        c = PCounter(z3.Const(V.fresh_name("counter"), nested_sort(ks, I)), tmpl)
        keys = key_consts(tmpl, "x")
        k1, k2, k3 = V.fresh("k1", I), V.fresh("k2", I), V.fresh("k3", I)

        def at(k):
            return z3.And(0 <= k, k < v.length, *[a == b for a, b in zip(V.comps(v.get(k)), keys)])
        n = sel(c.cnt, keys)
        st.assume(z3.ForAll(keys, z3.And(n >= 0,
                                         (n >= 1) == z3.Exists(k1, at(k1)),
                                         (n >= 2) == z3.Exists([k1, k2], z3.And(k1 < k2, at(k1), at(k2))),
                                         (n >= 3) == z3.Exists([k1, k2, k3], z3.And(k1 < k2, k2 < k3, at(k1), at(k2), at(k3)))),
                            patterns=[n]))
        return c
    if isinstance(e.func, ast.Attribute) and e.func.attr == "join" and isinstance(e.func.value, ast.Constant) \
            and isinstance(e.func.value.value, str) and not spec:
        # message text: the argument (a generator over a set, formatting units) is not evaluated
        self.used_models.add(TRUSTED)
        return V.fresh("joined", V.R)
    if isinstance(e.func, ast.Attribute) and e.func.attr == "add" and isinstance(e.func.value, ast.Name) and not spec:
        recv = st.env.get(e.func.value.id)
        if isinstance(recv, PSet):
            x = self.coerce_elem(recv.template, self.ev(e.args[0], st, spec), st)
            new = fresh_set(recv.template, "added")
            keys = key_consts(recv.template, "x")
            eq = z3.And(*[a == b for a, b in zip(V.comps(x), keys)])
            define(st, new, keys, z3.Or(sel(recv.mem, keys), eq))
            st.env[e.func.value.id] = new
            self.used_models.add(TRUSTED)
            return NONE
    return NotImplemented


Engine.MODELS.insert(0, calls)

_prev_binop_other = Engine.binop_other


def binop_other(self, op, a, b, st, spec, node):
    if isinstance(op, ast.Sub) and isinstance(a, PSet) and isinstance(b, PSet):
        self.used_models.add(TRUSTED)
        new = fresh_set(a.template, "diff")
        keys = key_consts(a.template, "x")
        define(st, new, keys, z3.And(sel(a.mem, keys), z3.Not(sel(b.mem, keys))))
        return new
    return _prev_binop_other(self, op, a, b, st, spec, node)


Engine.binop_other = binop_other

_prev_truthy_other = Engine.truthy_other


def truthy_other(self, v, st):
    if isinstance(v, PSet):
        keys = key_consts(v.template, "x")
        return z3.Exists(keys, sel(v.mem, keys))
    return _prev_truthy_other(self, v, st)


Engine.truthy_other = truthy_other


def set_comp(self, e, st, spec):
    """{key for key, n in counter.items() if cond(n)}"""
    g = e.generators[0] if len(e.generators) == 1 else None
    ok = g is not None and isinstance(g.iter, ast.Call) and isinstance(g.iter.func, ast.Attribute) and g.iter.func.attr == "items" \
        and isinstance(g.target, ast.Tuple) and len(g.target.elts) == 2 and all(isinstance(x, ast.Name) for x in g.target.elts) \
        and isinstance(e.elt, ast.Name) and e.elt.id == g.target.elts[0].id
    if not ok:
        raise EngineError("set comprehension outside the modelled form")
    c = self.ev(g.iter.func.value, st, spec)
    if not isinstance(c, PCounter):
        raise EngineError("set comprehension over something else than Counter.items()")
    keys = key_consts(c.template, "x")
    st2 = State(env=dict(st.env), pc=st.pc, heap=st.heap, old=st.old, nxt=st.nxt)
    st2.oldheap = st.oldheap
    st2.env[g.target.elts[0].id] = c.template.rebuild(keys) if hasattr(c.template, "rebuild") else keys[0]
    n = sel(c.cnt, keys)
    st2.env[g.target.elts[1].id] = n
    npc = len(st.pc)
    conds = [self.truthy(self.ev(t, st2, spec), st2) for t in g.ifs]
    if len(st.pc) != npc:
        raise EngineError("set comprehension whose filter needs auxiliary definitions")
    new = fresh_set(c.template, "setcomp")
    define(st, new, keys, z3.And(n >= 1, *conds))
    self.used_models.add(TRUSTED)
    return new


Engine.ex_SetComp = set_comp

_prev_spec_call = Engine.spec_call


def spec_call(self, name, e, st):
    if name == "has":
        s = self.ev(e.args[0], st, True)
        x = self.ev(e.args[1], st, True)
        if not isinstance(s, PSet):
            raise EngineError("has(set, element)")
        x = self.coerce_elem(s.template, x)
        return s.has(x)
    return _prev_spec_call(self, name, e, st)


Engine.spec_call = spec_call
