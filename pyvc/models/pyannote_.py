"""Model of pyannote.core.Segment (frozen dataclass, order=True) and of pygamma's Unit record (S6).

   Segment(start, end):  bool(seg) <=> end - start > SEGMENT_PRECISION (1e-6);  duration = end - start if bool else 0.0
   Segment order / equality: lexicographic on (start, end) (dataclass order=True, eq=True)
   Unit(segment, annotation): frozen dataclass, field-wise equality; __lt__ is the repository's own code (under contract)"""
import ast
import z3
from fractions import Fraction
from .. import vals as V
from ..vals import Rec, Opt, EngineError
from ..engine import Engine, is_num, to_real

TRUSTED = "model:pyannote.core.Segment (duration/bool with SEGMENT_PRECISION=1e-6, lexicographic order) and dataclass Unit"
PRECISION = z3.RealVal(Fraction(1, 1000000))


def seg_bool(seg):
    return seg.fields["end"] - seg.fields["start"] > PRECISION


def seg_duration(seg):
    return z3.If(seg_bool(seg), seg.fields["end"] - seg.fields["start"], z3.RealVal(0))


def attr_model(self, e, base, st, spec):
    if isinstance(base, Rec) and base.cls == "Segment":
        self.used_models.add(TRUSTED)
        if e.attr == "duration":
            return seg_duration(base)
        if e.attr == "middle":
            return (base.fields["start"] + base.fields["end"]) / 2
    return NotImplemented


Engine.ATTR_MODELS.append(attr_model)


def mk_segment(start, end):
    return Rec("Segment", {"start": to_real(start), "end": to_real(end)})


def mk_unit(seg, ann):
    return Rec("Unit", {"segment": seg, "annotation": ann})


def call_model(self, e, st, spec):
    name = ast.unparse(e.func)
    if name == "Segment" and len(e.args) == 2:
        a, b = self.ev(e.args[0], st, spec), self.ev(e.args[1], st, spec)
        if is_num(a) and is_num(b):
            self.used_models.add(TRUSTED)
            return mk_segment(a, b)
    if name == "Unit" and 1 <= len(e.args) + len(e.keywords) <= 2:
        args = [self.ev(a, st, spec) for a in e.args]
        kw = {k.arg: self.ev(k.value, st, spec) for k in e.keywords}
        seg = args[0] if args else kw["segment"]
        ann = args[1] if len(args) > 1 else kw.get("annotation", V.NONE)
        self.used_models.add(TRUSTED)
        return mk_unit(seg, self.as_opt_label(ann))
    return NotImplemented


def as_opt_label(self, ann):
    if isinstance(ann, Opt):
        return ann
    if isinstance(ann, V.NoneV):
        return Opt(z3.BoolVal(True), z3.RealVal(0))
    if is_num(ann):
        return Opt(z3.BoolVal(False), to_real(ann))
    raise EngineError(f"label {ann!r}")


Engine.as_opt_label = as_opt_label
Engine.MODELS.append(call_model)

_prev_truthy = Engine.truthy_other


def truthy_other(self, v, st):
    if isinstance(v, Rec) and v.cls == "Segment":
        self.used_models.add(TRUSTED)
        return seg_bool(v)
    return _prev_truthy(self, v, st)


Engine.truthy_other = truthy_other

_prev_order = Engine.order_other


def order_other(self, op, a, b, st, spec, node):
    if isinstance(a, Rec) and isinstance(b, Rec) and a.cls == b.cls == "Segment":
        self.used_models.add(TRUSTED)
        lt = z3.Or(a.fields["start"] < b.fields["start"],
                   z3.And(a.fields["start"] == b.fields["start"], a.fields["end"] < b.fields["end"]))
        eq = z3.And(a.fields["start"] == b.fields["start"], a.fields["end"] == b.fields["end"])
        if isinstance(op, ast.Lt):
            return lt
        if isinstance(op, ast.LtE):
            return z3.Or(lt, eq)
        if isinstance(op, ast.Gt):
            return z3.And(z3.Not(lt), z3.Not(eq))
        if isinstance(op, ast.GtE):
            return z3.Not(lt)
    return _prev_order(self, op, a, b, st, spec, node)


Engine.order_other = order_other


# ---- pyannote.core.Annotation / Timeline as the sequence of their (segment, track, label) triples / segments (trusted base of C18 X5):
#      annotation.itertracks(yield_label=True) yields exactly the triples of the annotation, each once; `for segment in timeline` its segments.
TRUSTED_ANNOT = ("model:pyannote Annotation = the list of its (segment, track, label) triples; itertracks(yield_label=True) yields them, each once "
                 "(the parser that built it - load_rttm - is outside the model)")


def annot_iter(self, node, st):
    import ast as _ast
    if not (isinstance(node, _ast.Call) and isinstance(node.func, _ast.Attribute) and node.func.attr == "itertracks"):
        return NotImplemented
    kw = {k.arg: k.value for k in node.keywords}
    if node.args or set(kw) != {"yield_label"} or not (isinstance(kw["yield_label"], _ast.Constant) and kw["yield_label"].value is True):
        raise EngineError("itertracks outside the modelled form (yield_label=True)")
    v = self.ev(node.func.value, st, False)
    if not isinstance(v, V.SList):
        return NotImplemented
    self.used_models.add(TRUSTED_ANNOT)
    return self.iter_value(v, st, node)


Engine.ITER_MODELS.append(annot_iter)


TRUSTED_RTTM = ("model:pyannote.database.util.load_rttm(path) = some dict uri -> Annotation, seen as the list of its (uri, annotation) items; "
                "the RTTM parser itself is outside the model")


def load_rttm_model(self, e, st, spec):
    import ast as _ast
    if _ast.unparse(e.func) == "load_rttm" and len(e.args) == 1 and not spec:
        arg = e.args[0]
        if isinstance(arg, _ast.Call) and _ast.unparse(arg.func) == "str" and len(arg.args) == 1:
            arg = arg.args[0]          # str(path): the path as text
        self.ev(arg, st, spec)
        self.used_models.add(TRUSTED_RTTM)
        from ..contract import ListOf, TupleOf, OptT, RealT
        from ..vals import SList, Lifted
        seg = Rec("Segment", {"start": V.fresh("s", V.R), "end": V.fresh("e", V.R)})
        track = V.Tup([seg, V.fresh("trk", V.R), Opt(V.fresh("nolab", V.B), V.fresh("lab", V.R))])
        tracks = SList(V.fresh("ntracks", V.I), Lifted.fresh(track, "tracks"))
        item = V.Tup([V.fresh("uri", V.R), tracks])
        files = SList(V.fresh("nfiles", V.I), Lifted.fresh(item, "rttm"))
        st.assume(files.length >= 0)
        i = V.fresh("i", V.I)
        st.assume(z3.ForAll(i, files.get(i).items[1].length >= 0))
        return files
    if isinstance(e.func, _ast.Attribute) and e.func.attr == "str" and False:
        return NotImplemented
    return NotImplemented


Engine.MODELS.append(load_rttm_model)


def items_of_pairs(self, node, st):
    import ast as _ast
    if isinstance(node, _ast.Call) and isinstance(node.func, _ast.Attribute) and node.func.attr == "items" and not node.args \
            and isinstance(node.func.value, _ast.Name):
        v = st.env.get(node.func.value.id)
        if isinstance(v, V.SList) and isinstance(v.elems.template, V.Tup) and len(v.elems.template.items) == 2:
            return self.iter_value(v, st, node)
    return NotImplemented


Engine.ITER_MODELS.append(items_of_pairs)


# ---- pympi.Eaf as the list of its tiers (trusted base of C18 X4): eaf.get_tier_names() = the tier names (dict keys: pairwise distinct),
#      eaf.get_annotation_data_for_tier(name) = the (start, end, value) triples of the tier of that name
TRUSTED_EAF = ("model:pympi.Eaf(path) = a mapping tier name -> list of (start, end, value) annotations; get_tier_names() its keys (distinct), "
               "get_annotation_data_for_tier(name) the list stored under a key (the ELAN parser, time alignment and reference tiers are "
               "outside the model)")


def eaf_model(self, e, st, spec):
    import ast as _ast
    from ..vals import SList, Lifted
    name = _ast.unparse(e.func)
    if name == "Eaf" and len(e.args) == 1 and not spec:
        self.ev(e.args[0], st, spec)
        self.used_models.add(TRUSTED_EAF)
        triple = V.Tup([V.fresh("st", V.R), V.fresh("en", V.R), V.fresh("val", V.R)])
        data = SList(V.fresh("nann", V.I), Lifted.fresh(triple, "anns"))
        tiers = SList(V.fresh("ntiers", V.I), Lifted.fresh(V.Tup([V.fresh("tname", V.R), data]), "eaf"))
        idx = z3.Function(V.fresh_name("tier_index"), V.R, V.I)
        k = V.fresh("k", V.I)
        st.assume(tiers.length >= 0,
                  z3.ForAll(k, z3.Implies(z3.And(0 <= k, k < tiers.length),
                                          z3.And(idx(tiers.get(k).items[0]) == k, tiers.get(k).items[1].length >= 0)), patterns=[tiers.get(k).items[0]]))
        return Rec("Eaf", {"tiers": tiers, "idx": V.Func(idx, name="tier_index")})
    if isinstance(e.func, _ast.Attribute) and e.func.attr in ("get_tier_names", "get_annotation_data_for_tier") and not spec:
        recv = self.ev(e.func.value, st, spec)
        if isinstance(recv, Rec) and recv.cls == "Eaf":
            tiers = recv.fields["tiers"]
            self.used_models.add(TRUSTED_EAF)
            if e.func.attr == "get_tier_names":
                tmpl = tiers.get(z3.IntVal(0)).items[0]
                names = Lifted.fresh(tmpl, "tier_names")
                k = V.fresh("k", V.I)
                st.assume(z3.ForAll(k, names.select(k) == tiers.get(k).items[0], patterns=[names.select(k)]))
                return SList(tiers.length, names)
            nm = to_real(self.ev(e.args[0], st, spec))
            i = recv.fields["idx"].decl(nm)
            # KeyError for a name that is not a tier: the modelled callers only pass names taken from get_tier_names()
            self.oblige(st, z3.And(0 <= i, i < tiers.length, tiers.get(i).items[0] == nm), f"tier-exists@{e.lineno}", "exception-freedom", e.lineno,
                        "the name is one of the file's tiers")
            return tiers.get(i).items[1]
    return NotImplemented


Engine.MODELS.append(eaf_model)


# ---- textgrid.TextGrid as the list of its interval tiers (trusted base of C18 X3): tg.getNames() = the tier names in file order (possibly
#      repeated), tg.getFirst(name) = the first tier of that name, iterating a tier = its intervals (minTime, maxTime, mark);
#      an empty mark is modelled as None (so `if not interval.mark` is exactly "the mark is empty")
TRUSTED_TG = ("model:textgrid.TextGrid.fromFile(path) = a list of interval tiers (name, intervals); getNames() their names in order, "
              "getFirst(name) the first tier of that name, a tier iterates over its intervals (minTime, maxTime, mark); the empty mark is "
              "modelled as None (the TextGrid parser and point tiers are outside the model)")


def textgrid_model(self, e, st, spec):
    import ast as _ast
    from ..vals import SList, Lifted
    name = _ast.unparse(e.func)
    if name == "TextGrid.fromFile" and len(e.args) == 1 and not spec:
        arg = e.args[0]
        if isinstance(arg, _ast.Call) and _ast.unparse(arg.func) == "str" and len(arg.args) == 1:
            arg = arg.args[0]
        self.ev(arg, st, spec)
        self.used_models.add(TRUSTED_TG)
        interval = Rec("Interval", {"minTime": V.fresh("mn", V.R), "maxTime": V.fresh("mx", V.R),
                                    "mark": Opt(V.fresh("nomark", V.B), V.fresh("mark", V.R), empty_text=True)})
        ivs = SList(V.fresh("niv", V.I), Lifted.fresh(interval, "ivs"))
        tiers = SList(V.fresh("ntiers", V.I), Lifted.fresh(V.Tup([V.fresh("tname", V.R), ivs]), "tg"))
        first = z3.Function(V.fresh_name("first_tier"), V.R, V.I)
        k = V.fresh("k", V.I)
        st.assume(tiers.length >= 0,
                  z3.ForAll(k, z3.Implies(z3.And(0 <= k, k < tiers.length),
                                          z3.And(0 <= first(tiers.get(k).items[0]), first(tiers.get(k).items[0]) <= k,
                                                 tiers.get(first(tiers.get(k).items[0])).items[0] == tiers.get(k).items[0],
                                                 tiers.get(k).items[1].length >= 0)), patterns=[tiers.get(k).items[0]]))
        return Rec("TextGrid", {"tiers": tiers, "first": V.Func(first, name="first_tier")})
    if isinstance(e.func, _ast.Attribute) and e.func.attr in ("getNames", "getFirst") and not spec:
        recv = self.ev(e.func.value, st, spec)
        if isinstance(recv, Rec) and recv.cls == "TextGrid":
            tiers = recv.fields["tiers"]
            self.used_models.add(TRUSTED_TG)
            if e.func.attr == "getNames":
                tmpl = tiers.get(z3.IntVal(0)).items[0]
                names = Lifted.fresh(tmpl, "tg_names")
                k = V.fresh("k", V.I)
                st.assume(z3.ForAll(k, names.select(k) == tiers.get(k).items[0], patterns=[names.select(k)]))
                return SList(tiers.length, names)
            nm = to_real(self.ev(e.args[0], st, spec))
            i = recv.fields["first"].decl(nm)
            self.oblige(st, z3.And(0 <= i, i < tiers.length, tiers.get(i).items[0] == nm), f"tier-exists@{e.lineno}", "exception-freedom", e.lineno,
                        "the name is one of the file's tiers")
            return tiers.get(i).items[1]
    return NotImplemented


Engine.MODELS.append(textgrid_model)
