"""Textbook models of Python list expressions and numba typed lists (by value, S3):
   [expr for i in range(n)]   ->  list of length max(n,0) whose i-th element is expr(i)
   [x] * k                    ->  list of length max(k,0), every element x
   nb.typed.List(lst)         ->  lst            (numba typed list = same sequence)"""
import ast
import z3
from .. import vals as V
from ..vals import SList, Lifted, EngineError, I
from ..engine import Engine, is_int, zmax, State

TRUSTED = "model:python-lists (comprehension over range, repetition, nb.typed.List = same sequence)"


def list_comp(self, e, st, spec):
    if len(e.generators) != 1 or e.generators[0].ifs:
        raise EngineError("list comprehension outside the modelled form")
    g = e.generators[0]
    it = g.iter
    if not isinstance(g.target, ast.Name) or not (isinstance(it, ast.Call) and ast.unparse(it.func) == "range" and len(it.args) == 1):
        return self.list_comp_other(e, st, spec)
    n = self.as_index(self.ev(it.args[0], st, spec))
    i = V.fresh(g.target.id, I)
    st2 = State(env=dict(st.env), pc=st.pc, heap=st.heap, old=st.old, nxt=st.nxt)
    st2.oldheap = st.oldheap
    st2.env[g.target.id] = i
    npc = len(st.pc)
    elt = self.ev(e.elt, st2, spec)
    # facts assumed while evaluating the element (definitions of fresh helper symbols) stay global assumptions;
    # they must not depend on the comprehension variable (a per-element Skolem function would be needed)
    for fact in st.pc[npc:]:
        if occurs(fact, i):
            raise EngineError("list comprehension whose element needs per-element auxiliary definitions")
    new = Lifted.fresh(elt, "comp")
    eqs = [c_new[i] == c for c_new, c in zip(new.cs, V.comps(elt))]
    st.assume(z3.ForAll(i, z3.Implies(z3.And(0 <= i, i < n), z3.And(*eqs))) if eqs else None)
    self.used_models.add(TRUSTED)
    return SList(zmax(n, z3.IntVal(0)), new)


def occurs(expr, const):
    seen = set()
    todo = [expr]
    while todo:
        x = todo.pop()
        if x.get_id() in seen:
            continue
        seen.add(x.get_id())
        if z3.is_quantifier(x):
            todo.append(x.body())
        elif z3.is_app(x):
            if x.num_args() == 0 and x.eq(const):
                return True
            todo.extend(x.children())
    return False


def list_comp_other(self, e, st, spec):
    """[elt for x in iterable [if c]] over any modelled iterable without filter: the list of the per-element values (fresh symbols of
    the element evaluation become Skolem functions of the index, facts are universally closed - as for generator expressions)"""
    from .genexp import gen_parts
    g = e.generators[0]
    if g.ifs:
        raise EngineError("list comprehension with a filter")
    desc, k, guard, cond, elt = gen_parts(self, ast.GeneratorExp(elt=e.elt, generators=e.generators), st, spec, allow_values=True)
    new = Lifted.fresh(elt, "comp")
    eqs = [c_new[k] == c for c_new, c in zip(new.cs, V.comps(elt))]
    if eqs:
        st.assume(z3.ForAll(k, z3.Implies(guard, z3.And(*eqs))))
    self.used_models.add(TRUSTED)
    return SList(zmax(desc.count, z3.IntVal(0)), new)


Engine.ex_ListComp = list_comp


def list_of_genexp(self, e, st, spec):
    """list(<generator expression>) is the list comprehension with the same element and clauses"""
    if isinstance(e.func, ast.Name) and e.func.id == "list" and len(e.args) == 1 and not e.keywords and isinstance(e.args[0], ast.GeneratorExp):
        g = e.args[0]
        lc = ast.copy_location(ast.ListComp(elt=g.elt, generators=g.generators), g)
        return list_comp(self, lc, st, spec)
    return NotImplemented


_prev_builtin_call = Engine.builtin_call


def builtin_call(self, name, e, st, spec):
    r = list_of_genexp(self, e, st, spec)
    return r if r is not NotImplemented else _prev_builtin_call(self, name, e, st, spec)


Engine.builtin_call = builtin_call
Engine.list_comp_other = list_comp_other

_prev_binop_other = Engine.binop_other


def binop_other(self, op, a, b, st, spec, node):
    if isinstance(op, ast.Mult) and isinstance(a, SList) and is_int(b) and z3.is_int_value(a.length) \
            and a.length.as_long() == 1:
        x = a.get(z3.IntVal(0))
        new = Lifted.fresh(x, "rep")
        j = V.fresh("j", I)
        eqs = [c_new[j] == c for c_new, c in zip(new.cs, V.comps(x))]
        if eqs:
            st.assume(z3.ForAll(j, z3.And(*eqs)))
        self.used_models.add(TRUSTED)
        return SList(zmax(b, z3.IntVal(0)), new)
    return _prev_binop_other(self, op, a, b, st, spec, node)


Engine.binop_other = binop_other


def typed_list(self, e, st, spec):
    name = ast.unparse(e.func)
    if name in ("nb.typed.List", "list") and len(e.args) == 1 and not e.keywords:
        v = self.ev(e.args[0], st, spec)
        if isinstance(v, SList):
            self.used_models.add(TRUSTED)
            return v
    return NotImplemented


Engine.MODELS.append(typed_list)


TRUSTED_SORTED = ("model:sorted(list, key=f) returns a permutation of the list (the ordering by key is NOT modelled: no obligation relies on it)")


def sorted_list(self, e, st, spec):
    """sorted(xs[, key=...]) on a by-value list: a fresh list ys with a Skolem bijection p: ys[i] == xs[p(i)].
    The key function is not evaluated (in CPython it is called once per element; the modelled callers pass pure keys - a key that
    raises would surface in the bounded oracle, not here)."""
    if ast.unparse(e.func) != "sorted" or len(e.args) != 1 or any(k.arg not in ("key", "reverse") for k in e.keywords) or spec:
        return NotImplemented
    v = self.ev(e.args[0], st, spec)
    if not isinstance(v, SList):
        return NotImplemented
    n = v.length
    new = Lifted.fresh(v.get(z3.IntVal(0)), "sorted")
    p = z3.Function(V.fresh_name("perm"), I, I)
    q = z3.Function(V.fresh_name("perm_inv"), I, I)
    i = V.fresh("i", I)
    old = v.get(p(i))
    eqs = [c_new[i] == c for c_new, c in zip(new.cs, V.comps(old))]
    st.assume(z3.ForAll(i, z3.Implies(z3.And(0 <= i, i < n), z3.And(0 <= p(i), p(i) < n, q(p(i)) == i, *eqs)), patterns=[p(i)]))
    st.assume(z3.ForAll(i, z3.Implies(z3.And(0 <= i, i < n), z3.And(0 <= q(i), q(i) < n, p(q(i)) == i)), patterns=[q(i)]))
    self.used_models.add(TRUSTED_SORTED)
    self.last_perm = (p, q)
    return SList(n, new)


Engine.MODELS.append(sorted_list)
