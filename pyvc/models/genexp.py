"""Models of the aggregate builtins over generator expressions (textbook semantics):
   all(e for x in it [if c])  = forall k < count: c(k) -> e(k)          any(...) = exists
   sum(e for x in it [if c])  = psum(lambda k. (e(k) if c(k) else 0), count)      (the ghost prefix-sum function)
   min/max(e for ... , default=d): the default when no element qualifies, otherwise an attained bound
Facts assumed while evaluating the element for a generic index k are universally closed over k."""
import ast
import z3
from .. import vals as V
from ..vals import EngineError, I, R, Arr
from ..engine import Engine, State, is_num, is_int, is_bool, to_real, is_z3
from .pylists import occurs

TRUSTED = "model:python aggregates over generator expressions (all/any/sum/min/max) = quantifier / ghost prefix sum"


def new_consts(exprs, mark):
    """uninterpreted constants created after `mark` (fresh symbols of the element evaluation)"""
    out, seen, todo = {}, set(), list(exprs)
    while todo:
        x = todo.pop()
        if x.get_id() in seen:
            continue
        seen.add(x.get_id())
        if z3.is_quantifier(x):
            todo.append(x.body())
        elif z3.is_app(x):
            if x.num_args() == 0 and x.decl().kind() == z3.Z3_OP_UNINTERPRETED:
                nm = x.decl().name()
                if "!" in nm and nm.rsplit("!", 1)[1].isdigit() and int(nm.rsplit("!", 1)[1]) > mark:
                    out[nm] = x
            todo.extend(x.children())
    return out


def gen_parts(self, g, st, spec, allow_values=False):
    if len(g.generators) != 1:
        raise EngineError("generator expression with several for-clauses")
    comp = g.generators[0]
    filt = None
    it = comp.iter
    if isinstance(it, ast.Call) and ast.unparse(it.func) == "filter" and len(it.args) == 2 and isinstance(it.args[0], ast.Lambda):
        # filter(lambda x: c, seq): the elements of seq for which c holds (only under sum / all / any)
        filt = it.args[0]
        it = it.args[1]
    desc = self.iterable(it, st)
    k = V.fresh("k", I)
    mark = V.fresh_mark()
    st2 = State(env=dict(st.env), pc=st.pc, heap=st.heap, old=st.old, nxt=st.nxt)
    st2.oldheap = st.oldheap
    st2.plan, st2.plan_pos = getattr(st, "plan", []), getattr(st, "plan_pos", 0)
    npc = len(st.pc)
    nobl = len(self.obls)
    npend = len(getattr(self, "pending_raises", None) or [])
    self.assign(comp.target, desc.item(k), st2, comp)
    conds = [self.truthy(self.ev(c, st2, spec), st2) for c in comp.ifs]
    if filt is not None:
        st3 = State(env=dict(st2.env), pc=st.pc, heap=st.heap, old=st.old, nxt=st.nxt)
        st3.env[filt.args.args[0].arg] = desc.item(k)
        conds.append(self.truthy(self.ev(filt.body, st3, spec), st3))
    cond = z3.And(*conds) if conds else z3.BoolVal(True)
    # the element is evaluated under the guard (k in range, filter holds)
    st2.pc = st.pc
    elt = self.ev(g.elt, st2, spec)
    guard = z3.And(0 <= k, k < desc.count)
    # an exception raised (through a callee's contract) while evaluating the element is raised for SOME index in range that passes the filter
    for (_exc, rst) in (getattr(self, "pending_raises", None) or [])[npend:]:
        rst.assume(guard, cond)
    # universally close the facts that mention k; fresh symbols of the element evaluation that occur in such facts are
    # per-element values: they become Skolem functions of k
    new = st.pc[npc:]
    del st.pc[npc:]
    dep = [f for f in new if occurs(f, k)]
    if dep and not is_num(elt) and not is_bool(elt) and not allow_values:
        raise EngineError("generator element with per-element auxiliary definitions and a non-scalar value")
    sk = new_consts(dep + [c for c in V.comps(elt)], mark) if allow_values else new_consts(dep, mark)
    sub = [(c, z3.Function(nm + "_sk", I, c.sort())(k)) for nm, c in sk.items()]
    if sub:
        new = [z3.substitute(f, *sub) for f in new]
        cond = z3.substitute(cond, *sub)
        elt = z3.substitute(elt, *sub) if is_z3(elt) else V.rebuild(elt, [z3.substitute(c, *sub) for c in V.comps(elt)])
        for o in self.obls[nobl:]:
            o.goal = z3.substitute(o.goal, *sub)
            o.hyps = o.hyps[:npc] + [z3.substitute(h, *sub) for h in o.hyps[npc:]]
    for f in new:
        st.pc.append(z3.ForAll(k, z3.Implies(guard, f)) if occurs(f, k) else f)
    # safety obligations generated for the generic element hold for every k: close them too
    for o in self.obls[nobl:]:
        if occurs(o.goal, k) or any(occurs(h, k) for h in o.hyps[npc:]):
            extra = [h for h in o.hyps[npc:]]
            o.hyps = o.hyps[:npc] + [guard, cond] + extra
    st.assume(desc.count >= 0)
    self.used_models.add(TRUSTED)
    return desc, k, guard, cond, elt


def aggregate(self, e, st, spec):
    name = ast.unparse(e.func)
    if name not in ("all", "any", "sum", "min", "max") or not e.args or not isinstance(e.args[0], ast.GeneratorExp):
        return NotImplemented
    desc, k, guard, cond, elt = gen_parts(self, e.args[0], st, spec)
    if name == "all":
        return z3.ForAll(k, z3.Implies(z3.And(guard, cond), self.truthy(elt, st)))
    if name == "any":
        return z3.Exists(k, z3.And(guard, cond, self.truthy(elt, st)))
    if name == "sum":
        if is_bool(elt):
            elt = z3.If(elt, 1, 0)
        if not is_num(elt):
            raise EngineError("sum of non-numbers")
        body = elt if z3.is_true(cond) else z3.If(cond, elt, 0 if is_int(elt) else z3.RealVal(0))
        f = self.psum_fun("int" if is_int(elt) else "f64", st)
        return f(z3.Lambda([k], body), desc.count)
    # min / max with default
    dflt = None
    for kw in e.keywords:
        if kw.arg == "default":
            dflt = self.ev(kw.value, st, spec)
    if not is_num(elt):
        raise EngineError("min/max of non-numbers")
    r = V.fresh(name, elt.sort())
    some = z3.Exists(k, z3.And(guard, cond))
    bound = (r <= elt) if name == "min" else (r >= elt)
    facts = [z3.Implies(some, z3.And(z3.Exists(k, z3.And(guard, cond, r == elt)), z3.ForAll(k, z3.Implies(z3.And(guard, cond), bound))))]
    if dflt is not None:
        d = to_real(dflt) if elt.sort() == R else dflt
        facts.append(z3.Implies(z3.Not(some), r == d))
    else:
        if not spec:
            self.oblige(st, some, f"nonempty-{name}@{e.lineno}:{e.col_offset}", "exception-freedom", e.lineno, ast.unparse(e))
    st.assume(*facts)
    return r


Engine.MODELS.insert(0, aggregate)

_prev_spec_call = Engine.spec_call


def spec_call(self, name, e, st):
    if name == "lam":
        # lam(k, body): the array  k |-> body   (argument of psum)
        b = e.args[0]
        k = V.fresh(b.id, I)
        st2 = State(env=dict(st.env), pc=st.pc, heap=st.heap, old=st.old, nxt=st.nxt)
        st2.oldheap = st.oldheap
        st2.env[b.id] = k
        body = self.ev(e.args[1], st2, True)
        return z3.Lambda([k], body)
    return _prev_spec_call(self, name, e, st)


Engine.spec_call = spec_call
