"""Models of the numpy calls of OrdinalCategoricalDissimilarity.__init__ (trusted base of C04, ordinal / numerical family):

   np.array(SortedSet of str)  the array of its elements in ascending order
   np.array(xs, dtype=str)     the same sequence of strings            np.arange(n, dtype=T)    the array 0, 1, .., n-1
   np.unique(xs)               a sequence with no more elements than xs, with exactly as many iff xs has no duplicate
   np.array(list(ss), dtype=np.float32)  for a PARAMETER ss the contract types as StrListOf (a list of strings, never re-assigned):
                               raises ValueError iff some string is not a number literal (isnumeric), else the array of their values (numval)
   np.argsort(xs)              a permutation idx of 0..n-1 (with inverse) such that xs[idx[0]] <= xs[idx[1]] <= ... in the order on strings
                               (the real codes of strings are ordered like the strings: S5)"""
import ast
import z3
from .. import vals as V
from ..vals import SList, Arr, Lifted, EngineError, I, R
from ..engine import Engine

ISNUMERIC = z3.Function("isnumeric", R, z3.BoolSort())     # the string (by its code) is a float literal
NUMVAL = z3.Function("numval", R, R)                      # the number it denotes
TRUSTED_PARSE = ("model:numpy np.array(list of strings, dtype=np.float32): ValueError iff some string is not a number literal, else the "
                 "array of the numbers they denote (float32 rounding: S2)")

TRUSTED = ("model:numpy np.array(list, dtype=str) = the list; np.array(SortedSet) = its ascending enumeration; np.array(list of scalars) = the same sequence; np.unique(xs): len <= len(xs), equal iff xs has no duplicate; np.arange; "
           "np.argsort(xs) = a permutation sorting xs (non-decreasing), with its inverse")


def is_strs(self, node):
    """the expression is a bare name (possibly typed as strings by the contract): never treated as numbers here"""
    return isinstance(node, ast.Name)


def npsort(self, e, st, spec):
    name = ast.unparse(e.func)
    if spec:
        return NotImplemented
    kw = {k.arg: k.value for k in e.keywords}
    if name == "np.average" and len(e.args) == 1 and not kw:
        # np.average(xs) without weights is np.mean(xs)
        e2 = ast.copy_location(ast.Call(func=ast.Attribute(value=ast.Name(id="np", ctx=ast.Load()), attr="mean", ctx=ast.Load()),
                                        args=e.args, keywords=[]), e)
        ast.fix_missing_locations(e2)
        return self.ev(e2, st, spec)
    if name == "np.array" and len(e.args) == 1 and set(kw) == {"dtype"} and ast.unparse(kw["dtype"]) == "str":
        v = self.ev(e.args[0], st, spec)
        if isinstance(v, SList) and len(v.elems.cs) == 1 and v.elems.cs[0].sort().range() == R:
            self.used_models.add(TRUSTED)
            return v
        return NotImplemented
    if name == "np.array" and len(e.args) == 1 and set(kw) == {"dtype"} and ast.unparse(kw["dtype"]) in ("np.float32", "np.float64", "float"):
        a = e.args[0]
        if isinstance(a, ast.Call) and ast.unparse(a.func) == "list" and len(a.args) == 1 and not a.keywords \
                and not isinstance(a.args[0], ast.GeneratorExp):
            a = a.args[0]
        from contracts.types import StrListOf
        if not isinstance(a, ast.Name) and not isinstance(a, ast.List):
            v = self.ev(a, st, spec)
            if isinstance(v, SList) and len(v.elems.cs) == 1 and v.elems.cs[0].sort().range() in (R, I) and not is_strs(self, a):
                # np.array(list of numbers computed in place, dtype=float): the float64 array of the same numbers
                self.used_models.add(TRUSTED)
                c0 = v.elems.cs[0]
                if c0.sort().range() == I:
                    kk = V.fresh("k", I)
                    c0 = z3.Lambda([kk], z3.ToReal(c0[kk]))
                return Arr(c0, [v.length], self.dtype_of(kw["dtype"]))
            return NotImplemented
        if isinstance(a, ast.Name) and isinstance(self.c.params.get(a.id), StrListOf) \
                and not any(isinstance(n, ast.Name) and n.id == a.id and isinstance(n.ctx, ast.Store) for n in ast.walk(self.fn)):
            v = self.ev(a, st, spec)
            xs, n = v.elems.cs[0], v.length
            k = V.fresh("k", I)
            allnum = z3.ForAll(k, z3.Implies(z3.And(0 <= k, k < n), ISNUMERIC(xs[k])), patterns=[ISNUMERIC(xs[k])])
            bad = st.clone()
            bad.assume(z3.Not(allnum))
            self.pending_raises.append(("ValueError", bad))
            st.assume(allnum)
            data = V.fresh("parsed", z3.ArraySort(I, R))
            st.assume(z3.ForAll(k, data[k] == NUMVAL(xs[k]), patterns=[data[k]]))
            self.used_models.add(TRUSTED_PARSE)
            return Arr(data, [n], self.dtype_of(kw["dtype"]))
        return NotImplemented
    if name == "np.array" and len(e.args) == 1 and not kw:
        from ..heap import set_of, wf_set
        v = self.ev(e.args[0], st, spec)
        if isinstance(v, V.Opt) and isinstance(v.val, SList):
            self.oblige(st, z3.Not(v.isnone), f"not-None@{e.lineno}:np.array", "exception-freedom", e.lineno,
                        "np.array(None) is a 0-d object array, not the 1-d array the code goes on to use")
            v = v.val
        if isinstance(v, SList) and not isinstance(e.args[0], ast.List):
            # np.array(list of numbers / strings / objects): the same sequence (strings, float64 values and objects are carried unchanged)
            self.used_models.add(TRUSTED)
            return v
        s_ = set_of(self, st, v) if isinstance(v, V.Ref) else None
        if s_ is not None and s_["elem"] == R:
            # np.array(SortedSet of strings): the array of its elements in ascending order (string codes carried as reals)
            st.assume(*wf_set(s_["mem"], s_["n"], s_["seq"], s_["idx"]))
            self.used_models.add(TRUSTED)
            return Arr(s_["seq"], [s_["n"]], "f64")
        return NotImplemented
    if name == "np.unique" and len(e.args) == 1 and not kw:
        v = self.ev(e.args[0], st, spec)
        if isinstance(v, SList) and len(v.elems.cs) == 1:
            self.used_models.add(TRUSTED)
            u = SList(V.fresh("nunique", I), Lifted.fresh(v.get(z3.IntVal(0)), "unique"))
            k, k2 = V.fresh("k", I), V.fresh("k2", I)
            nodup = z3.ForAll([k, k2], z3.Implies(z3.And(0 <= k, k < k2, k2 < v.length), v.elems.cs[0][k] != v.elems.cs[0][k2]))
            st.assume(u.length >= 0, u.length <= v.length, (u.length == v.length) == nodup)
            return u
        return NotImplemented
    if name == "np.arange" and len(e.args) == 1 and set(kw) <= {"dtype"}:
        n = self.as_index(self.ev(e.args[0], st, spec))
        dt = self.dtype_of(kw["dtype"]) if "dtype" in kw else "i64"
        es = V.elem_sort(dt)
        data = V.fresh("arange", z3.ArraySort(I, es))
        k = V.fresh("k", I)
        st.assume(z3.ForAll(k, data[k] == (z3.ToReal(k) if es == R else k), patterns=[data[k]]))
        self.used_models.add(TRUSTED)
        return Arr(data, [z3.If(n >= 0, n, 0)], dt)
    if name == "np.argsort" and len(e.args) == 1 and not kw:
        v = self.ev(e.args[0], st, spec)
        if isinstance(v, SList) and len(v.elems.cs) == 1 and v.elems.cs[0].sort().range() == R:
            xs, n = v.elems.cs[0], v.length
            idx = V.fresh("argsort", z3.ArraySort(I, I))
            inv = V.fresh("argsort_inv", z3.ArraySort(I, I))
            k, k2 = V.fresh("k", I), V.fresh("k2", I)
            st.assume(z3.ForAll(k, z3.Implies(z3.And(0 <= k, k < n), z3.And(0 <= idx[k], idx[k] < n, inv[idx[k]] == k,
                                                                            0 <= inv[k], inv[k] < n, idx[inv[k]] == k)), patterns=[idx[k]]),
                      z3.ForAll(k, z3.Implies(z3.And(0 <= k, k < n), z3.And(0 <= inv[k], inv[k] < n, idx[inv[k]] == k)), patterns=[inv[k]]),
                      z3.ForAll([k, k2], z3.Implies(z3.And(0 <= k, k < k2, k2 < n), xs[idx[k]] <= xs[idx[k2]]),
                                patterns=[z3.MultiPattern(idx[k], idx[k2])]))
            self.used_models.add(TRUSTED)
            self.last_argsort = (idx, inv)
            return Arr(idx, [n], "i64")
        return NotImplemented
    return NotImplemented


Engine.MODELS.insert(0, npsort)

_prev_spec_call = Engine.spec_call


def spec_call(self, name, e, st):
    if name == "argsort_inverse":
        # the inverse permutation of the most recent np.argsort
        if getattr(self, "last_argsort", None) is None:
            raise EngineError("argsort_inverse(): no np.argsort was evaluated")
        return self.last_argsort[1]
    if name in ("isnumeric", "numval"):
        x = self.ev(e.args[0], st, True)
        return (ISNUMERIC if name == "isnumeric" else NUMVAL)(x)
    return _prev_spec_call(self, name, e, st)


Engine.spec_call = spec_call
