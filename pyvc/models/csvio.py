"""Model of the file / csv idioms used by Continuum.to_csv / from_csv (trusted base of C18, DESIGN.md 1.8):

   with open(path[, "w"], newline='') as f      a file object; its content is a ghost sequence of rows
   csv.writer(f, delimiter=d).writerow([..])    appends one row of 4 fields (str(value) of each item)
   csv.reader(f, delimiter=d)                   iterates the rows of the file
   reader(writer(rows)) == rows  PROVIDED both files were opened with newline=''  (the csv module's documented requirement):
   that precondition is an obligation at every csv.reader / csv.writer call.
   A field is (text, num): `num` is the number the text parses to;  float(str(x)) == x;  str(None) is written as the empty string.
   Path(p) is the path itself."""
import ast
import z3
from .. import vals as V
from ..vals import Rec, Opt, Tup, SList, Lifted, Ref, PyConst, EngineError, I, R, B, NONE, NoneV
from ..engine import Engine, Outcome, State, is_num, is_real, to_real
from ..heap import alloc, _heap, UnitV

TRUSTED = ("model:csv / open: a file holds a sequence of rows of text fields; csv.reader(csv.writer(rows)) == rows for files opened with "
           "newline='' (obligation at each reader / writer); float(str(x)) == x; Path(p) = p")
NUMTEXT = z3.Function("numtext", R, R)          # str(x) of a number, as a string code (injective)
EMPTY = z3.Real("str:")                          # the empty string


def field_of(self, v, st):
    """a csv field carries one value x: read back as text it is x (a string code), parsed with float() it is x (a number).
    (Strings and numbers are both real-valued terms in this encoding; a field written from a label and parsed as a number - or
    the reverse - yields that label's code, which no postcondition accepts as a time.)"""
    if isinstance(v, Opt):          # a label: None is written as ''
        x = z3.If(v.isnone, EMPTY, v.val)
    elif isinstance(v, NoneV):
        x = EMPTY
    elif isinstance(v, Rec) and v.cls == "Field":
        return v
    elif is_num(v):
        x = to_real(v)
    else:
        raise EngineError(f"csv field {v!r}")
    return Rec("Field", {"text": x, "num": x})


def row_template():
    return Tup([Rec("Field", {"text": V.fresh("t", R), "num": V.fresh("n", R)}) for _ in range(4)])


def calls(self, e, st, spec):
    name = ast.unparse(e.func)
    if spec:
        return NotImplemented
    if name == "Path" and len(e.args) == 1:
        self.used_models.add(TRUSTED)
        return self.ev(e.args[0], st, spec)
    if name == "open":
        kw = {k.arg: k.value for k in e.keywords}
        mode = e.args[1].value if len(e.args) > 1 and isinstance(e.args[1], ast.Constant) else "r"
        nl = isinstance(kw.get("newline"), ast.Constant) and kw["newline"].value == ""
        self.used_models.add(TRUSTED)
        rows = SList(z3.IntVal(0), Lifted.fresh(row_template(), "rows")) if "w" in mode else SList.fresh(row_template(), "filerows")
        if "w" not in mode:
            st.assume(rows.length >= 0)
        return alloc(st, {"$cls": "File", "mode": PyConst(mode), "newline_empty": PyConst(nl), "rows": rows, "path": self.ev(e.args[0], st, spec)})
    if name in ("csv.writer", "csv.reader"):
        f = self.ev(e.args[0], st, spec)
        if not (isinstance(f, Ref) and _heap(st, f)["$cls"] == "File"):
            raise EngineError("csv on a non-file")
        self.oblige(st, z3.BoolVal(_heap(st, f)["newline_empty"].value), f"csv-file-opened-with-newline-empty@{e.lineno}", "call_pre", e.lineno,
                    "csv module precondition: the file object was opened with newline=''", {"C18"})
        delim = None
        for k in e.keywords:
            if k.arg == "delimiter":
                delim = self.ev(k.value, st, spec)
            else:
                # quoting / skipinitialspace / escapechar / dialect change what a row means: outside the model
                raise EngineError(f"{name} with option {k.arg!r}: the csv model covers the delimiter only")
        self.used_models.add(TRUSTED)
        return alloc(st, {"$cls": "CsvWriter" if name == "csv.writer" else "CsvReader", "file": f, "delimiter": delim})
    if isinstance(e.func, ast.Attribute) and e.func.attr == "writerow":
        w = self.ev(e.func.value, st, spec)
        if isinstance(w, Ref) and _heap(st, w)["$cls"] == "CsvWriter":
            if not (isinstance(e.args[0], ast.List) and len(e.args[0].elts) == 4):
                raise EngineError("writerow of anything but a 4-item list literal")
            items = [field_of(self, self.ev(x, st, spec), st) for x in e.args[0].elts]
            f = _heap(st, _heap(st, w)["file"])
            f["rows"] = f["rows"].append(Tup(items))
            self.used_models.add(TRUSTED)
            return NONE
    return NotImplemented


Engine.MODELS.insert(0, calls)

_prev_iter_value = Engine.iter_value


def iter_value(self, v, st, node):
    if isinstance(v, Ref) and _heap(st, v).get("$cls") == "CsvReader":
        f = _heap(st, _heap(st, v)["file"])
        self.used_models.add(TRUSTED)
        return self._prev_iter_value_csv(f["rows"], st, node)
    return _prev_iter_value(self, v, st, node)


Engine._prev_iter_value_csv = lambda self, rows, st, node: _prev_iter_value(self, rows, st, node)
Engine.iter_value = iter_value

_prev_float = Engine.float_other


def float_other(self, v, st, spec, e):
    if isinstance(v, Rec) and v.cls == "Field":
        self.used_models.add(TRUSTED)
        return v.fields["num"]
    return _prev_float(self, v, st, spec, e)


Engine.float_other = float_other


def st_with(self, s, st):
    """with EXPR as NAME: body   (context managers modelled: files, executors): bind, run the body; __exit__ has no modelled effect"""
    if not isinstance(s, ast.With) or len(s.items) != 1:
        return NotImplemented
    it = s.items[0]
    outs = self.with_raises(lambda: self.ev(it.context_expr, st, False), st, lambda v, st2: None, s)
    res = []
    for o in outs:
        if o.kind != "normal":
            res.append(o)
            continue
        if it.optional_vars is not None:
            self.assign(it.optional_vars, o.val, o.st, s)
        res += self.exec_block(s.body, o.st)
    return res


Engine.STMT_MODELS.append(st_with)

_prev_spec_call = Engine.spec_call


def spec_call(self, name, e, st):
    if name == "filerows":
        f = self.ev(e.args[0], st, True)
        return _heap(st, f)["rows"]
    if name == "numtext":
        return NUMTEXT(to_real(self.ev(e.args[0], st, True)))
    if name == "emptystr":
        return EMPTY
    return _prev_spec_call(self, name, e, st)


Engine.spec_call = spec_call
