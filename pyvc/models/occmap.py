"""Model of the occurrence table of SoftAlignment.check (trusted base of C17):

    occ = SortedDict({a: SortedDict({u: 0 for u in units}) for a, units in X._annotations.items()})
          a two-level map whose keys are exactly the (annotator, unit) pairs of X's annotation map, every value 0
    occ[a][u] += 1     raises KeyError iff (a, u) is not a key; otherwise that value grows by one, nothing else changes
    for a, inner in occ.items(): for u, n in inner.items():   the pairs in the container order of X's map (annotators ascending, each
          annotator's units ascending) with their current values
The expression is recognised structurally; the table is a value (rebinding the name, S3).  The enumeration facts of X's map are those
of the sortedcontainers model (X must not change while the table is in use: it is read, never written, by the modelled code)."""
import ast
import z3
from .. import vals as V
from ..vals import Val, Tup, EngineError, I, R, Ref
from ..engine import Engine, Outcome, SeqIter, is_int, to_real
from ..heap import _heap, UnitV, UnitDT, deopt

TRUSTED = ("model:occurrence table SortedDict({a: SortedDict({u: 0 for u in us}) for a, us in X._annotations.items()}): keys = the pairs "
           "of X; occ[a][u] += 1 raises KeyError iff (a, u) is not a key; items() in X's container order")


class OccMap(Val):
    def __init__(self, src, cnt):
        self.src = src          # snapshot of the MapOfSets fields (keys, U, cnt, useq, uidx, nkeys, kseq, kidx)
        self.cnt = cnt          # Array(Real, Array(Unit, Int))

    def comps(self):
        return [self.cnt]

    def rebuild(self, cs):
        return OccMap(self.src, cs[0])

    def static(self):
        return ("occmap", id(self.src))


class OccInner(Val):
    def __init__(self, occ, key):
        self.occ, self.key = occ, key

    def comps(self):
        return [self.key]

    def rebuild(self, cs):
        return OccInner(self.occ, cs[0])

    def static(self):
        return ("occinner",)


def is_table_expr(e):
    try:
        if not (isinstance(e, ast.Call) and ast.unparse(e.func) == "SortedDict" and len(e.args) == 1 and isinstance(e.args[0], ast.DictComp)):
            return None
        dc = e.args[0]
        g = dc.generators[0]
        if len(dc.generators) != 1 or g.ifs or not (isinstance(g.target, ast.Tuple) and len(g.target.elts) == 2):
            return None
        a, us = g.target.elts
        it = g.iter
        if not (isinstance(it, ast.Call) and isinstance(it.func, ast.Attribute) and it.func.attr == "items" and not it.args
                and isinstance(it.func.value, ast.Attribute) and it.func.value.attr == "_annotations"):
            return None
        if not (isinstance(dc.key, ast.Name) and dc.key.id == a.id):
            return None
        v = dc.value
        if not (isinstance(v, ast.Call) and ast.unparse(v.func) == "SortedDict" and len(v.args) == 1 and isinstance(v.args[0], ast.DictComp)):
            return None
        dc2 = v.args[0]
        g2 = dc2.generators[0]
        if len(dc2.generators) != 1 or g2.ifs or not isinstance(g2.target, ast.Name) or not isinstance(g2.iter, ast.Name) or g2.iter.id != us.id:
            return None
        if not (isinstance(dc2.key, ast.Name) and dc2.key.id == g2.target.id and isinstance(dc2.value, ast.Constant) and dc2.value.value == 0
                and not isinstance(dc2.value.value, bool)):
            return None
        return it.func.value       # the expression X._annotations
    except (AttributeError, IndexError):
        return None


def calls(self, e, st, spec):
    src = is_table_expr(e)
    if src is None or spec:
        return NotImplemented
    base = deopt(self, self.ev(src.value, st, spec), st, False, e)       # X (an Optional[Continuum] must not be None here: obligation)
    if not isinstance(base, Ref):
        raise EngineError("occurrence table over something else than a continuum's annotation map")
    m = _heap(st, base)["_annotations"]
    if not (isinstance(m, Ref) and _heap(st, m)["$cls"] == "MapOfSets"):
        raise EngineError("occurrence table over something else than an annotation map")
    self.used_models.add(TRUSTED)
    snap = {k: v for k, v in _heap(st, m).items() if k != "$cls"}
    return OccMap(snap, z3.K(R, z3.K(UnitDT, z3.IntVal(0))))


Engine.MODELS.insert(0, calls)


def st_aug(self, s, st):
    """occ[a][u] += k"""
    if not (isinstance(s, ast.AugAssign) and isinstance(s.op, ast.Add) and isinstance(s.target, ast.Subscript)
            and isinstance(s.target.value, ast.Subscript) and isinstance(s.target.value.value, ast.Name)):
        return NotImplemented
    name = s.target.value.value.id
    occ = st.env.get(name)
    if not isinstance(occ, OccMap):
        return NotImplemented
    a = self.ev(s.target.value.slice, st, False)
    u = self.ev(s.target.slice, st, False)
    k = self.ev(s.value, st, False)
    if isinstance(u, V.Opt) and isinstance(u.val, UnitV):
        # narrowed by the enclosing `if unit is not None` (the obligation makes sure of it)
        self.oblige(st, z3.Not(u.isnone), f"unit-not-None#{len(self.obls)}", "exception-freedom", s.lineno, "the unit used as a key is not None")
        u = u.val
    if not (isinstance(u, UnitV) and is_int(k)):
        raise EngineError("occurrence table: key / increment outside the model")
    a = to_real(a)
    present = z3.And(occ.src["keys"][a], occ.src["U"][a][u.term])
    bad = st.clone()
    bad.assume(z3.Not(present))
    st.assume(present)
    new = z3.Store(occ.cnt, a, z3.Store(occ.cnt[a], u.term, occ.cnt[a][u.term] + k))
    st.env[name] = OccMap(occ.src, new)
    self.used_models.add(TRUSTED)
    return [Outcome("raise", bad, exc="KeyError", node=s), Outcome("normal", st)]


Engine.STMT_MODELS.append(st_aug)


def iter_model(self, node, st):
    if not (isinstance(node, ast.Call) and isinstance(node.func, ast.Attribute) and node.func.attr == "items" and not node.args
            and isinstance(node.func.value, ast.Name)):
        return NotImplemented
    v = st.env.get(node.func.value.id)
    if isinstance(v, OccMap):
        s = v.src
        self.used_models.add(TRUSTED)
        return SeqIter(s["nkeys"], lambda k: Tup([s["kseq"][k], OccInner(v, s["kseq"][k])]))
    if isinstance(v, OccInner):
        s = v.occ.src
        a = v.key
        self.used_models.add(TRUSTED)
        return SeqIter(s["cnt"][a], lambda j: Tup([UnitV(s["useq"][a][j]), v.occ.cnt[a][s["useq"][a][j]]]))
    return NotImplemented


Engine.ITER_MODELS.append(iter_model)

_prev_spec_call = Engine.spec_call


def spec_call(self, name, e, st):
    if name == "occ":
        # occ(table, a, u): the current value stored under (a, u)
        t = self.ev(e.args[0], st, True)
        if not isinstance(t, OccMap):
            raise EngineError("occ(table, annotator, unit)")
        a = to_real(self.ev(e.args[1], st, True))
        u = self.ev(e.args[2], st, True)
        return t.cnt[a][u.term if isinstance(u, UnitV) else u]
    return _prev_spec_call(self, name, e, st)


Engine.spec_call = spec_call
