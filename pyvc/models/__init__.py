"""Library models (the trusted base, DESIGN.md 1.8).  Importing a module registers its models on the Engine."""
