"""Model of a SortedDict from strings to numbers held in a LOCAL variable (Continuum.category_weights; trusted base of C19):
a sorted set of string keys (the same enumeration model as SortedSet) plus a value per key.
   d = SortedDict()          (the contract declares the local: locals={"d": ObjT("DictStrNum")})      the empty map
   k in d / k not in d       membership of the key            d[k] = v     adds the key if absent, sets its value
   d[k]                      the value (KeyError iff absent)  d.keys()     the keys in ascending order (a live view of the key set)
   d.values()                the values in the order of the keys (a snapshot list)
Keys must not be None (an obligation where a key is an Optional label)."""
import ast
import z3
from .. import vals as V
from ..vals import SList, Lifted, Ref, Opt, EngineError, I, R
from ..engine import Engine, to_real, is_z3
from .. import heap as H
from ..heap import alloc, _heap, empty_set, fresh_set, wf_set, _c

CLS = "DictStrNum"

TRUSTED = ("model:sortedcontainers SortedDict str -> number (local): sorted key set + value per key; `in`, d[k] = v, d[k] (KeyError iff "
           "absent), keys() ascending, values() in key order")


def is_dict(st, v):
    return isinstance(v, Ref) and _heap(st, v).get("$cls") == CLS


def _alloc_symbolic(st, tag):
    o = fresh_set(tag, R)
    o["$cls"] = CLS
    o["val"] = _c(f"{tag}.val", z3.ArraySort(R, R))
    return alloc(st, o)


H.ALLOCATORS[CLS] = _alloc_symbolic
_prev_set_of = H.set_of


def set_of(self, st, recv):
    """the key set of a sorted map, for the specification functions members / size / seqof"""
    if is_dict(st, recv):
        o = _heap(st, recv)
        return {"mem": o["mem"], "n": o["n"], "seq": o["seq"], "idx": o["idx"], "elem": R}
    return _prev_set_of(self, st, recv)


H.set_of = set_of


def key_of(self, k, st, node):
    if isinstance(k, Opt):
        self.oblige(st, z3.Not(k.isnone), f"key-not-None@{getattr(node, 'lineno', 0)}:{getattr(node, 'col_offset', 0)}", "exception-freedom",
                    getattr(node, "lineno", None), "None is never used as a key of the sorted map (it cannot be ordered with strings)")
        k = k.val
    return to_real(k)


def create(self, e, st, spec):
    if spec or ast.unparse(e.func) != "SortedDict" or e.args or e.keywords:
        return NotImplemented
    if not any(getattr(t, "cls", None) == CLS for t in self.c.locals.values()):
        return NotImplemented
    o = empty_set(R)
    o["$cls"] = CLS
    o["val"] = _c(V.fresh_name("dictval"), z3.ArraySort(R, R))
    st.assume(*wf_set(o["mem"], o["n"], o["seq"], o["idx"]))
    self.used_models.add(TRUSTED)
    return alloc(st, o)


Engine.MODELS.insert(0, create)

_prev_contains = Engine.contains


def contains(self, container, item, st, spec, node):
    if is_dict(st, container):
        self.used_models.add(TRUSTED)
        return _heap(st, container)["mem"][key_of(self, item, st, node) if not spec else to_real(item.val if isinstance(item, Opt) else item)]
    return _prev_contains(self, container, item, st, spec, node)


Engine.contains = contains

_prev_store_sub = Engine.store_sub


def store_sub(self, base, t, v, st):
    if is_dict(st, base):
        o = _heap(st, base)
        k = key_of(self, self.ev(self.index_list(t)[0], st, False), st, t)
        mem, n = z3.Store(o["mem"], k, True), o["n"] + z3.If(o["mem"][k], 0, 1)
        seq = _c(V.fresh_name("dseq"), z3.ArraySort(I, R))
        idx = _c(V.fresh_name("didx"), z3.ArraySort(R, I))
        o["val"] = z3.Store(o["val"], k, to_real(v))
        o["mem"], o["n"], o["seq"], o["idx"] = mem, n, seq, idx
        st.assume(*wf_set(mem, n, seq, idx))
        self.used_models.add(TRUSTED)
        return None
    return _prev_store_sub(self, base, t, v, st)


Engine.store_sub = store_sub

_prev_sub = Engine.subscript_other


def subscript_other(self, base, e, st, spec):
    if is_dict(st, base):
        o = _heap(st, base)
        k = key_of(self, self.ev(self.index_list(e)[0], st, spec), st, e)
        if not spec:
            bad = st.clone()
            bad.assume(z3.Not(o["mem"][k]))
            self.pending_raises.append(("KeyError", bad))
            st.assume(o["mem"][k])
        self.used_models.add(TRUSTED)
        return o["val"][k]
    return _prev_sub(self, base, e, st, spec)


Engine.subscript_other = subscript_other


def methods(self, e, st, spec):
    f = e.func
    if not (isinstance(f, ast.Attribute) and f.attr in ("keys", "values") and not e.args and not e.keywords):
        return NotImplemented
    try:
        recv = self.ev(f.value, st, spec)
    except EngineError:
        return NotImplemented
    if not is_dict(st, recv):
        return NotImplemented
    o = _heap(st, recv)
    self.used_models.add(TRUSTED)
    if f.attr == "keys":
        # the keys in ascending order, as a sorted set by value (keys are not added or removed while such a view is in use:
        # Python raises RuntimeError if they are)
        st.assume(*wf_set(o["mem"], o["n"], o["seq"], o["idx"]))
        return alloc(st, {"$cls": "SetStr", "mem": o["mem"], "n": o["n"], "seq": o["seq"], "idx": o["idx"]})
    k = V.fresh("k", I)
    st.assume(*wf_set(o["mem"], o["n"], o["seq"], o["idx"]))
    return SList(o["n"], Lifted(V.fresh("v", R), [z3.Lambda([k], o["val"][o["seq"][k]])]))


Engine.MODELS.insert(0, methods)

_prev_spec_call = Engine.spec_call


def spec_call(self, name, e, st):
    if name == "valueof":
        m = self.ev(e.args[0], st, True)
        if isinstance(m, Opt):
            m = m.val
        return _heap(st, m)["val"][to_real(self.ev(e.args[1], st, True))]
    return _prev_spec_call(self, name, e, st)


Engine.spec_call = spec_call
