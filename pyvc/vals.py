"""Symbolic values.  Scalars are plain z3 terms (Int / Real / Bool); everything else is a small Python
object made of z3 *components*, so that havoc, if-merge, element-of-list and store-into-list are uniform:
`comps(v)` lists the z3 terms a value is made of and `rebuild(v, terms)` builds a value of the same shape.

Semantics assumed (DESIGN.md 1.7): S1 mathematical integers (+ range obligations on narrow stores),
S2 floats are reals, S3 arrays / lists by value."""
import itertools
import z3

I, R, B = z3.IntSort(), z3.RealSort(), z3.BoolSort()
_n = itertools.count()


_last = [0]


def fresh_name(base):
    _last[0] = next(_n)
    return f"{base}!{_last[0]}"


def fresh_mark():
    """all fresh symbols created from now on have an index greater than the returned mark"""
    return _last[0]


def fresh(base, sort):
    return z3.Const(fresh_name(base), sort)


class EngineError(Exception):
    """Construct outside the supported subset: the function is not within the verifier's reach."""


class NoneV:
    def __repr__(self):
        return "None"


NONE = NoneV()

INT_RANGES = {"i8": (-128, 127), "i16": (-32768, 32767), "i32": (-2 ** 31, 2 ** 31 - 1),
              "i64": None, "int": None}


def is_int_dtype(dt):
    return dt in INT_RANGES or dt == "bool"


def elem_sort(dtype):
    return I if is_int_dtype(dtype) else R


def nested_sort(elem, rank):
    s = elem
    for _ in range(rank):
        s = z3.ArraySort(I, s)
    return s


class Val:
    def comps(self):
        raise NotImplementedError

    def rebuild(self, comps):
        raise NotImplementedError


def comps(v):
    if isinstance(v, z3.ExprRef):
        return [v]
    if isinstance(v, Val):
        return v.comps()
    if v is None or isinstance(v, (NoneV, str, Func, PyConst)):
        return []
    raise EngineError(f"value without components: {v!r}")


def rebuild(v, cs):
    if isinstance(v, z3.ExprRef):
        return cs[0]
    if isinstance(v, Val):
        return v.rebuild(cs)
    return v


def fresh_like(v, base="h"):
    return rebuild(v, [fresh(base, c.sort()) for c in comps(v)])


def same_shape(a, b):
    if isinstance(a, z3.ExprRef) and isinstance(b, z3.ExprRef):
        return a.sort() == b.sort() or {a.sort(), b.sort()} == {I, R}
    if type(a) is not type(b):
        return False
    ca, cb = comps(a), comps(b)
    return len(ca) == len(cb) and all(x.sort() == y.sort() for x, y in zip(ca, cb)) and _static_eq(a, b)


def _static_eq(a, b):
    if isinstance(a, Val):
        return a.static() == b.static()
    return a is b or a == b


def coerce_pair(a, b):
    if isinstance(a, z3.ExprRef) and isinstance(b, z3.ExprRef):
        if a.sort() == I and b.sort() == R:
            return z3.ToReal(a), b
        if a.sort() == R and b.sort() == I:
            return a, z3.ToReal(b)
    return a, b


def ite(c, a, b):
    """Merge two values of the same shape."""
    if isinstance(a, z3.ExprRef) and isinstance(b, z3.ExprRef):
        a, b = coerce_pair(a, b)
        return z3.If(c, a, b)
    if a is b:
        return a
    if not same_shape(a, b):
        raise EngineError(f"cannot merge values of different shape: {a!r} / {b!r}")
    return rebuild(a, [z3.If(c, x, y) for x, y in zip(comps(a), comps(b))])


class PyConst(Val):
    """A Python-level constant the engine keeps concrete (strings used as dict keys, dtype names, ...)."""

    def __init__(self, value):
        self.value = value

    def comps(self):
        return []

    def rebuild(self, cs):
        return self

    def static(self):
        return ("const", self.value)

    def __repr__(self):
        return f"PyConst({self.value!r})"


class Arr(Val):
    """numpy ndarray by value: nested z3 array + dimensions + dtype."""

    def __init__(self, data, dims, dtype):
        self.data, self.dims, self.dtype = data, list(dims), dtype

    @property
    def rank(self):
        return len(self.dims)

    def comps(self):
        return [self.data] + self.dims

    def rebuild(self, cs):
        return Arr(cs[0], cs[1:], self.dtype)

    def static(self):
        return ("arr", self.dtype, self.rank)

    def __repr__(self):
        return f"Arr<{self.dtype},{self.rank}>({self.data}, {self.dims})"

    @staticmethod
    def fresh(base, dtype, rank):
        return Arr(fresh(base, nested_sort(elem_sort(dtype), rank)), [fresh(base + "_d", I) for _ in range(rank)], dtype)

    def at(self, idxs):
        z = self.data
        for i in idxs:
            z = z[i]
        if len(idxs) == self.rank:
            return z
        return Arr(z, self.dims[len(idxs):], self.dtype)

    def store(self, idxs, v):
        """functional update of element / sub-array at idxs"""
        def upd(z, idxs):
            if not idxs:
                return v.data if isinstance(v, Arr) else v
            return z3.Store(z, idxs[0], upd(z[idxs[0]], idxs[1:]))
        if isinstance(v, z3.ExprRef) and elem_sort(self.dtype) == R and v.sort() == I:
            v = z3.ToReal(v)
        return Arr(upd(self.data, list(idxs)), self.dims, self.dtype)


class Lifted(Val):
    """A family of values of one shape indexed by an integer (the element store of a list)."""

    def __init__(self, template, cs):
        self.template, self.cs = template, list(cs)

    def comps(self):
        return self.cs

    def rebuild(self, cs):
        return Lifted(self.template, cs)

    def static(self):
        return ("lifted", self.template.static() if isinstance(self.template, Val) else str(self.template.sort()))

    def select(self, i):
        return rebuild(self.template, [c[i] for c in self.cs])

    def store(self, i, v):
        vc = comps(v)
        if len(vc) != len(self.cs):
            raise EngineError("store of a value of another shape into a list")
        new = []
        for c, x in zip(self.cs, vc):
            if c.sort().range() == R and x.sort() == I:
                x = z3.ToReal(x)
            new.append(z3.Store(c, i, x))
        return Lifted(self.template, new)

    @staticmethod
    def fresh(template, base="l"):
        return Lifted(template, [fresh(base, z3.ArraySort(I, c.sort())) for c in comps(template)])


class SList(Val):
    """Homogeneous Python list / numba typed list of symbolic length, by value."""

    def __init__(self, length, elems):
        self.length, self.elems = length, elems   # elems: Lifted

    def comps(self):
        return [self.length] + self.elems.comps()

    def rebuild(self, cs):
        return SList(cs[0], self.elems.rebuild(cs[1:]))

    def static(self):
        return ("list", self.elems.static())

    def __repr__(self):
        return f"SList(len={self.length})"

    @staticmethod
    def fresh(template, base="lst"):
        return SList(fresh(base + "_len", I), Lifted.fresh(template, base))

    @staticmethod
    def of(values, template=None):
        """a list with concrete length from Python-level values (all of one shape)"""
        if template is None:
            if not values:
                raise EngineError("empty list literal needs an element template")
            template = values[0]
        el = Lifted.fresh(template, "lit")
        for k, v in enumerate(values):
            el = el.store(z3.IntVal(k), v)
        return SList(z3.IntVal(len(values)), el)

    def get(self, i):
        return self.elems.select(i)

    def set(self, i, v):
        return SList(self.length, self.elems.store(i, v))

    def append(self, v):
        return SList(self.length + 1, self.elems.store(self.length, v))


class Tup(Val):
    def __init__(self, items):
        self.items = list(items)

    def comps(self):
        return [c for it in self.items for c in comps(it)]

    def rebuild(self, cs):
        out, k = [], 0
        for it in self.items:
            m = len(comps(it))
            out.append(rebuild(it, cs[k:k + m]))
            k += m
        return Tup(out)

    def static(self):
        return ("tup", tuple(it.static() if isinstance(it, Val) else str(getattr(it, "sort", lambda: it)()) for it in self.items))

    def __repr__(self):
        return f"Tup{tuple(self.items)!r}"


class Rec(Val):
    """A record by value (immutable dataclass instances, small helper objects)."""

    def __init__(self, cls, fields):
        self.cls, self.fields = cls, dict(fields)

    def comps(self):
        return [c for k in self.fields for c in comps(self.fields[k])]

    def rebuild(self, cs):
        out, k = {}, 0
        for name, it in self.fields.items():
            m = len(comps(it))
            out[name] = rebuild(it, cs[k:k + m])
            k += m
        return Rec(self.cls, out)

    def static(self):
        return ("rec", self.cls, tuple((k, v.static() if isinstance(v, Val) else str(getattr(v, "sort", lambda: v)()))
                                       for k, v in self.fields.items()))

    def with_field(self, name, v):
        f = dict(self.fields)
        f[name] = v
        return Rec(self.cls, f)

    def __repr__(self):
        return f"Rec<{self.cls}>({self.fields})"


class Opt(Val):
    """Optional[T]: (is_none, payload).  Payloads are normalised in equalities (engine.eq)."""

    def __init__(self, isnone, val, empty_text=False):
        self.isnone, self.val = isnone, val
        self.empty_text = empty_text      # a library model's encoding of a text that may be empty: "none" stands for '' (falsy), never for None

    def comps(self):
        return [self.isnone] + comps(self.val)

    def rebuild(self, cs):
        return Opt(cs[0], rebuild(self.val, cs[1:]), self.empty_text)

    def static(self):
        return ("opt", self.val.static() if isinstance(self.val, Val) else str(self.val.sort()))

    def __repr__(self):
        return f"Opt({self.isnone}, {self.val})"


class Func(Val):
    """A pure function value (d_mat parameter, closure under contract): uninterpreted z3 function."""

    def __init__(self, decl, contract=None, name=None):
        self.decl, self.contract, self.name = decl, contract, name

    def comps(self):
        return []

    def rebuild(self, cs):
        return self

    def static(self):
        return ("func", self.name)


class Ref(Val):
    """Reference to a heap object (concrete identity)."""

    def __init__(self, oid):
        self.oid = oid

    def comps(self):
        return []

    def rebuild(self, cs):
        return self

    def static(self):
        return ("ref", self.oid)

    def __repr__(self):
        return f"Ref({self.oid})"
