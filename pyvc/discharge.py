"""Discharge obligations: z3 5.1 (python API, worker processes) -> /usr/bin/z3 4.8.12 (SMT-LIB) -> cvc5 (SMT-LIB).

Verdicts: discharged (some solver: unsat) / refuted (some solver: sat, model kept) / undecided.
`unknown`, timeouts and solver crashes are never mapped to refuted."""
import multiprocessing as mp
import os
import subprocess
import tempfile
import time

JOBS = int(os.environ.get("VERIF_JOBS", "16"))


def _solve_z3py(args):
    smt2, timeout_ms, want_model = args
    import z3
    t = time.time()
    try:
        s = z3.Solver()
        s.set("timeout", timeout_ms)
        s.from_string(smt2)
        r = s.check()
        model = ""
        if r == z3.sat and want_model:
            try:
                model = str(s.model())[:6000]
            except Exception as e:           # noqa
                model = f"<model unavailable: {e}>"
        reason = s.reason_unknown() if r == z3.unknown else ""
        return str(r), time.time() - t, model, reason
    except Exception as e:   # noqa
        return "error", time.time() - t, "", repr(e)


def _run_cli(cmd, smt2, timeout_s):
    t = time.time()
    with tempfile.NamedTemporaryFile("w", suffix=".smt2", delete=False) as f:
        f.write(smt2)
        path = f.name
    try:
        p = subprocess.run(cmd + [path], capture_output=True, text=True, timeout=timeout_s + 5)
        out = p.stdout.strip().split("\n")[0] if p.stdout.strip() else "error"
        if out not in ("sat", "unsat", "unknown"):
            out = "unknown" if "timeout" in p.stdout + p.stderr else "error"
        return out, time.time() - t, "", (p.stderr or "")[:300]
    except subprocess.TimeoutExpired:
        return "unknown", time.time() - t, "", "timeout"
    finally:
        os.unlink(path)


def _solve_z3cli(args):
    smt2, timeout_ms, _ = args
    return _run_cli(["/usr/bin/z3", f"-T:{max(1, timeout_ms // 1000)}", "-smt2"], "(set-logic ALL)\n" + smt2,
                    timeout_ms // 1000)


def _solve_z3newcli(args):
    """z3 5.1 through its command-line front end (the z3-solver wheel's `z3-new`): with (set-logic ALL) it configures itself differently
    from the Python API's Solver() and decides several heavily quantified VCs in seconds that the API rung leaves open"""
    smt2, timeout_ms, _ = args
    import shutil
    exe = shutil.which("z3-new")
    if exe is None:
        return "unknown", 0.0, "", "z3-new not on PATH"
    return _run_cli([exe, f"-T:{max(1, timeout_ms // 1000)}", "-smt2"], "(set-logic ALL)\n" + smt2, timeout_ms // 1000)


def _solve_cvc5(args):
    smt2, timeout_ms, _ = args
    return _run_cli(["/usr/bin/cvc5", f"--tlimit={timeout_ms}", "--lang=smt2"], "(set-logic ALL)\n" + smt2,
                    timeout_ms // 1000)


_pool = None


def pool():
    global _pool
    if _pool is None:
        _pool = mp.get_context("fork").Pool(JOBS)
    return _pool


def pmap(fn, argslist, tmo_ms):
    """pool().map with a watchdog: a solver call that ignores its own time limit (seen once with the in-process z3 5.1: a worker
    spinning for half an hour) must not hang the check.  Every task gets the time a full queue of such tasks could legitimately need;
    what is still missing then is answered `unknown` (never a verdict) and the pool is replaced."""
    if not argslist:
        return []
    per = tmo_ms / 1000.0 + 10.0
    deadline = time.time() + (len(argslist) // JOBS + 2) * per * 1.5 + 30.0
    handles = [pool().apply_async(fn, (a,)) for a in argslist]
    out, lost = [], False
    for h in handles:
        try:
            out.append(h.get(timeout=max(0.1, deadline - time.time())))
        except mp.TimeoutError:
            out.append(("unknown", per, "", "watchdog: the solver process did not answer within its hard limit"))
            lost = True
        except Exception as e:   # noqa   (a worker died)
            out.append(("error", 0.0, "", repr(e)))
            lost = True
    if lost:
        close()
    return out


def close():
    global _pool
    if _pool is not None:
        _pool.terminate()
        _pool = None


def discharge(obls, timeout_ms=60000, second_solver=False, quick_ms=4000):
    """Sets .verdict/.backend/.seconds/.detail on every obligation.

    Ladder (every step is sound: dropping hypotheses only weakens what is assumed, so `unsat` on a subset is a proof;
    `sat` is only accepted as a refutation when ALL hypotheses were given):
      1. z3 5.1, global axioms + most recent facts, short budget      2. z3 5.1, + function-entry block, short budget
      3. z3 5.1, all hypotheses, short budget                         4. z3 4.8.12 (CLI), all hypotheses
      5. z3 5.1, all hypotheses, full budget                          6. cvc5, all hypotheses"""
    todo = [o for o in obls]
    texts = {}

    def text(o, variant):
        key = (id(o), variant)
        if key not in texts:
            texts[key] = o.smt2(variant)
        return texts[key]

    ok = []
    for o in todo:
        try:
            text(o, "all")
            ok.append(o)
        except Exception as e:   # noqa
            o.verdict, o.backend, o.detail = "undecided", "none", f"serialisation failed: {e!r}"
    todo = ok

    def run(fn, backend, items, tmo, variant="all"):
        if not items:
            return []
        res = pmap(fn, [(text(o, variant), tmo, variant == "all") for o in items], tmo)
        rest = []
        for o, (r, secs, model, reason) in zip(items, res):
            o.seconds += secs
            if r == "unsat":
                o.verdict, o.backend = "discharged", backend
                o.hyps_used = variant
            elif r == "sat" and variant == "all":
                o.verdict, o.backend, o.detail = "refuted", backend, model
            else:
                o.detail = f"{backend}: {r} {reason}".strip()
                rest.append(o)
        return rest

    # 0. the goal is literally among the hypotheses (modulo bound-variable names): wrapper functions re-stating a callee's clause
    left = []
    for o in todo:
        if getattr(o, "syntactic", None) and o.syntactic():
            o.verdict, o.backend, o.hyps_used = "discharged", "prepass", "all"   # the goal is among the hypotheses (alpha-equivalence, simplifier, modus ponens)
        else:
            left.append(o)
    todo = left
    # performance hint only (never a verdict): which ladder step discharged an obligation of this name last time
    hints = _load_hints()
    solvers = {"z3-5.1.0": _solve_z3py, "z3-4.8.12": _solve_z3cli, "cvc5-1.0.3": _solve_cvc5, "z3-5.1.0-cli": _solve_z3newcli}
    groups = {}
    for o in todo:
        h = hints.get(o.name)
        if h and h[0] in solvers and h != ["z3-5.1.0", "recent"]:
            groups.setdefault(tuple(h), []).append(o)
    hinted = set()
    missed = []
    for (backend, variant), items in groups.items():
        left = run(solvers[backend], backend, items, max(quick_ms * 2, min(timeout_ms, 30000)), variant)   # the rung that worked last time: generous
        hinted |= {id(o) for o in items if o not in left}
        missed += left
    if missed:
        # several paths share an obligation name, so a remembered rung can be the wrong one for some of them: those get the strongest
        # single rung (z3 5.1 command line, every hypothesis) at once instead of walking the whole ladder first
        left = run(_solve_z3newcli, "z3-5.1.0-cli", missed, max(quick_ms * 2, min(timeout_ms, 20000)), "all")
        hinted |= {id(o) for o in missed if o not in left}
    todo = [o for o in todo if id(o) not in hinted]
    rest = run(_solve_z3py, "z3-5.1.0", todo, quick_ms, "recent")
    rest = run(_solve_z3cli, "z3-4.8.12", rest, quick_ms, "all")
    for variant in ("relevant:2", "recent:20", "recent:50", "entry+recent"):
        rest = run(_solve_z3py, "z3-5.1.0", rest, quick_ms, variant)
        rest = run(_solve_z3cli, "z3-4.8.12", rest, quick_ms, variant)
    rest = run(_solve_z3cli, "z3-4.8.12", rest, quick_ms, "recent")
    rest = run(_solve_z3py, "z3-5.1.0", rest, quick_ms, "all")
    rest = run(_solve_z3newcli, "z3-5.1.0-cli", rest, max(quick_ms * 2, min(timeout_ms, 15000)), "all")
    rest = run(_solve_z3cli, "z3-4.8.12", rest, min(timeout_ms, 30000), "all")
    if timeout_ms > quick_ms:
        rest = run(_solve_z3py, "z3-5.1.0", rest, timeout_ms, "all")
    rest = run(_solve_cvc5, "cvc5-1.0.3", rest, min(timeout_ms, 20000), "all")
    # second chance (robustness on a loaded machine, never a different verdict rule): what is still open is retried with four times
    # the budget on the rung remembered for it (or recent / relevant / all), on both z3 versions
    if rest and not os.environ.get("VERIF_NO_SECOND_CHANCE"):
        for variant_of in (lambda o: (hints.get(o.name) or [None, "relevant:2"])[1], lambda o: "recent", lambda o: "relevant:2", lambda o: "all"):
            for fn, backend in ((_solve_z3py, "z3-5.1.0"), (_solve_z3cli, "z3-4.8.12")):
                if not rest:
                    break
                byv = {}
                for o in rest:
                    byv.setdefault(variant_of(o), []).append(o)
                rest = []
                for variant, items in byv.items():
                    rest += run(fn, backend, items, max(quick_ms * 4, min(2 * timeout_ms, 120000)), variant)
    for o in rest:
        o.verdict = "undecided"
        o.backend = "none"
    if second_solver:
        # independent re-check of everything the first solver discharged (thorough tier), same hypothesis selection
        first = [o for o in obls if o.verdict == "discharged" and o.backend in ("z3-5.1.0", "z3-5.1.0-cli")]
        res = pmap(_solve_z3cli, [(text(o, getattr(o, "hyps_used", "all")), 30000, False) for o in first], 30000)
        for o, (r, secs, _, _) in zip(first, res):
            o.second = r
            if r == "sat" and getattr(o, "hyps_used", "all") == "all":
                o.verdict, o.detail = "solver-disagreement", f"{o.backend} unsat, z3-4.8.12 sat"
    return obls


HINTS_FILE = os.path.join(os.path.dirname(os.path.abspath(__file__)), "ladder_hints.json")


def _load_hints():
    import json
    try:
        return json.load(open(HINTS_FILE))
    except Exception:   # noqa
        return {}


def save_hints(obls):
    """development tool (tools/update_ladder_hints.py): remember the successful ladder step per obligation name"""
    import json
    h = _load_hints()
    for o in obls:
        if o.verdict == "discharged":
            h[o.name] = [o.backend, getattr(o, "hyps_used", "all")]
    json.dump(h, open(HINTS_FILE, "w"), indent=0, sort_keys=True)


def check_sat(formulas, timeout_ms=3000):
    """for vacuity checks: returns 'sat' / 'unsat' / 'unknown' for each list of hypotheses"""
    import z3
    texts = []
    for hyps in formulas:
        s = z3.Solver()
        s.add(*hyps)
        texts.append(s.to_smt2())
    res = pmap(_solve_z3py, [(t, timeout_ms, False) for t in texts], timeout_ms)
    return [r[0] for r in res]
