"""Discharge obligations: z3 5.1 (python API, worker processes) -> /usr/bin/z3 4.8.12 (SMT-LIB) -> cvc5 (SMT-LIB).

Verdicts: discharged (some solver: unsat) / refuted (some solver: sat, model kept) / undecided.
`unknown`, timeouts and solver crashes are never mapped to refuted."""
import multiprocessing as mp
import os
import subprocess
import tempfile
import time

JOBS = int(os.environ.get("VERIF_JOBS", "16"))


def _solve_z3py(args):
    smt2, timeout_ms, want_model = args
    import z3
    t = time.time()
    try:
        s = z3.Solver()
        s.set("timeout", timeout_ms)
        s.from_string(smt2)
        r = s.check()
        model = ""
        if r == z3.sat and want_model:
            try:
                model = str(s.model())[:6000]
            except Exception as e:           # noqa
                model = f"<model unavailable: {e}>"
        reason = s.reason_unknown() if r == z3.unknown else ""
        return str(r), time.time() - t, model, reason
    except Exception as e:   # noqa
        return "error", time.time() - t, "", repr(e)


def _run_cli(cmd, smt2, timeout_s):
    t = time.time()
    with tempfile.NamedTemporaryFile("w", suffix=".smt2", delete=False) as f:
        f.write(smt2)
        path = f.name
    try:
        p = subprocess.run(cmd + [path], capture_output=True, text=True, timeout=timeout_s + 5)
        out = p.stdout.strip().split("\n")[0] if p.stdout.strip() else "error"
        if out not in ("sat", "unsat", "unknown"):
            out = "unknown" if "timeout" in p.stdout + p.stderr else "error"
        return out, time.time() - t, "", (p.stderr or "")[:300]
    except subprocess.TimeoutExpired:
        return "unknown", time.time() - t, "", "timeout"
    finally:
        os.unlink(path)


def _solve_z3cli(args):
    smt2, timeout_ms, _ = args
    return _run_cli(["/usr/bin/z3", f"-T:{max(1, timeout_ms // 1000)}", "-smt2"], "(set-logic ALL)\n" + smt2,
                    timeout_ms // 1000)


def _solve_cvc5(args):
    smt2, timeout_ms, _ = args
    return _run_cli(["/usr/bin/cvc5", f"--tlimit={timeout_ms}", "--lang=smt2"], "(set-logic ALL)\n" + smt2,
                    timeout_ms // 1000)


_pool = None


def pool():
    global _pool
    if _pool is None:
        _pool = mp.get_context("fork").Pool(JOBS)
    return _pool


def close():
    global _pool
    if _pool is not None:
        _pool.terminate()
        _pool = None


def discharge(obls, timeout_ms=60000, second_solver=False, quick_ms=4000):
    """Sets .verdict/.backend/.seconds/.detail on every obligation.  Two passes with z3 5.1: a short budget first
    (most VCs take milliseconds), then the full budget for the rest, then the fall-back solvers."""
    todo = list(obls)
    texts = {}
    for o in todo:
        try:
            texts[id(o)] = o.smt2()
        except Exception as e:   # noqa
            o.verdict, o.backend, o.detail = "undecided", "none", f"serialisation failed: {e!r}"
    todo = [o for o in todo if id(o) in texts]

    def run(fn, backend, items, tmo, want_model=True):
        if not items:
            return []
        res = pool().map(fn, [(texts[id(o)], tmo, want_model) for o in items], chunksize=1)
        rest = []
        for o, (r, secs, model, reason) in zip(items, res):
            o.seconds += secs
            if r == "unsat":
                o.verdict, o.backend = "discharged", backend
            elif r == "sat":
                o.verdict, o.backend, o.detail = "refuted", backend, model
            else:
                o.detail = f"{backend}: {r} {reason}".strip()
                rest.append(o)
        return rest

    rest = run(_solve_z3py, "z3-5.1.0", todo, quick_ms)
    if timeout_ms > quick_ms:
        rest = run(_solve_z3py, "z3-5.1.0", rest, timeout_ms)
    rest = run(_solve_z3cli, "z3-4.8.12", rest, min(timeout_ms, 30000))
    rest = run(_solve_cvc5, "cvc5-1.0.3", rest, min(timeout_ms, 20000))
    for o in rest:
        o.verdict = "undecided"
        o.backend = "none"
    if second_solver:
        # independent re-check of everything the first solver discharged (thorough tier)
        first = [o for o in obls if o.verdict == "discharged" and o.backend == "z3-5.1.0"]
        res = pool().map(_solve_z3cli, [(texts[id(o)], 30000, False) for o in first], chunksize=1)
        for o, (r, secs, _, _) in zip(first, res):
            o.second = r
            if r == "sat":
                o.verdict, o.detail = "solver-disagreement", "z3-5.1.0 unsat, z3-4.8.12 sat"
    return obls


def check_sat(formulas, timeout_ms=3000):
    """for vacuity checks: returns 'sat' / 'unsat' / 'unknown' for each list of hypotheses"""
    import z3
    texts = []
    for hyps in formulas:
        s = z3.Solver()
        s.add(*hyps)
        texts.append(s.to_smt2())
    res = pool().map(_solve_z3py, [(t, timeout_ms, False) for t in texts], chunksize=1)
    return [r[0] for r in res]
