"""Locate the functions under contract in the repository's *current* source, through `ast` only.

The verified text is the text that runs: the FunctionDef node is handed to the VC generator unmodified.
Nothing of the repository is imported here.  What is dropped is listed in DESIGN.md section 1.4
(decorators are read, not executed; docstrings; annotations)."""
import ast
import hashlib
import os

REPO = os.environ.get("VERIF_REPO", "/repo")
_cache = {}


class StaleContract(Exception):
    """A contract refers to a function / loop / statement that no longer exists."""


def module_tree(relpath):
    path = os.path.join(REPO, relpath)
    key = (path, os.path.getmtime(path), os.path.getsize(path))
    if key not in _cache:
        with open(path) as f:
            src = f.read()
        _cache[key] = (ast.parse(src), src)
    return _cache[key]


def find_function(qualname):
    """qualname = 'pygamma_agreement/x.py::Class.method' or '...::Class.compile_d_mat.<locals>.d_mat'."""
    relpath, _, dotted = qualname.partition("::")
    dotted = dotted.partition("#")[0]          # 'f#variant': a second contract of the same function (other receiver class)
    tree, _src = module_tree(relpath)
    node = tree
    for part in dotted.split("."):
        if part == "<locals>":
            continue
        found = None
        body = node.body
        part, _, role = part.partition("@")        # 'disorder@setter' selects the @disorder.setter definition
        # search direct children first, then (for <locals>) nested statements
        for child in body:
            if isinstance(child, (ast.FunctionDef, ast.ClassDef)) and child.name == part:
                if isinstance(child, ast.FunctionDef):
                    decs = [ast.unparse(d) for d in child.decorator_list]
                    is_setter = any(d.endswith(".setter") for d in decs)
                    if (role == "setter") != is_setter:
                        continue
                found = child
                break
        if found is None and isinstance(node, ast.FunctionDef):
            for child in ast.walk(node):
                if child is not node and isinstance(child, ast.FunctionDef) and child.name == part:
                    found = child
                    break
        if found is None:
            raise StaleContract(f"{qualname}: no definition named {part!r}")
        node = found
    if not isinstance(node, ast.FunctionDef):
        raise StaleContract(f"{qualname}: not a function")
    return node


def find_class(relpath, name):
    tree, _ = module_tree(relpath)
    for child in tree.body:
        if isinstance(child, ast.ClassDef) and child.name == name:
            return child
    raise StaleContract(f"{relpath}::{name}: no such class")


def fingerprint(node):
    text = ast.unparse(node)
    return hashlib.sha256(text.encode()).hexdigest()


def describe(qualname):
    node = find_function(qualname)
    relpath = qualname.partition("::")[0]
    return {"name": qualname.partition("::")[2], "file": relpath.partition("#")[0],
            "lines": [node.lineno, node.end_lineno], "sha256": fingerprint(node)}


def decorators(node):
    return [ast.unparse(d) for d in node.decorator_list]


def strip_docstring(body):
    if body and isinstance(body[0], ast.Expr) and isinstance(body[0].value, ast.Constant) \
            and isinstance(body[0].value.value, str):
        return body[1:]
    return body


def label_loops(fn):
    """Assign ordinal-path labels ('L0', 'L0.1', ...) to every loop of the function, in source order.
    Nested function definitions are not entered."""
    labels = {}

    def visit(stmts, prefix, counter):
        for s in stmts:
            if isinstance(s, (ast.For, ast.While)):
                lab = f"{prefix}{counter[0]}"
                counter[0] += 1
                labels[id(s)] = lab
                inner = [0]
                visit(s.body, lab + ".", inner)
                visit(s.orelse, prefix, counter)
            elif isinstance(s, ast.If):
                visit(s.body, prefix, counter)
                visit(s.orelse, prefix, counter)
            elif isinstance(s, ast.Try):
                visit(s.body, prefix, counter)
                for h in s.handlers:
                    visit(h.body, prefix, counter)
                visit(s.orelse, prefix, counter)
                visit(s.finalbody, prefix, counter)
            elif isinstance(s, ast.With):
                visit(s.body, prefix, counter)
    visit(fn.body, "L", [0])
    return labels


def assigned_names(stmts):
    """Names (and subscript/attribute bases that are plain names) written anywhere in stmts."""
    out = set()

    def tgt(t):
        if isinstance(t, ast.Name):
            out.add(t.id)
        elif isinstance(t, (ast.Tuple, ast.List)):
            for e in t.elts:
                tgt(e)
        elif isinstance(t, (ast.Subscript, ast.Attribute)):
            base = t
            while isinstance(base, (ast.Subscript, ast.Attribute)):
                base = base.value
            if isinstance(base, ast.Name):
                out.add(base.id)
        elif isinstance(t, ast.Starred):
            tgt(t.value)

    class V(ast.NodeVisitor):
        def visit_FunctionDef(self, n):
            out.add(n.name)

        def visit_Lambda(self, n):
            pass

        def visit_Assign(self, n):
            for t in n.targets:
                tgt(t)
            self.generic_visit(n)

        def visit_AugAssign(self, n):
            tgt(n.target)
            self.generic_visit(n)

        def visit_AnnAssign(self, n):
            if n.value is not None:
                tgt(n.target)
            self.generic_visit(n)

        def visit_For(self, n):
            tgt(n.target)
            self.generic_visit(n)

        def visit_With(self, n):
            for it in n.items:
                if it.optional_vars is not None:
                    tgt(it.optional_vars)
            self.generic_visit(n)

        def visit_Call(self, n):
            # mutating method calls on a plain name: x.append(..), x.pop(..), x.add(..), x.remove(..)
            f = n.func
            if isinstance(f, ast.Attribute) and f.attr in MUTATORS:
                base = f.value
                while isinstance(base, (ast.Subscript, ast.Attribute)):
                    base = base.value
                if isinstance(base, ast.Name):
                    out.add(base.id)
            self.generic_visit(n)

        def visit_ExceptHandler(self, n):
            if n.name:
                out.add(n.name)
            self.generic_visit(n)

    for s in stmts:
        V().visit(s)
    return out


MUTATORS = {"append", "pop", "add", "remove", "extend", "clear", "insert", "discard", "update", "sort"}


def contains_yield(stmts):
    for s in stmts:
        for n in ast.walk(s):
            if isinstance(n, (ast.Yield, ast.YieldFrom)):
                return True
    return False
