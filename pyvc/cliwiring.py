"""Wiring contract of the command-line tool (C20, DESIGN.md section 4 C20): the option table is read mechanically from the
`add_argument` calls of cli_apps.py and every obligation below is a data-flow fact of `pygamma_cmd`'s AST: which parsed option reaches
which parameter of which library call, under which guard, in which output mode.  (No SMT is needed: the facts are syntactic; the
numerical equality of the reported values with the API is exercised by the replay oracle.)"""
import ast
import os

from . import extract
from .effects import EffectObligation

FILE = os.path.join("pygamma_agreement", "cli_apps.py")
# the statement's option list: categorical-dissimilarity choice -> class (absolute is the default: no component passed)
CAT_CLASSES = {"levenshtein": "LevenshteinCategoricalDissimilarity", "numerical": "NumericalCategoricalDissimilarity"}


def norm(n):
    return " ".join(ast.unparse(n).split())


def option_table(tree):
    opts = {}
    for n in ast.walk(tree):
        if isinstance(n, ast.Call) and isinstance(n.func, ast.Attribute) and n.func.attr == "add_argument":
            flags = [a.value for a in n.args if isinstance(a, ast.Constant)]
            kw = {k.arg: k.value for k in n.keywords}
            longs = [f for f in flags if f.startswith("--")]
            dest = (longs[0][2:] if longs else flags[0].lstrip("-")).replace("-", "_")
            choices = None
            if "choices" in kw:
                choices = sorted(e.value for e in kw["choices"].elts)
            opts[dest] = {"flags": flags, "type": norm(kw["type"]) if "type" in kw else None, "choices": choices,
                          "default": norm(kw["default"]) if "default" in kw else None,
                          "action": kw["action"].value if "action" in kw else None}
    return opts


def find_calls(fn, name):
    return [n for n in ast.walk(fn) if isinstance(n, ast.Call) and norm(n.func).endswith(name)]


def guard_chain(fn, target):
    """the `if` tests enclosing a node (innermost last), with polarity"""
    out = []

    def visit(node, guards):
        if node is target:
            out.extend(guards)
            return True
        if isinstance(node, ast.If):
            for ch in node.body:
                if visit(ch, guards + [(norm(node.test), True)]):
                    return True
            for ch in node.orelse:
                if visit(ch, guards + [(norm(node.test), False)]):
                    return True
            return visit(node.test, guards) if False else False
        for ch in ast.iter_child_nodes(node):
            if visit(ch, guards):
                return True
        return False
    visit(fn, [])
    return out


def obligations():
    tree, _ = extract.module_tree(FILE)
    fn = next(n for n in tree.body if isinstance(n, ast.FunctionDef) and n.name == "pygamma_cmd")
    opts = option_table(tree)
    obls = []

    def ob(name, ok, clause, detail=""):
        o = EffectObligation("C20/wiring/" + name, bool(ok), clause, str(detail)[:600])
        o.backend = "wiring"
        o.func = "pygamma_agreement/cli_apps.py::pygamma_cmd"
        obls.append(o)

    used = {n.attr for n in ast.walk(fn) if isinstance(n, ast.Attribute) and isinstance(n.value, ast.Name) and n.value.id == "args"}
    ob("every-args-attribute-is-a-parsed-option", used <= set(opts), "every args.<name> read by pygamma_cmd is the destination of an option",
       sorted(used - set(opts)))
    ob("every-option-is-read", set(opts) - {"verbose"} <= used | {"verbose"}, "every option of the parser is read by pygamma_cmd",
       sorted(set(opts) - used))

    # --- the dissimilarity
    comb = find_calls(fn, "CombinedCategoricalDissimilarity")
    kw = {k.arg: norm(k.value) for c in comb for k in c.keywords}
    ob("combined-dissimilarity/alpha", len(comb) == 1 and kw.get("alpha") == "args.alpha", "alpha = -a/--alpha", kw)
    ob("combined-dissimilarity/beta", kw.get("beta") == "args.beta", "beta = -b/--beta", kw)
    ob("combined-dissimilarity/delta_empty", kw.get("delta_empty") == "args.empty_delta", "delta_empty = -e/--empty-delta", kw)
    catvar = kw.get("cat_dissim")
    ob("combined-dissimilarity/cat_dissim-is-the-selected-component", catvar is not None and catvar.isidentifier(),
       "cat_dissim is the component selected from -d/--cat-dissim", kw)
    # the if-chain selecting the categorical component
    mapping = {}
    for n in ast.walk(fn):
        if isinstance(n, ast.If):
            t = n.test
            if isinstance(t, ast.Compare) and norm(t.left) == "args.cat_dissim" and isinstance(t.ops[0], ast.Eq) \
                    and isinstance(t.comparators[0], ast.Constant):
                lit = t.comparators[0].value
                for st in n.body:
                    if isinstance(st, ast.Assign) and norm(st.targets[0]) == (catvar or "cat_dissim") and isinstance(st.value, ast.Call):
                        mapping[lit] = (norm(st.value.func), [norm(a) for a in st.value.args])
    choices = (opts.get("cat_dissim") or {}).get("choices") or []
    ob("cat-dissim/tested-literals-are-parser-choices", set(mapping) <= set(choices),
       "every literal -d is compared with is one of the parser's choices", {"tested": sorted(mapping), "choices": choices})
    for lit, cls in CAT_CLASSES.items():
        ob(f"cat-dissim/{lit}-takes-effect", lit in choices and mapping.get(lit, ("",))[0] == cls and
           mapping.get(lit, ("", []))[1] == ["continuum.categories"],
           f"-d {lit} selects {cls}(continuum.categories)", mapping.get(lit))
    ob("cat-dissim/every-choice-is-handled", set(choices) == set(CAT_CLASSES) | {"absolute"} and
       (opts.get("cat_dissim") or {}).get("default") == "'absolute'",
       "the parser's choices are exactly absolute (default), numerical, levenshtein", choices)
    init = [n for n in ast.walk(fn) if isinstance(n, ast.Assign) and norm(n.targets[0]) == (catvar or "cat_dissim") and norm(n.value) == "None"]
    ob("cat-dissim/absolute-is-the-default-component", len(init) == 1, "without -d (or with -d absolute) no component is passed: the default absolute one", len(init))

    # --- per-file state: the component is re-initialised (to None) at the top level of the per-file loop, before the -d chain, and the
    #     chain is guarded by the option only - nothing computed for one input file is reused for the next
    cgc = find_calls(fn, "compute_gamma")
    loops = [n for n in ast.walk(fn) if isinstance(n, ast.For) and cgc and any(c is cgc[0] for c in ast.walk(n))]
    per_file = loops[-1] if loops else None       # the innermost loop holding the compute_gamma call
    ok_pf = False
    if per_file is not None and len(init) == 1:
        top = list(per_file.body)
        pos_init = [i for i, st in enumerate(top) if st is init[0]]
        chain = [i for i, st in enumerate(top) if isinstance(st, ast.If) and norm(st.test).startswith("args.cat_dissim ==")]
        sets = [n for n in ast.walk(per_file) if isinstance(n, ast.Assign) and norm(n.targets[0]) == (catvar or "cat_dissim") and n is not init[0]]
        guards_ok = all(all(g.startswith("args.cat_dissim ==") for g, _ in guard_chain(fn, n)) for n in sets)
        ok_pf = bool(pos_init) and bool(chain) and pos_init[0] < chain[0] and guards_ok
    ob("cat-dissim/rebuilt-for-each-input-file", ok_pf,
       "inside the per-file loop the component is first reset to None, then built from THIS file's categories under tests of -d only",
       {"loop": norm(per_file.target) if per_file is not None else None})

    # --- compute_gamma
    cg = find_calls(fn, "compute_gamma")
    kw = {k.arg: norm(k.value) for c in cg for k in c.keywords}
    ob("compute_gamma/dissimilarity", len(cg) == 1 and kw.get("dissimilarity") == "dissim" and
       any(isinstance(n, ast.Assign) and norm(n.targets[0]) == "dissim" and "CombinedCategoricalDissimilarity" in norm(n.value) for n in ast.walk(fn)),
       "the combined dissimilarity built from the options is the one passed to compute_gamma", kw)
    ob("compute_gamma/precision_level", kw.get("precision_level") == "args.precision_level", "precision_level = -p", kw)
    ob("compute_gamma/n_samples", kw.get("n_samples") == "args.n_samples", "n_samples = -n", kw)
    ob("compute_gamma/fast", kw.get("fast") == "True", "the command line uses the fast mode", kw)
    ob("compute_gamma/sampler", kw.get("sampler") == "sampler", "sampler = the one selected by -m", kw)
    samp = [n for n in ast.walk(fn) if isinstance(n, ast.Assign) and norm(n.targets[0]) == "sampler"]
    shuffle = [n for n in samp if norm(n.value) == "ShuffleContinuumSampler()"]
    ok = len(samp) == 2 and len(shuffle) == 1 and guard_chain(fn, shuffle[0])[-1:] == [("args.mathet_sampler", True)] and \
        any(norm(n.value) == "None" for n in samp)
    ob("sampler/mathet-option", ok, "sampler = ShuffleContinuumSampler() iff -m, the library default otherwise", [norm(n) for n in samp])

    # --- seed: once, before the per-file loop
    seeds = find_calls(fn, "np.random.seed")
    loops = [n for n in fn.body if isinstance(n, ast.For) and norm(n.iter) == "input_files"]
    ok = len(seeds) == 1 and [norm(a) for a in seeds[0].args] == ["args.seed"] and \
        guard_chain(fn, seeds[0])[-1:] == [("args.seed is not None", True)] and len(loops) == 1 and \
        not any(s_ is seeds[0] for lp in loops for s_ in ast.walk(lp)) and seeds[0].lineno < loops[0].lineno
    ob("seed/once-before-the-first-file", ok, "np.random.seed(args.seed) runs once, before the first file, iff --seed is given",
       [norm(s_) for s_ in seeds])

    # --- input
    fc = find_calls(fn, "from_csv")
    ob("input/csv-delimiter", len(fc) == 1 and [norm(a) for a in fc[0].args] == ["file_path"] and
       {k.arg: norm(k.value) for k in fc[0].keywords} == {"delimiter": "args.separator"} and
       guard_chain(fn, fc[0])[-1:] == [("args.format == 'csv'", True)], "csv input is read with the -s separator", [norm(c) for c in fc])
    fr = find_calls(fn, "from_rttm")
    ob("input/rttm", len(fr) == 1 and guard_chain(fn, fr[0])[-1:] == [("args.format == 'csv'", False)], "rttm input when -f rttm", [norm(c) for c in fr])

    # --- outputs: the same three quantities in every mode, under the same guards
    def reads(expr_text, where):
        return [n for n in ast.walk(where) if isinstance(n, (ast.Attribute, ast.Call)) and norm(n) == expr_text]
    loop = loops[0] if loops else fn
    mode_if = [n for n in ast.walk(loop) if isinstance(n, ast.If) and "args.output_csv is None and args.output_json is None" in norm(n.test)]
    ok_modes = len(mode_if) == 1
    ob("output/mode-selection", ok_modes, "printing iff neither -o nor -j is given", [norm(n.test) for n in mode_if])
    if ok_modes:
        pr, wr = ast.Module(body=mode_if[0].body, type_ignores=[]), ast.Module(body=mode_if[0].orelse, type_ignores=[])
        for label, where in (("print", pr), ("report", wr)):
            g = reads("gamma.gamma", where)
            ob(f"output/{label}/gamma", len(g) == 1 and not guard_chain(where, g[0]), f"{label}: gamma.gamma unconditionally", len(g))
            gc = reads("gamma.gamma_cat", where)
            ob(f"output/{label}/gamma-cat", len(gc) == 1 and guard_chain(where, gc[0]) == [("args.gamma_cat", True)],
               f"{label}: gamma.gamma_cat iff -c", [guard_chain(where, x) for x in gc])
            gk = reads("gamma.gamma_k(category)", where)
            okk = len(gk) == 1 and guard_chain(where, gk[0]) == [("args.gamma_k", True)] and \
                any(norm(n.iter) == "continuum.categories" for n in ast.walk(where) if isinstance(n, (ast.For, ast.comprehension)))
            ob(f"output/{label}/gamma-k", okk, f"{label}: gamma.gamma_k(category) for every category of the continuum iff -k",
               [guard_chain(where, x) for x in gk])
    labels = [n for n in fn.body if isinstance(n, ast.If) and norm(n.test) in ("args.gamma_cat", "args.gamma_k")]
    lab_ok = {norm(n.test): [norm(s_) for s_ in n.body] for n in labels}
    ob("output/report-labels", lab_ok.get("args.gamma_cat") == ["labels.append('gamma-cat')"] and
       lab_ok.get("args.gamma_k") == ["labels.append('gamma-k')"] and
       any(isinstance(n, ast.Assign) and norm(n) == "labels = ['filename', 'gamma']" for n in fn.body),
       "report columns: filename, gamma, gamma-cat iff -c, gamma-k iff -k (the order in which the values were appended)", lab_ok)
    w = find_calls(fn, "csv.writer")
    ob("output/csv-separator", len(w) == 1 and {k.arg: norm(k.value) for k in w[0].keywords} == {"delimiter": "args.separator"},
       "the csv report uses the -s separator", [norm(c) for c in w])
    return obls, opts
