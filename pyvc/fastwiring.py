"""Branch-structure obligations of the fast-gamma plumbing (C10, last clause: "a fast-mode gamma computation uses the exact algorithm
when windowing is estimated to be disadvantageous").  The estimate itself (numpy closures over np.log2, np.arange, argmin) is outside the
encoding; what is decided here, syntactically over the current AST, is the data flow that carries the verdict:
  W1  measure_best_window_size ends with one `if <advantage test>:` whose two branches BOTH assign self.best_window_size - a finite
      window in the advantageous branch, np.inf in the other (so a value left by an earlier measurement never survives);
  W2  nothing else in the package assigns best_window_size except Continuum.__init__ (np.inf) and the copy methods (the source's value);
  W3  _compute_fast_alignment_job calls get_best_alignment exactly under `continuum.best_window_size == np.inf`, get_fast_alignment
      (with that window size) otherwise;
  W4  compute_gamma(fast=True) measures the window size before any job is submitted and submits that job.
The run-time meaning of these facts is exercised by the bounded oracle (harness/oracles/fast.py)."""
import ast
import os

from . import extract
from .effects import EffectObligation
from .cliwiring import norm, guard_chain

FILE = os.path.join("pygamma_agreement", "continuum.py")


def obligations():
    tree, _ = extract.module_tree(FILE)
    obls = []

    def ob(name, ok, clause, detail="", func="Continuum.measure_best_window_size"):
        o = EffectObligation("C10/wiring/" + name, bool(ok), clause, str(detail)[:600])
        o.backend = "wiring"
        o.func = "pygamma_agreement/continuum.py::" + func
        obls.append(o)

    cls = next(n for n in tree.body if isinstance(n, ast.ClassDef) and n.name == "Continuum")
    meth = {n.name: n for n in cls.body if isinstance(n, ast.FunctionDef)}
    # ---- W1
    m = meth.get("measure_best_window_size")
    last = m.body[-1] if m else None
    ok_if = isinstance(last, ast.If) and bool(last.orelse)

    def assigns(stmts):
        return [s for s in stmts if isinstance(s, ast.Assign) and norm(s.targets[0]) == "self.best_window_size"]
    a_then = assigns(last.body) if ok_if else []
    a_else = assigns(last.orelse) if ok_if else []
    ob("W1/verdict-is-the-last-statement", ok_if, "measure_best_window_size ends with the advantage test, with an else branch",
       norm(last) if last is not None else None)
    ob("W1/advantageous-branch-stores-a-finite-window", len(a_then) == 1 and norm(a_then[0].value) == "window_sizes[min_index]",
       "advantageous: best_window_size = window_sizes[min_index]", [norm(a) for a in a_then])
    ob("W1/disadvantageous-branch-stores-infinity", len(a_else) == 1 and norm(a_else[0].value) in ("np.inf", "numpy.inf", "float('inf')", "math.inf"),
       "disadvantageous: best_window_size = np.inf, whatever was stored before", [norm(a) for a in a_else])
    ws = [s for s in ast.walk(m) if isinstance(s, ast.Assign) and norm(s.targets[0]) == "window_sizes"] if m else []
    ob("W1/window-sizes-start-at-1", len(ws) == 1 and norm(ws[0].value).startswith("np.arange(1,"),
       "the candidate window sizes are integers >= 1", [norm(w) for w in ws])
    # ---- W2
    others = []
    for f in sorted(os.listdir(os.path.join(extract.REPO, "pygamma_agreement"))):
        if not f.endswith(".py"):
            continue
        t, _ = extract.module_tree(os.path.join("pygamma_agreement", f))
        for fn in ast.walk(t):
            if isinstance(fn, (ast.FunctionDef,)):
                for s in ast.walk(fn):
                    tg = []
                    if isinstance(s, ast.Assign):
                        tg = s.targets
                    elif isinstance(s, (ast.AugAssign, ast.AnnAssign)):
                        tg = [s.target]
                    for x in tg:
                        if isinstance(x, ast.Attribute) and x.attr == "best_window_size":
                            others.append((f, fn.name, norm(s)))
    allowed = {("continuum.py", "__init__", "self.best_window_size = np.inf"),
               ("continuum.py", "copy", "continuum.best_window_size = self.best_window_size"),
               ("continuum.py", "copy_flush", "continuum.best_window_size = self.best_window_size"),
               ("continuum.py", "measure_best_window_size", "self.best_window_size = window_sizes[min_index]"),
               ("continuum.py", "measure_best_window_size", "self.best_window_size = np.inf")}
    ob("W2/no-other-writer-of-best_window_size", set(others) <= allowed, "best_window_size is written only by __init__, the copies and the measurement",
       sorted(set(others) - allowed))
    # ---- W3
    job = next((n for n in tree.body if isinstance(n, ast.FunctionDef) and n.name == "_compute_fast_alignment_job"), None)
    J = "_compute_fast_alignment_job"
    calls = [n for n in ast.walk(job) if isinstance(n, ast.Call) and isinstance(n.func, ast.Attribute)] if job else []
    best = [c for c in calls if c.func.attr == "get_best_alignment"]
    fast = [c for c in calls if c.func.attr == "get_fast_alignment"]
    INF = ("continuum.best_window_size == np.inf", "np.inf == continuum.best_window_size")
    ob("W3/exact-algorithm-iff-infinite-window", len(best) == 1 and [norm(a) for a in best[0].args] == ["dissimilarity"] and
       norm(best[0].func.value) == "continuum" and [(g in INF, pol) for g, pol in guard_chain(job, best[0])] == [(True, True)],
       "get_best_alignment(dissimilarity) runs exactly when continuum.best_window_size == np.inf", [norm(c) for c in best], func=J)
    ok_fast = len(fast) == 1 and [norm(a) for a in fast[0].args] == ["dissimilarity", "continuum.best_window_size"] and \
        norm(fast[0].func.value) == "continuum" and guard_chain(job, fast[0]) == []
    body = extract.strip_docstring(job.body) if job else []
    ok_shape = len(body) == 2 and isinstance(body[0], ast.If) and not body[0].orelse and \
        all(isinstance(s, ast.Return) for s in body[0].body) and isinstance(body[1], ast.Return)
    ob("W3/windowed-algorithm-otherwise", ok_fast and ok_shape,
       "otherwise get_fast_alignment(dissimilarity, continuum.best_window_size); the infinite-window branch returns", [norm(c) for c in fast], func=J)
    # ---- W4
    cg = meth.get("compute_gamma")
    G = "Continuum.compute_gamma"
    mcalls = [n for n in ast.walk(cg) if isinstance(n, ast.Call) and norm(n.func) == "self.measure_best_window_size"] if cg else []
    jobsets = [n for n in ast.walk(cg) if isinstance(n, ast.Assign) and norm(n.targets[0]) == "job" and norm(n.value) == "_compute_fast_alignment_job"] if cg else []
    submits = [n for n in ast.walk(cg) if isinstance(n, ast.Call) and norm(n.func).endswith(".submit")] if cg else []
    ok = len(mcalls) == 1 and len(jobsets) == 1 and [norm(a) for a in mcalls[0].args] == ["dissimilarity"] and \
        guard_chain(cg, mcalls[0]) == [("fast", True)] and guard_chain(cg, jobsets[0]) == [("fast", True)] and submits and \
        all(mcalls[0].lineno < s_.lineno for s_ in submits) and all(norm(s_.args[0]) == "job" for s_ in submits)
    ob("W4/fast-mode-measures-then-submits-the-fast-job", ok,
       "compute_gamma(fast=True): measure_best_window_size(dissimilarity) runs before the first submit; every submit runs `job`",
       {"measure": [norm(c) for c in mcalls], "submits": [norm(s_) for s_ in submits]}, func=G)
    return obls
