"""Contract records (sidecar specifications) and the registry that binds them to functions of /repo."""
import ast
import z3
from . import vals as V
from .vals import I, R, B


# ---------------------------------------------------------------- types (for parameters / results)
class T:
    def fresh(self, name):
        raise NotImplementedError


class IntT(T):
    def fresh(self, name):
        return z3.Int(name)


class RealT(T):
    def fresh(self, name):
        return z3.Real(name)


class BoolT(T):
    def fresh(self, name):
        return z3.Bool(name)


class NdArray(T):
    def __init__(self, dtype, rank):
        self.dtype, self.rank = dtype, rank

    def fresh(self, name):
        return V.Arr(z3.Const(name, V.nested_sort(V.elem_sort(self.dtype), self.rank)),
                     [z3.Int(f"{name}.d{k}") for k in range(self.rank)], self.dtype)

    def facts(self, v):
        out = [d >= 0 for d in v.dims]
        return out


class ListOf(T):
    def __init__(self, elem):
        self.elem = elem

    def fresh(self, name):
        tmpl = self.elem.fresh(name + ".e")
        return V.SList(z3.Int(f"{name}.len"),
                       V.Lifted(tmpl, [z3.Const(f"{name}.c{k}", z3.ArraySort(I, c.sort()))
                                       for k, c in enumerate(V.comps(tmpl))]))


class TupleOf(T):
    def __init__(self, *items):
        self.items = items

    def fresh(self, name):
        return V.Tup([t.fresh(f"{name}.{k}") for k, t in enumerate(self.items)])


class FnT(T):
    """pure function parameter, e.g. d_mat: (row, row) -> real"""

    def __init__(self, arg_sorts, ret_sort):
        self.arg_sorts, self.ret_sort = arg_sorts, ret_sort

    def fresh(self, name):
        return V.Func(z3.Function(name, *[sort_of(s) for s in self.arg_sorts], sort_of(self.ret_sort)), name=name)


class ClassT(T):
    """the `cls` parameter of a classmethod"""

    def __init__(self, name):
        self.name = name

    def fresh(self, name):
        return V.PyConst(("class", self.name))


class OptT(T):
    def __init__(self, elem):
        self.elem = elem

    def fresh(self, name):
        return V.Opt(z3.Bool(name + ".isnone"), self.elem.fresh(name + ".val"))


class RecT(T):
    def __init__(self, cls, **fields):
        self.cls, self.fields = cls, fields

    def fresh(self, name):
        return V.Rec(self.cls, {k: t.fresh(f"{name}.{k}") for k, t in self.fields.items()})


SORTS = {"Int": I, "Real": R, "Bool": B,
         "AInt": z3.ArraySort(I, I), "AReal": z3.ArraySort(I, R), "ABool": z3.ArraySort(I, B),
         "A2Int": z3.ArraySort(I, z3.ArraySort(I, I)), "A2Real": z3.ArraySort(I, z3.ArraySort(I, R)),
         "A3Real": z3.ArraySort(I, z3.ArraySort(I, z3.ArraySort(I, R))),
         "RSet": z3.ArraySort(R, B)}


def sort_of(s):
    if isinstance(s, z3.SortRef):
        return s
    if s in SORTS:
        return SORTS[s]
    raise KeyError(f"unknown sort name {s}")


# ---------------------------------------------------------------- clauses
class Clause:
    def __init__(self, text, props=None, name=None):
        self.text = " ".join(text.split())
        self.props = set(props.split()) if isinstance(props, str) else (set(props) if props else None)
        self.name = name
        self._ast = None

    @property
    def node(self):
        if self._ast is None:
            self._ast = ast.parse(self.text, mode="eval").body
        return self._ast

    def __repr__(self):
        return f"Clause({self.text!r})"


def cl(text, props=None, name=None):
    return Clause(text, props, name)


def as_clause(x):
    return x if isinstance(x, Clause) else Clause(x)


class GhostFun:
    def __init__(self, name, sig):
        args, _, ret = sig.partition("->")
        self.name = name
        self.arg_sorts = [sort_of(a) for a in args.split()]      # no argument sorts: a ghost constant
        self.ret_sort = sort_of(ret.strip())


class Macro:
    def __init__(self, name, params, body):
        self.name, self.params, self.body = name, params, Clause(body)


class Lemma:
    """A standalone fact over ghost functions.  method: 'auto' or ('induction', var, lo) meaning the statement is
    forall(var, lo, +inf, body(var)) proved by base (var == lo) and step (body(var) => body(var+1), var >= lo)."""

    def __init__(self, name, statement, method="auto", binders=None, uses=(), hyps=(), pats=None, hints=()):
        self.hints = [Clause(h) for h in hints]
        self.name, self.statement, self.method = name, Clause(statement), method
        self.binders = binders or []     # [(name, sortname)] universally quantified around the statement
        self.uses = list(uses)
        self.hyps = [Clause(h) for h in hyps]
        self.pats = pats


class LoopSpec:
    def __init__(self, inv=(), variant=None, match=None, index=None, modifies=(), seq_fun=None, seq_name=None, iter_name=None,
                 iter_ghost=None):
        self.iter_ghost = dict(iter_ghost or {})   # ghost assignments run right after the iterable is evaluated (before the invariant is established)
        self.iter_name = iter_name      # name under which the evaluated iterable (a list value) is visible to the invariants
        self.seq_fun, self.seq_name = seq_fun, seq_name
        self.inv = [as_clause(c) for c in inv]
        self.variant = as_clause(variant) if variant else None
        self.match, self.index = match, index
        self.modifies = list(modifies)


class Contract:
    def __init__(self, qualname, params, returns=None, ghost_funs=(), macros=(), axioms=(), lets=None,
                 ghost_vars=None, requires=(), ensures=(), loops=None, hooks=(), yields=(), count=None, count_facts=(),
                 raises=None, uses=(), lemmas=(), calls=None, serves=(), pure=False, trusted=False, notes="",
                 closure=None, self_type=None, modifies=(), effects=None, coerce=None,
                 export_lemmas=True, is_property=False, locals=None, frame_check=True, static=False,
                 returns_expr=None, ghost_returns=None, value_self=False, binds=None,
                 is_classmethod=False, inline_result=False, unreachable=()):
        self.qualname = qualname
        self.params = params                      # dict name -> T (in signature order)
        self.returns = returns
        self.ghost_funs = list(ghost_funs)
        self.macros = {m.name: m for m in macros}
        self.axioms = [as_clause(a) for a in axioms]
        self.lets = lets or {}                    # name -> spec text, evaluated at entry in order
        self.ghost_vars = ghost_vars or {}        # name -> (sortname, init text | None)
        self.requires = [as_clause(c) for c in requires]
        self.ensures = [as_clause(c) for c in ensures]
        self.loops = loops or {}
        self.hooks = list(hooks)                  # (when, anchor statement text, ghost assignment text)
        self.yields = [as_clause(c) for c in yields]
        self.count = as_clause(count) if count else None
        self.count_facts = [as_clause(x) for x in count_facts]   # facts about the final `nyield` when the count is data-dependent
        self.raises = raises or {}                # exc name -> dict(when=clause, post=[clauses])
        self.uses = list(uses)
        self.lemmas = list(lemmas)
        self.calls = calls or {}                  # call text -> qualname of the callee's contract
        self.serves = set(serves)
        self.pure = pure
        self.trusted = trusted                    # assumed contract (library model): body never verified
        self.notes = notes
        self.closure = closure or {}              # captured names -> T (for closures) or spec text
        self.modifies = list(modifies)
        self.effects = effects or {}
        self.coerce = coerce or {}          # program variable -> 'Real' (a variable initialised with an int literal that holds floats)
        self.export_lemmas = export_lemmas
        self.is_property = is_property
        self.locals = locals or {}          # local variable -> T (element shape of lists that start empty)
        self.frame_check = frame_check
        self.static = static                # @staticmethod: no receiver
        self.unreachable = list(unreachable)   # anchors of return statements proved unreachable under the requires (obligation, not canary)
        self.inline_result = inline_result  # call sites use the `result == <expr>` clause as the value itself (pure scalar getters)
        self.returns_expr = returns_expr    # the result is this existing object (alias), e.g. 'self._categories'
        self.value_self = value_self        # `self` is a record by value that the method updates (constructor / setter)
        self.ghost_returns = ghost_returns or {}
        self.binds = binds or {}
        self.is_classmethod = is_classmethod            # 'self.field' -> spec text: the field holds exactly this value on return   # ghost outputs (name -> sort) a caller may bind with a hook 'x = ghost(name)'


REGISTRY = {}
LEMMAS = {}


def contract(qualname, **kw):
    c = Contract(qualname, **kw)
    REGISTRY[qualname] = c
    for lem in c.lemmas:
        LEMMAS[lem.name] = lem
    return c


def lemma(name, statement, **kw):
    lem = Lemma(name, statement, **kw)
    LEMMAS[name] = lem
    return lem


GLOBAL_GHOSTS = {}


class GlobalGhost:
    """a ghost function shared by all contracts (parametrised by the arrays it talks about), with defining axioms"""

    def __init__(self, name, sig, axioms):
        g = GhostFun(name, sig)
        self.name, self.arg_sorts, self.ret_sort = name, g.arg_sorts, g.ret_sort
        self.axioms = [Clause(a) for a in axioms]
        self.decl = None


def global_ghost(name, sig, axioms=()):
    GLOBAL_GHOSTS[name] = GlobalGhost(name, sig, axioms)
    return GLOBAL_GHOSTS[name]
