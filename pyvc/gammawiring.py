"""Data-flow obligations of the gamma plumbing (C05 G2/G3, C12 jobs): Continuum.compute_gamma and GammaResults.gamma_cat / gamma_k run
their jobs through a thread pool; the symbolic executor has no model of executors holding heap objects, so what those functions add on
top of the proved job / GammaResults contracts - WHICH job is run on WHAT, how many times, and what is handed to GammaResults - is
decided here as syntactic facts of the current AST (regenerated on every run, failing by name).  Their run-time meaning is exercised by
the bounded oracles (harness/oracles/gammas.py, gammacat.py)."""
import ast
import os

from . import extract
from .effects import EffectObligation
from .cliwiring import norm, guard_chain

FILE = os.path.join("pygamma_agreement", "continuum.py")


def _assigns(fn, name):
    return [n for n in ast.walk(fn) if isinstance(n, ast.Assign) and len(n.targets) == 1 and norm(n.targets[0]) == name]


def _submits(fn):
    return [n for n in ast.walk(fn) if isinstance(n, ast.Call) and isinstance(n.func, ast.Attribute) and n.func.attr == "submit"]


def _submit_args(c):
    """(callable, [args]) of p.submit(f, *(a, b)) or p.submit(f, a, b)"""
    f = norm(c.args[0]) if c.args else None
    rest = c.args[1:]
    if len(rest) == 1 and isinstance(rest[0], ast.Starred) and isinstance(rest[0].value, ast.Tuple):
        return f, [norm(x) for x in rest[0].value.elts]
    return f, [norm(x) for x in rest]


def compute_gamma_obligations():
    tree, _ = extract.module_tree(FILE)
    cls = next(n for n in tree.body if isinstance(n, ast.ClassDef) and n.name == "Continuum")
    fn = next(n for n in cls.body if isinstance(n, ast.FunctionDef) and n.name == "compute_gamma")
    obls = []

    def ob(name, ok, clause, detail=""):
        o = EffectObligation("C05/wiring/" + name, bool(ok), clause, str(detail)[:600])
        o.backend = "wiring"
        o.func = "pygamma_agreement/continuum.py::Continuum.compute_gamma"
        obls.append(o)

    # ---- defaults
    dflt = [n for n in ast.walk(fn) if isinstance(n, ast.If) and norm(n.test) == "dissimilarity is None"]
    ob("default-dissimilarity", len(dflt) == 1 and [norm(s) for s in dflt[0].body] == ["dissimilarity = CombinedCategoricalDissimilarity()"]
       and not dflt[0].orelse, "without a dissimilarity the combined categorical one with default parameters is used",
       [norm(s) for d in dflt for s in d.body])
    sd = [n for n in ast.walk(fn) if isinstance(n, ast.If) and norm(n.test) == "sampler is None"]
    ob("default-sampler", len(sd) == 1 and [norm(s) for s in sd[0].body if not isinstance(s, (ast.Import, ast.ImportFrom))] ==
       ["sampler = StatisticalContinuumSampler()"] and not sd[0].orelse, "without a sampler the statistical sampler is used",
       [norm(s) for d in sd for s in d.body])
    init = [n for n in ast.walk(fn) if isinstance(n, ast.Call) and norm(n.func) == "sampler.init_sampling"]
    subs = _submits(fn)
    ob("sampler-initialised-on-this-continuum-and-ground-truth", len(init) == 1 and [norm(a) for a in init[0].args] == ["self", "ground_truth_annotators"]
       and not init[0].keywords and guard_chain(fn, init[0]) == [] and subs and all(init[0].lineno < s.lineno for s in subs),
       "sampler.init_sampling(self, ground_truth_annotators) runs unconditionally, once, before any job is submitted", [norm(c) for c in init])
    # ---- job selection
    jobs = _assigns(fn, "job")
    table = {norm(j.value): [g for g in guard_chain(fn, j)] for j in jobs}
    ok = table == {"_compute_best_alignment_job": [], "_compute_soft_alignment_job": [("soft", True)], "_compute_fast_alignment_job": [("fast", True)]}
    order = [norm(j.value) for j in sorted(jobs, key=lambda j: j.lineno)]
    ob("job-selection", ok and order == ["_compute_best_alignment_job", "_compute_soft_alignment_job", "_compute_fast_alignment_job"],
       "job = best-alignment by default, soft-alignment iff soft, fast-alignment iff fast", table)
    raises = [n for n in ast.walk(fn) if isinstance(n, ast.Raise) and n.exc is not None and norm(n.exc).startswith("NotImplementedError")]
    ob("soft-and-fast-rejected", len(raises) == 1 and guard_chain(fn, raises[0]) == [("soft and fast", True)] and subs
       and all(raises[0].lineno < s.lineno for s in subs), "soft and fast together raise NotImplementedError before anything is computed",
       [guard_chain(fn, r) for r in raises])
    # ---- what is submitted
    ok_all = all(_submit_args(s)[0] == "job" for s in subs)
    ob("every-submitted-callable-is-the-selected-job", ok_all and len(subs) == 3, "the three submit sites all run `job`", [norm(s) for s in subs])
    best = [s for s in subs if _submit_args(s)[1] == ["dissimilarity", "self"]]
    tgt = [a for a in ast.walk(fn) if isinstance(a, ast.Assign) and any(b is a.value for b in best)]
    ob("best-alignment-is-the-job-on-this-continuum", len(best) == 1 and len(tgt) == 1 and norm(tgt[0].targets[0]) == "best_alignment_task" and
       any(norm(a) == "best_alignment = best_alignment_task.result()" for a in ast.walk(fn) if isinstance(a, ast.Assign)),
       "best_alignment = job(dissimilarity, self)", [norm(s) for s in best])
    comps = [n for n in ast.walk(fn) if isinstance(n, ast.ListComp) and any(s is n.elt for s in subs)]
    shapes = []
    for c in comps:
        f, args = _submit_args(c.elt)
        g = c.generators[0]
        shapes.append((args, norm(g.iter), len(c.generators), bool(g.ifs), norm(g.target)))
    ob("chance-batches-one-fresh-sample-per-job", sorted(shapes) == sorted([
        (["dissimilarity", "sampler.sample_from_continuum"], "range(n_samples)", 1, False, "_"),
        (["dissimilarity", "sampler.sample_from_continuum"], "range(required_samples - n_samples)", 1, False, "_")]),
       "first batch: n_samples jobs, second batch: required_samples - n_samples jobs, each on its own sampler.sample_from_continuum "
       "(evaluated once per job, in the submitting thread)", shapes)
    second = [c for c in comps if norm(c.generators[0].iter) == "range(required_samples - n_samples)"]
    ob("second-batch-only-when-more-samples-are-required", len(second) == 1 and
       [g for g in guard_chain(fn, second[0])] == [("precision_level is not None", True), ("required_samples > n_samples", True)],
       "the second batch runs iff a precision level is given and required_samples > n_samples", [guard_chain(fn, c) for c in second])
    # ---- how results are gathered
    loops = [n for n in ast.walk(fn) if isinstance(n, ast.For) and norm(n.iter) == "enumerate(result_pool)"]
    apps = [[norm(s) for s in lp.body if isinstance(s, ast.Expr) and "append" in norm(s)] for lp in loops]
    ob("every-result-appended-once-in-submission-order", len(loops) == 2 and
       all("chance_best_alignments.append(result.result())" in a for a in apps) and
       not any(isinstance(n, ast.Call) and norm(n.func).endswith(("as_completed", "wait")) for n in ast.walk(fn)),
       "each batch is read by one `for i, result in enumerate(result_pool)` appending result.result(): one chance alignment per job, in order", apps)
    ret = [n for n in ast.walk(fn) if isinstance(n, ast.Return) and n.value is not None]
    kw = {k.arg: norm(k.value) for r in ret if isinstance(r.value, ast.Call) for k in r.value.keywords}
    ob("results-handed-to-GammaResults", len(ret) == 1 and norm(ret[0].value.func) == "GammaResults" and kw == {
        "best_alignment": "best_alignment", "chance_alignments": "chance_best_alignments", "precision_level": "precision_level",
        "dissimilarity": "dissimilarity"}, "GammaResults(best_alignment, all chance alignments, precision level, the dissimilarity used)", kw)
    req = _assigns(fn, "required_samples")
    ob("required-samples-formula", len(req) == 1 and norm(req[0].value) ==
       "np.ceil((variation_coeff * confidence / precision_level) ** 2).astype(np.int32)" and
       any(norm(a) == "variation_coeff = np.std(chance_disorders) / np.mean(chance_disorders)" for a in ast.walk(fn) if isinstance(a, ast.Assign)) and
       any(norm(a) == "confidence = 1.96" for a in ast.walk(fn) if isinstance(a, ast.Assign)),
       "required_samples = ceil((std/mean of the first batch's disorders * 1.96 / precision)^2)", [norm(r.value) for r in req])
    return obls


def gamma_k_obligations():
    tree, _ = extract.module_tree(FILE)
    cls = next(n for n in tree.body if isinstance(n, ast.ClassDef) and n.name == "GammaResults")
    obls = []
    for meth, cat in (("gamma_cat", "None"), ("gamma_k", "category")):
        fn = next(n for n in cls.body if isinstance(n, ast.FunctionDef) and n.name == meth)

        def ob(name, ok, clause, detail=""):
            o = EffectObligation(f"C12/wiring/{meth}/" + name, bool(ok), clause, str(detail)[:600])
            o.backend = "wiring"
            o.func = "pygamma_agreement/continuum.py::GammaResults." + meth
            obls.append(o)
        subs = _submits(fn)
        args = sorted(_submit_args(s) for s in subs)
        ob("jobs", args == sorted([("_compute_gamma_k_job", ["self.dissimilarity", "self.best_alignment", cat]),
                                   ("_compute_gamma_k_job", ["self.dissimilarity", "alignment", cat])]),
           f"observed: gamma_k_disorder job on the best alignment, expected: the same job on each chance alignment, category = {cat}", args)
        comps = [n for n in ast.walk(fn) if isinstance(n, ast.ListComp) and any(s is n.elt for s in subs)]
        ob("one-job-per-chance-alignment", len(comps) == 1 and norm(comps[0].generators[0].iter) == "self.chance_alignments" and
           not comps[0].generators[0].ifs and norm(comps[0].generators[0].target) == "alignment",
           "one job per element of self.chance_alignments", [norm(c) for c in comps])
        mean = [a for a in ast.walk(fn) if isinstance(a, ast.Assign) and norm(a.targets[0]) == "expected_disorder"]
        ob("expected-is-the-mean-of-the-chance-disorders", len(mean) == 1 and norm(mean[0].value) ==
           "float(np.mean(np.array([job_res.result() for job_res in chance_disorders_jobs])))",
           "expected disorder = mean of the chance jobs' results", [norm(m.value) for m in mean])
        rets = [norm(r.value) for r in sorted((r for r in ast.walk(fn) if isinstance(r, ast.Return) and r.value is not None),
                                              key=lambda r: r.lineno)]
        want = ["1", "0", "1 - observed_disorder / expected_disorder"] if meth == "gamma_cat" else ["1", "1 - observed_disorder / expected_disorder"]
        one = [r for r in ast.walk(fn) if isinstance(r, ast.Return) and norm(r.value) == "1"]
        ob("value", rets == want and len(one) == 1 and guard_chain(fn, one[0]) == [("observed_disorder == 0", True)],
           "1 when the observed disorder is 0, else 1 - observed / expected" + (" (0 when the expected disorder is 0)" if meth == "gamma_cat" else ""), rets)
    return obls
