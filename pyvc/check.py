"""Command-line driver.  python3-vt -m pyvc.check <Cxx> --tier quick|thorough   |   --fn <qualname>   |   --selfcheck"""
import argparse
import importlib
import sys
import time

from . import discharge
from .contract import REGISTRY
from .engine import Engine
from .vals import EngineError
from .extract import StaleContract

CONTRACT_MODULES = ["numba_utils"]


def load_contracts():
    for m in CONTRACT_MODULES:
        importlib.import_module("contracts." + m)


def run_function(qual, timeout_ms=60000, verbose=True):
    eng = Engine(qual)
    t = time.time()
    obls = eng.run()
    gen = time.time() - t
    discharge.discharge(obls, timeout_ms=timeout_ms)
    if verbose:
        for o in obls:
            print(f"  {o.verdict:11s} {o.backend or '':10s} {o.seconds:6.2f}s  {o.name}")
            if o.verdict != "discharged" and o.detail:
                print("      " + o.detail[:400].replace("\n", " "))
        print(f"{qual}: {sum(o.verdict == 'discharged' for o in obls)}/{len(obls)} discharged, vcgen {gen:.2f}s")
    return eng, obls


def main():
    ap = argparse.ArgumentParser()
    ap.add_argument("prop", nargs="?")
    ap.add_argument("--fn")
    ap.add_argument("--tier", default="quick")
    ap.add_argument("--selfcheck", action="store_true")
    ap.add_argument("--timeout", type=int, default=60)
    a = ap.parse_args()
    load_contracts()
    if a.fn:
        quals = [q for q in REGISTRY if a.fn in q]
        for q in quals:
            run_function(q, a.timeout * 1000)
        discharge.close()
        return 0
    return 0


if __name__ == "__main__":
    sys.exit(main())
