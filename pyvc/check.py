"""Command-line driver.

  python3-vt -m pyvc.check <Cxx> [--tier quick|thorough]     decide one property  (exit 0 held / 1 VIOLATION / 2 undecided / 3 error)
  python3-vt -m pyvc.check --fn <substring>                  verify the functions whose qualified name matches (development)
  python3-vt -m pyvc.check --selfcheck                        tool-chain self check (MANIFEST.setup_cmd)
"""
import argparse
import importlib
import json
import os
import subprocess
import sys
import time
import traceback

from . import discharge, extract
from .contract import REGISTRY
from .engine import Engine
from .vals import EngineError
from .extract import StaleContract
from .models import pylists, pyannote_  # noqa: F401  (registers the models)
from . import heap  # noqa: F401  (tier B layer)
from .models import numpy_cvx, genexp, csvio, rng, pysets, occmap, npsort, strdict  # noqa: F401,E402

ROOT = os.path.dirname(os.path.dirname(os.path.abspath(__file__)))
CONTRACT_MODULES = ["numba_utils", "dissimilarity", "continuum", "alignment", "sampler", "cst", "recompute", "ordinal", "lazy", "statcats", "statgaps", "statinit", "statcustom", "getitem", "catw"]
VENV_PY = "/venv/bin/python"


def load_contracts():
    extra = [m for m in os.environ.get("VERIF_EXTRA_CONTRACTS", "").split(",") if m]     # development: modules not registered yet
    for m in CONTRACT_MODULES + extra:
        importlib.import_module("contracts." + m)
    from contracts import properties
    return properties.PROPS


def gen_function(qual):
    """returns (engine|None, obligations, error|None)"""
    try:
        eng = Engine(qual)
        obls = eng.run()
        return eng, obls, None
    except StaleContract as e:
        return None, [], ("stale-contract", str(e))
    except EngineError as e:
        return None, [], ("out-of-reach", str(e))


def run_function(qual, timeout_ms=60000, verbose=True):
    t = time.time()
    eng, obls, err = gen_function(qual)
    if err:
        print(f"{qual}: {err[0]}: {err[1]}")
        return eng, obls
    gen = time.time() - t
    discharge.discharge(obls, timeout_ms=timeout_ms)
    can = discharge.check_sat([h for _, h in eng.canary_points], 2000)
    vac = [n for (n, _), r in zip(eng.canary_points, can) if r == "unsat"]
    if verbose:
        print(f"  canaries: {len(can)} reachability points, verdicts {sorted(set(can))}, vacuous: {vac}")
        for o in obls:
            print(f"  {o.verdict:11s} {o.backend or '':10s} {o.seconds:6.2f}s  {o.name}")
            if o.verdict != "discharged" and o.detail:
                print("      " + o.detail[:400].replace("\n", " "))
        print(f"{qual}: {sum(o.verdict == 'discharged' for o in obls)}/{len(obls)} discharged, vcgen {gen:.2f}s")
    return eng, obls


def load_known():
    p = os.path.join(ROOT, "known_findings.json")
    if not os.path.exists(p):
        return []
    return json.load(open(p))


def hunt(qual, prop, seed, tier, obligation, reason, extra=None):
    """bounded hunt on the REAL code (under /venv/bin/python) with the executable contract of `qual`.
    Returns (status, replay_path|None, text): status in found / none / no-oracle / error"""
    os.makedirs(os.path.join(ROOT, "replays", prop), exist_ok=True)
    safe = obligation.replace("/", "__").replace(" ", "_").replace(":", "_")[:150]
    out = os.path.join(ROOT, "replays", prop, safe + ".json")
    if os.path.exists(out):
        os.unlink(out)
    cmd = [VENV_PY, os.path.join(ROOT, "harness", "hunt.py"), "--fn", qual, "--prop", prop, "--seed", str(seed),
           "--tier", tier, "--out", out, "--obligation", obligation, "--reason", reason[:2000]]
    env = dict(os.environ)
    env.setdefault("NUMBA_DISABLE_PERFORMANCE_WARNINGS", "1")
    try:
        p = subprocess.run(cmd, capture_output=True, text=True, timeout=1500 if tier == "quick" else 3600, env=env)
    except subprocess.TimeoutExpired:
        return "error", None, "hunt timed out"
    text = (p.stdout + p.stderr)[-3000:]
    if p.returncode == 1 and os.path.exists(out):
        return "found", out, text
    if p.returncode == 0:
        return "none", None, text
    if p.returncode == 4:
        return "no-oracle", None, text
    cur = out + ".current"
    if p.returncode not in (0, 1, 3, 4) and os.path.exists(cur):
        # the real code crashed the interpreter on a recorded input (numba code does no bounds checking)
        c = json.load(open(cur))
        os.unlink(cur)
        rec = {"property": prop, "obligation": obligation, "function": qual, "oracle": qual, "reproduced": True,
               "clause": "the call returns (no crash / memory corruption of the interpreter)", "inputs": c["inputs"],
               "observed": f"interpreter died with exit status {p.returncode}: {text[-300:]}", "expected": "normal return",
               "verifier": reason, "cases_tried": c["case"], "repo": extract.REPO,
               "how": f"/venv/bin/python /verif/harness/run_replay.py {out}"}
        json.dump(rec, open(out, "w"), indent=1)
        return "found", out, text
    return "error", None, text


def write_unreplayed(prop, qual, obligation, o, reason):
    """replay file for a refuted obligation for which no failing input was reproduced on the real code"""
    os.makedirs(os.path.join(ROOT, "replays", prop), exist_ok=True)
    safe = obligation.replace("/", "__").replace(" ", "_").replace(":", "_")[:150]
    out = os.path.join(ROOT, "replays", prop, safe + ".json")
    rec = {"property": prop, "obligation": obligation, "function": qual, "reproduced": False,
           "clause": getattr(o, "clause", None), "kind": getattr(o, "kind", None),
           "solver": {"backend": getattr(o, "backend", None), "verdict": getattr(o, "verdict", None),
                      "output": (getattr(o, "detail", "") or "")[:6000]},
           "reason": reason,
           "source": extract.describe(qual) if qual in REGISTRY else None,
           "how": "no failing input found by the bounded hunt on the real code; the obligation was generated from "
                  "the current source and is not discharged - see solver.output"}
    json.dump(rec, open(out, "w"), indent=1)
    return out


def check_property(prop, tier, seed, timeout_s):
    t0 = time.time()
    props = load_contracts()
    if prop not in props:
        print(f"property {prop} is not claimed (see MANIFEST.not_applicable)")
        return 3
    spec = props[prop]
    known = [k for k in load_known() if k.get("property") == prop and k.get("status") == "known"]
    all_obls, engines, fn_errors = [], {}, {}
    for qual in spec["functions"]:
        eng, obls, err = gen_function(qual)
        if err:
            fn_errors[qual] = err
            continue
        engines[qual] = eng
        for o in obls:
            if o.props is None or prop in o.props:
                all_obls.append(o)
    vcgen_s = time.time() - t0
    _tm = lambda what: os.environ.get('VERIF_TIMING') and print(f'  [timing] {what}: {time.time() - t0:.1f}s', flush=True)   # noqa: E731
    _tm('vcgen')
    discharge.discharge(all_obls, timeout_ms=timeout_s * 1000, second_solver=(tier == "thorough"))
    # frame / effect obligations (modular effect analysis over the same ASTs, DESIGN.md 1.6)
    _tm('discharge')
    if spec.get("effects"):
        from . import effects
        an = effects.Analysis()
        eobls = effects.c06_obligations(an) if spec["effects"] == "C06" else effects.c14_obligations(an)
        for o in eobls:
            if spec.get("effects_oracle"):
                o.func = spec["effects_oracle"]
        all_obls += eobls
    if spec.get("wiring"):
        from . import cliwiring
        wobls, _opts = cliwiring.obligations()
        all_obls += wobls
    if spec.get("wiring_gamma"):
        from . import gammawiring
        all_obls += gammawiring.compute_gamma_obligations() if spec["wiring_gamma"] == "C05" else gammawiring.gamma_k_obligations()
    if spec.get("wiring_fast"):
        from . import fastwiring
        all_obls += fastwiring.obligations()
    if spec.get("lawtags"):
        from . import lawtags
        all_obls += lawtags.obligations()
    if os.environ.get("VERIF_SAVE_LADDER_HINTS"):
        discharge.save_hints(all_obls)
    # vacuity: no reachability point may have contradictory hypotheses
    canaries = [(n, h) for e in engines.values() for (n, h) in e.canary_points]
    can = discharge.check_sat([h for _, h in canaries], 2000 if tier == "quick" else 10000)
    vacuous = [n for (n, _), r in zip(canaries, can) if r == "unsat"]
    _tm('canaries')
    discharge.close()

    violations, undecided, known_seen, lines = [], [], [], []
    failed = [o for o in all_obls if o.verdict != "discharged"]
    # known findings: an obligation listed in known_findings.json is reported as KNOWN-FINDING, not as a violation
    def known_for(name):
        for k in known:
            if k.get("obligation") and k["obligation"] in name:
                return k
        return None
    hunted = {}
    for o in failed:
        k = known_for(o.name)
        if k is not None:
            known_seen.append({"obligation": o.name, "what": k["what"]})
            continue
        qual = o.func
        if qual not in hunted:
            hunted[qual] = hunt(qual, prop, seed, tier, o.name, f"{o.verdict}: {o.detail}")
            # no executable contract for this function (or nothing found): try the property-level oracles
            for alt in spec.get("oracles", []):
                if hunted[qual][0] == "found":
                    break
                if alt != qual:
                    hunted[qual] = hunt(alt, prop, seed, tier, o.name, f"{o.verdict}: {o.detail}")
        status, path, text = hunted[qual]
        if status == "found":
            violations.append((o.name, path, True))
        elif o.verdict in ("refuted", "solver-disagreement"):
            violations.append((o.name, write_unreplayed(prop, qual, o.name, o, text), False))
        else:
            undecided.append((o.name, f"{o.detail} | hunt: {status}"))
    for qual, (kind, msg) in fn_errors.items():
        k = known_for(qual.partition("::")[2])
        if k is not None:
            known_seen.append({"obligation": qual, "what": k["what"]})
            continue
        status, path, text = hunt(qual, prop, seed, tier, f"{qual.partition('::')[2]}/{kind}", msg)
        for alt in spec.get("oracles", []):
            if status == "found":
                break
            if alt != qual:
                status, path, text = hunt(alt, prop, seed, tier, f"{qual.partition('::')[2]}/{kind}", msg)
        if status == "found":
            violations.append((f"{qual.partition('::')[2]}/{kind}", path, True))
        else:
            undecided.append((f"{qual.partition('::')[2]}/{kind}", f"{msg} | hunt: {status}"))
    # bounded stand-ins (labelled bounded, never counted as proved): functions of the cone that are not within the
    # verifier's reach are exercised on the real code with their executable contract, on every run
    standins = []
    import re as _re
    for b in spec.get("bounded", []):
        status, path, text = hunt(b["oracle"], prop, seed, tier, "bounded:" + b["oracle"].partition("::")[2], b["what"])
        if tier == "thorough":
            # deeper exploration: two more seeds of the generated part of each stand-in
            for extra in (seed + 1, seed + 2):
                if status != "none":
                    break
                st2, path2, text2 = hunt(b["oracle"], prop, extra, tier, "bounded:" + b["oracle"].partition("::")[2], b["what"])
                m1, m2 = _re.search(r"in (\d+) cases", text or ""), _re.search(r"in (\d+) cases", text2 or "")
                if st2 == "none" and m1 and m2:
                    text = (text or "").replace(m1.group(0), f"in {int(m1.group(1)) + int(m2.group(1))} cases")
                else:
                    status, path, text = st2, path2, text2
        for line in (text or "").split("\n"):
            if line.startswith("KNOWN-FINDING-HIT "):
                h = json.loads(line[len("KNOWN-FINDING-HIT "):])
                known_seen.append({"obligation": "bounded:" + b["oracle"].partition("::")[2], "what": h["what"],
                                   "reproduced_on_real_code": h["count"], "example": h["example"]})
        m = _re.search(r"in (\d+) cases", text or "")
        standins.append({"function": b["oracle"].partition("::")[2], "what": b["what"], "status": status,
                         "cases": int(m.group(1)) if m else None, "label": "bounded (not a proof)"})
        if status == "found":
            violations.append(("bounded:" + b["oracle"].partition("::")[2], path, True))
        elif status != "none":
            undecided.append(("bounded:" + b["oracle"].partition("::")[2], f"stand-in did not run: {status} {text[-300:]}"))
    _tm('hunt+standins')
    for n in vacuous:
        undecided.append((n, "vacuous: hypotheses at this reachability point are contradictory"))
    if not all_obls and not fn_errors:
        undecided.append((prop, "zero obligations generated"))

    n_dis = sum(o.verdict == "discharged" for o in all_obls)
    backends = {}
    for o in all_obls:
        if o.verdict == "discharged":
            backends[o.backend] = backends.get(o.backend, 0) + 1
    trusted = list(spec.get("trusted", []))
    for e in engines.values():
        for m in sorted(e.used_models):
            if m not in trusted:
                trusted.append(m)
    sensitivity = sensitivity_selftest(prop, seed) if tier == "thorough" and not os.environ.get("VERIF_IN_SELFTEST") else None
    evidence = {
        "property_id": prop, "tier": tier, "seed": seed, "level": "proof",
        "wall_s": round(time.time() - t0, 2), "violations": len(violations),
        "coverage": {
            "obligations": len(all_obls), "discharged": n_dis,
            "checker_cmd": f"python3-vt -m pyvc.check {prop} --tier {tier}",
            "trusted_base": trusted,
            "functions_under_contract": [extract.describe(q) for q in spec["functions"] if q not in fn_errors],
            "functions_not_verified": [{"function": q, "why": f"{k}: {m}"} for q, (k, m) in fn_errors.items()],
            "backends": backends, "solver_s": round(sum(o.seconds for o in all_obls), 2), "vcgen_s": round(vcgen_s, 2),
            "by_kind": {k: sum(1 for o in all_obls if o.kind == k) for k in sorted({o.kind for o in all_obls})},
            "obligation_list": [{"name": o.name, "kind": o.kind, "verdict": o.verdict, "backend": o.backend,
                                 "seconds": round(o.seconds, 3)} for o in all_obls],
            "samples": [{"obligation": o.name, "clause": o.clause, "verdict": o.verdict, "backend": o.backend,
                         "seconds": round(o.seconds, 3)} for o in all_obls if o.kind in ("post", "inv_preserved", "lemma")][:12],
            "vacuity": {"reachability_points": len(canaries), "contradictory": vacuous,
                        "verdicts": {r: can.count(r) for r in sorted(set(can))}},
            "second_solver": ({"rechecked": sum(1 for o in all_obls if hasattr(o, "second")),
                               "agree": sum(1 for o in all_obls if getattr(o, "second", None) == "unsat")}
                              if tier == "thorough" else None),
            "bounded_standins": standins,
            "sensitivity_selftest": sensitivity,
            "not_decided": spec.get("not_decided", []),
            "known_findings_seen": known_seen,
            "undecided": [{"obligation": n, "why": w[:500]} for n, w in undecided],
            "design_ref": spec.get("design_ref", ""),
        },
        "assumptions": trusted + ["lemmas proved by induction are proved once per function from its axioms and requires "
                                  "and assumed at call sites after the callee's requires were discharged"],
    }
    evdir = os.environ.get("VERIF_EVIDENCE_DIR") or os.path.join(ROOT, "evidence")     # (development runs on mutated trees write elsewhere)
    os.makedirs(evdir, exist_ok=True)
    json.dump(evidence, open(os.path.join(evdir, f"{prop}.json"), "w"), indent=1)
    for k in known_seen:
        print(f"KNOWN-FINDING: property={prop} {k['what']} [{k['obligation']}]")
    print(f"{prop}: {n_dis}/{len(all_obls)} obligations discharged over {len(engines)} functions "
          f"({len(fn_errors)} not verified), {len(violations)} violations, {len(undecided)} undecided, "
          f"{time.time() - t0:.1f}s")
    for name, why in undecided:
        print(f"UNDECIDED {name}: {why[:300]}")
    for name, path, reproduced in violations:
        print(f"  failed obligation: {name}")
        print(f"VIOLATION property={prop} replay={path}" + ("" if reproduced else " no-failing-input-found"))
    if violations:
        return 1
    if undecided:
        return 2
    return 0


def selfcheck():
    import z3
    ok = True
    print("z3 python", z3.get_version_string())
    for cmd in (["/usr/bin/z3", "--version"], ["/usr/bin/cvc5", "--version"], [VENV_PY, "--version"]):
        try:
            out = subprocess.run(cmd, capture_output=True, text=True, timeout=60).stdout.strip().split("\n")[0]
            print(" ".join(cmd), "->", out)
        except Exception as e:   # noqa
            print("MISSING", cmd, e)
            ok = False
    load_contracts()
    print(len(REGISTRY), "contracts loaded;", "repo:", extract.REPO)
    for q in REGISTRY:
        if not REGISTRY[q].trusted:
            extract.find_function(q)
    x = z3.Int("x")
    s = z3.Solver()
    s.add(x > 0, x < 0)
    assert s.check() == z3.unsat
    return 0 if ok else 3


def sensitivity_selftest(prop, seed):
    """thorough tier: does the machinery still notice the property-breaking changes kept under seeded/?  Each kept change of this property
    is applied to a scratch copy of the CURRENT source (skipped when its patch no longer applies) and the quick check is run against that
    copy; a change that is not reported is printed as SELFTEST-MISSED.  This tests the checker, not the repository: it never produces a
    VIOLATION line and never changes the exit code."""
    import glob
    import shutil
    import tempfile
    out = []
    for meta in sorted(glob.glob(os.path.join(ROOT, "seeded", "*", "meta.json"))):
        m = json.load(open(meta))
        if m.get("breaks_property") != prop:
            continue
        patch = os.path.join(os.path.dirname(meta), "patch.diff")
        d = tempfile.mkdtemp(prefix="pgverif-selftest-")
        try:
            shutil.copytree(os.path.join(extract.REPO, "pygamma_agreement"), os.path.join(d, "pygamma_agreement"),
                            ignore=shutil.ignore_patterns("__pycache__"))
            ok = subprocess.run(["patch", "-p1", "-s", "-f", "-d", d, "-i", patch], capture_output=True, text=True)
            if ok.returncode != 0:
                out.append({"seed": m["seed"], "result": "patch does not apply to the current source: skipped"})
                continue
            env = {**os.environ, "VERIF_REPO": d, "VERIF_EVIDENCE_DIR": os.path.join(d, "evidence"), "VERIF_IN_SELFTEST": "1",
                   "VERIF_TIER": "quick", "VERIF_NO_SECOND_CHANCE": "1"}    # (no retry of open obligations: the copy is expected to fail)
            p = subprocess.run([sys.executable, "-m", "pyvc.check", prop, "--tier", "quick"], cwd=ROOT, env=env, capture_output=True, text=True,
                               timeout=3600)
            failed = [ln.strip()[len("failed obligation: "):] for ln in p.stdout.split("\n") if ln.strip().startswith("failed obligation:")]
            res = "detected" if p.returncode == 1 else f"MISSED (exit {p.returncode})"
            out.append({"seed": m["seed"], "result": res, "failed_obligations": failed[:6]})
            print(f"SELFTEST seed={m['seed']} {res}" + (f" by {failed[0]}" if failed else ""))
            if p.returncode != 1:
                print(f"SELFTEST-MISSED seed={m['seed']}: the kept change is no longer reported (a weakness of the checker, not a property violation)")
        finally:
            shutil.rmtree(d, ignore_errors=True)
    return out


def main():
    ap = argparse.ArgumentParser()
    ap.add_argument("prop", nargs="?")
    ap.add_argument("--fn")
    ap.add_argument("--tier", default=os.environ.get("VERIF_TIER", "quick"))
    ap.add_argument("--selfcheck", action="store_true")
    ap.add_argument("--timeout", type=int, default=None)
    a = ap.parse_args()
    seed = int(os.environ.get("VERIF_SEED", "0"))
    try:
        if a.selfcheck:
            return selfcheck()
        if a.fn:
            load_contracts()
            for q in [q for q in REGISTRY if a.fn in q]:
                run_function(q, (a.timeout or 60) * 1000)
            discharge.close()
            return 0
        if a.prop:
            return check_property(a.prop, a.tier, seed, a.timeout or (60 if a.tier == "quick" else 300))
        ap.print_help()
        return 3
    except Exception:   # noqa
        traceback.print_exc()
        discharge.close()
        return 3


if __name__ == "__main__":
    sys.exit(main())
