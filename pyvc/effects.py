"""Frame / effect checker (DESIGN.md 1.6): a small modular analysis over the real ASTs of the package.

Direct effects of every function body (calls into np.random / random, iteration over builtin sets, I/O, stores through
parameters / non-fresh objects, writes to module state) are propagated over a conservative call graph (a method call x.m(..)
may reach every method named m in the package; an attribute load x.p may run every @property named p) to a fixpoint.
The obligations of C06 / C14 are predicates over these summaries; each is reported by name with the witness call chain.
The analysis over-approximates (name-based dispatch), so a discharged obligation is a sufficient condition; it never executes code."""
import ast
import os

from . import extract

PKG = "pygamma_agreement"
MODULES = ["continuum.py", "alignment.py", "dissimilarity.py", "sampler.py", "cst.py", "numba_utils.py"]
MUTATORS = {"append", "pop", "add", "remove", "extend", "clear", "insert", "discard", "update", "sort", "setdefault", "popitem"}
# constructors / calls whose result is a fresh object not aliasing any argument (besides package classes, found mechanically)
FRESH_CALLS = {"list", "set", "dict", "SortedSet", "SortedDict", "Counter", "deepcopy", "sorted", "tuple", "np.array", "np.empty",
               "np.zeros", "np.ones", "np.arange", "nb.typed.List", "Segment", "Unit", "Path", "str", "float", "int", "abs", "len",
               "min", "max", "sum", "range", "enumerate", "zip", "iter", "filter", "map", "cp.Variable", "cp.Problem", "cp.Minimize",
               "np.where", "np.sum", "np.mean", "np.std", "np.ceil", "np.log2", "np.argmin", "np.argsort", "np.unique", "np.eye",
               "np.float32", "np.average", "np.max", "np.abs", "isinstance", "next", "reversed", "ThreadPoolExecutor"}
# methods returning a fresh object (checked against the contracts where one exists: ensures fresh_obj(result))
FRESH_METHODS = {"copy", "copy_flush", "merge", "get_best_alignment", "get_best_soft_alignment", "get_fast_alignment",
                 "corpus_from_reference", "corpus_shuffle", "submit", "result", "values", "items", "keys", "fresh",
                 "_build_arrays_continuum", "_build_arrays_alignment", "valid_alignments", "compute_disorder", "astype",
                 "get_first_window", "peekitem", "take_until_limit", "iter_annotator", "iterunits", "itertracks"}
# properties returning a fresh object
FRESH_PROPS = {"annotators", "sample_from_continuum", "bounds", "num_units", "n_tuple", "category_weights", "disorder",
               "avg_num_annotations_per_annotator", "avg_length_unit", "nb_units", "shape", "T", "value", "segment", "annotation",
               "start", "end", "duration"}


class Fn:
    def __init__(self, qual, node, cls, module):
        self.qual, self.node, self.cls, self.module = qual, node, cls, module
        self.params = [a.arg for a in node.args.args]
        self.is_property = any(ast.unparse(d) == "property" for d in node.decorator_list)
        self.is_static = any(ast.unparse(d) == "staticmethod" for d in node.decorator_list)
        self.direct = {}        # effect -> witness text
        self.param_writes = {}  # param index -> witness
        self.calls = []         # (kind, name, arg nodes, recv node, lineno)
        self.summary = None


class Analysis:
    def __init__(self):
        self.fns = {}
        self.by_name = {}
        self.props = {}
        self.classes = {}
        for m in MODULES:
            tree, _ = extract.module_tree(os.path.join(PKG, m))
            self.collect(tree, m)
        for f in self.fns.values():
            self.direct_effects(f)
        self.fixpoint()

    # ---------------------------------------------------------------------------------- collection
    def collect(self, tree, module):
        def add(node, cls, prefix):
            q = f"{module}::{prefix}{node.name}"
            k = 1
            while q in self.fns:          # property getter / setter pairs
                k += 1
                q = f"{module}::{prefix}{node.name}@{k}"
            f = Fn(q, node, cls, module)
            self.fns[q] = f
            self.by_name.setdefault(node.name, []).append(f)
            if f.is_property:
                self.props.setdefault(node.name, []).append(f)
            for inner in ast.walk(node):
                if inner is not node and isinstance(inner, ast.FunctionDef):
                    qi = f"{q}.<locals>.{inner.name}"
                    if qi not in self.fns:
                        fi = Fn(qi, inner, cls, module)
                        self.fns[qi] = fi
        for n in tree.body:
            if isinstance(n, ast.FunctionDef):
                add(n, None, "")
            elif isinstance(n, ast.ClassDef):
                self.classes[n.name] = [ast.unparse(b).split(".")[-1] for b in n.bases]
                for c in n.body:
                    if isinstance(c, ast.FunctionDef):
                        add(c, n.name, n.name + ".")

    # ---------------------------------------------------------------------------------- direct effects
    def direct_effects(self, f):
        node = f.node
        fresh = set()           # local names bound to fresh objects
        params = {p: i for i, p in enumerate(f.params)}
        nested = {id(x) for n in ast.walk(node) if n is not node and isinstance(n, (ast.FunctionDef, ast.Lambda)) for x in ast.walk(n)}

        def base_name(e):
            while isinstance(e, (ast.Attribute, ast.Subscript, ast.Call)):
                e = e.func if isinstance(e, ast.Call) else e.value
            return e.id if isinstance(e, ast.Name) else None

        def is_fresh_expr(e):
            if isinstance(e, (ast.Constant, ast.List, ast.Dict, ast.Set, ast.ListComp, ast.SetComp, ast.DictComp, ast.GeneratorExp,
                              ast.Tuple, ast.BinOp, ast.Compare, ast.JoinedStr, ast.UnaryOp, ast.BoolOp, ast.IfExp, ast.Lambda)):
                return True
            if isinstance(e, ast.Call):
                name = ast.unparse(e.func)
                if name in FRESH_CALLS or name.split(".")[-1] in self.classes or name.startswith(("np.random.", "numpy.random.", "random.")):
                    return True
                if isinstance(e.func, ast.Attribute) and e.func.attr in FRESH_METHODS:
                    return True
                if isinstance(e.func, ast.Name) and e.func.id in self.by_name:
                    return True       # module-level package functions return new values (jobs, kernels)
                return False
            if isinstance(e, ast.Attribute):
                return e.attr in FRESH_PROPS
            if isinstance(e, ast.Subscript):
                b = base_name(e)
                return b in fresh
            if isinstance(e, ast.Name):
                return e.id in fresh
            return False

        def note_write(target, why):
            b = base_name(target)
            if b is None:
                f.direct.setdefault("nonlocal_write", why)
            elif b in fresh:
                return
            elif b in params:
                f.param_writes.setdefault(params[b], why)
            elif isinstance(target, ast.Name):
                return
            else:
                f.direct.setdefault("nonlocal_write", why)

        # first pass: which locals are fresh (assigned only from fresh expressions); iterate to a small fixpoint
        assigns = {}
        for n in ast.walk(node):
            if id(n) in nested:
                continue
            if isinstance(n, ast.Assign):
                for t in n.targets:
                    tl = t.elts if isinstance(t, ast.Tuple) else [t]
                    vl = n.value.elts if isinstance(t, ast.Tuple) and isinstance(n.value, ast.Tuple) and len(n.value.elts) == len(tl) else None
                    for k, x in enumerate(tl):
                        if isinstance(x, ast.Name):
                            assigns.setdefault(x.id, []).append(vl[k] if vl else n.value)
            elif isinstance(n, (ast.For, ast.comprehension)):
                for x in ast.walk(n.target):
                    if isinstance(x, ast.Name):
                        assigns.setdefault(x.id, []).append(ast.Subscript(value=n.iter, slice=ast.Constant(0), ctx=ast.Load()))
            elif isinstance(n, ast.With):
                for it in n.items:
                    if isinstance(it.optional_vars, ast.Name):
                        assigns.setdefault(it.optional_vars.id, []).append(it.context_expr)
        changed = True
        while changed:
            changed = False
            for name, vals in assigns.items():
                if name in fresh or name in params:
                    continue
                if all(is_fresh_expr(v) or (isinstance(v, ast.Subscript) and (is_fresh_expr(v.value) or base_name(v.value) in fresh
                                                                               or base_name(v.value) == name))
                       or (isinstance(v, ast.Name) and v.id == name)
                       for v in vals):
                    fresh.add(name)
                    changed = True
        f.fresh = fresh

        fmt_only = set()
        for n in ast.walk(node):
            if isinstance(n, (ast.GeneratorExp, ast.ListComp)) and isinstance(n.elt, ast.JoinedStr):
                for g_ in n.generators:
                    fmt_only.add(id(g_))
        for n in ast.walk(node):
            if id(n) in nested:
                continue
            line = getattr(n, "lineno", 0)
            if isinstance(n, (ast.Assign, ast.AugAssign, ast.AnnAssign)):
                targets = n.targets if isinstance(n, ast.Assign) else [n.target]
                for t in targets:
                    for x in (t.elts if isinstance(t, ast.Tuple) else [t]):
                        if isinstance(x, (ast.Attribute, ast.Subscript)):
                            note_write(x, f"{ast.unparse(x)} = ... (line {line})")
            elif isinstance(n, ast.Global):
                f.direct.setdefault("global_write", f"global {n.names} (line {line})")
            elif isinstance(n, ast.Call):
                name = ast.unparse(n.func)
                if name.startswith(("np.random.", "numpy.random.")):
                    f.direct.setdefault("rng_np", f"{name} (line {line})")
                elif name.startswith("random."):
                    f.direct.setdefault("rng_std", f"{name} (line {line})")
                elif name in ("open", "print", "time.time") or name.startswith(("csv.", "json.", "logging.")):
                    f.direct.setdefault("io", f"{name} (line {line})")
                elif name in ("hash", "id"):
                    f.direct.setdefault("hash_order", f"{name}() (line {line})")
                if isinstance(n.func, ast.Attribute) and isinstance(n.func.value, ast.Call) and ast.unparse(n.func.value) == "super()":
                    f.calls.append(("super", n.func.attr, n.args, ast.Name(id="self", ctx=ast.Load()), line))
                elif isinstance(n.func, ast.Attribute):
                    recv = n.func.value
                    if n.func.attr in MUTATORS:
                        note_write(recv, f"{ast.unparse(n.func)}(...) (line {line})")
                    f.calls.append(("method", n.func.attr, n.args, recv, line))
                elif isinstance(n.func, ast.Name):
                    if n.func.id in self.classes:
                        f.calls.append(("ctor", n.func.id, n.args, None, line))
                    else:
                        f.calls.append(("func", n.func.id, n.args, None, line))
            elif isinstance(n, ast.Attribute) and isinstance(n.ctx, ast.Load) and n.attr in self.props:
                f.calls.append(("prop", n.attr, [], n.value, line))
            elif isinstance(n, (ast.For, ast.comprehension)):
                it = n.iter
                if isinstance(n, ast.comprehension) and id(n) in fmt_only:
                    continue          # ', '.join(f"..." for x in s): only orders the text of a message
                # iteration over a builtin set (hash order of str elements depends on PYTHONHASHSEED)
                src = assigns.get(it.id, []) if isinstance(it, ast.Name) else [it]
                for v in src:
                    if isinstance(v, (ast.Set, ast.SetComp)) or (isinstance(v, ast.Call) and ast.unparse(v.func) in ("set", "frozenset")) \
                            or (isinstance(v, ast.BinOp) and isinstance(v.op, ast.Sub) and any(
                                isinstance(s_, ast.Call) and ast.unparse(s_.func) == "set" for s_ in (v.left, v.right))):
                        f.direct.setdefault("hash_order", f"iteration over a builtin set {ast.unparse(it)} (line {line})")

    # ---------------------------------------------------------------------------------- call graph + fixpoint
    def targets(self, f, kind, name):
        if kind == "func":
            return [g for g in self.by_name.get(name, []) if g.cls is None]
        if kind == "ctor":
            out, todo = [], [name]
            while todo:               # the first __init__ found up the hierarchy
                c = todo.pop(0)
                found = [g for g in self.by_name.get("__init__", []) if g.cls == c]
                if found:
                    out += found
                else:
                    todo += self.classes.get(c, [])
            return out
        if kind == "prop":
            return list(self.props.get(name, []))
        if kind == "super":
            out, todo = [], list(self.classes.get(f.cls, []))
            while todo:
                c = todo.pop(0)
                found = [g for g in self.by_name.get(name, []) if g.cls == c]
                if found:
                    out += found
                else:
                    todo += self.classes.get(c, [])
            return out
        return [g for g in self.by_name.get(name, []) if g.cls is not None and not g.is_property]

    def fixpoint(self):
        for f in self.fns.values():
            f.summary = {"effects": dict(f.direct), "param_writes": dict(f.param_writes)}
        changed = True
        while changed:
            changed = False
            for f in self.fns.values():
                params = {p: i for i, p in enumerate(f.params)}
                for (kind, name, args, recv, line) in f.calls:
                    for g in self.targets(f, kind, name):
                        for eff, why in g.summary["effects"].items():
                            if eff not in f.summary["effects"]:
                                f.summary["effects"][eff] = f"line {line}: {name} -> {g.qual.partition('::')[2]}: {why}"
                                changed = True
                        # parameters written by the callee, mapped back through the actual arguments
                        actuals = ([recv] if kind in ("method", "prop", "super") and not g.is_static else []) + list(args)
                        if kind == "ctor":
                            actuals = [None] + list(args)        # self of a constructor is the new object
                        for idx, why in g.summary["param_writes"].items():
                            if idx >= len(actuals) or actuals[idx] is None:
                                continue
                            a = actuals[idx]
                            while isinstance(a, ast.Starred):
                                a = a.value
                            b = a
                            while isinstance(b, (ast.Attribute, ast.Subscript)):
                                b = b.value
                            if isinstance(a, ast.Call) or (isinstance(a, ast.Attribute) and a.attr in FRESH_PROPS):
                                continue
                            w = f"line {line}: {name} -> {g.qual.partition('::')[2]}: {why}"
                            if isinstance(b, ast.Name):
                                if b.id in f.fresh:
                                    continue
                                if b.id in params:
                                    if params[b.id] not in f.summary["param_writes"]:
                                        f.summary["param_writes"][params[b.id]] = w
                                        changed = True
                                    continue
                                if isinstance(a, ast.Name):
                                    continue      # a local that is neither fresh nor a parameter: bound from a callee's result
                            if "nonlocal_write" not in f.summary["effects"]:
                                f.summary["effects"]["nonlocal_write"] = w
                                changed = True

    def find(self, name):
        """functions whose dotted name ends with `name`"""
        return [f for q, f in self.fns.items() if q.partition("::")[2] == name or q.partition("::")[2].endswith("." + name)]


# ------------------------------------------------------------------------------------------ obligations
class EffectObligation:
    def __init__(self, name, ok, clause, detail):
        self.name, self.kind, self.clause, self.props = name, "effects", clause, None
        self.verdict = "discharged" if ok else "refuted"
        self.backend = "effects"
        self.seconds = 0.0
        self.detail = detail
        self.func = "pygamma_agreement/continuum.py::Continuum.compute_gamma"
        self.line = None


JOBS = ["_compute_best_alignment_job", "_compute_fast_alignment_job", "_compute_soft_alignment_job", "_compute_gamma_k_job"]
ENTRY_C06 = ["Continuum.compute_gamma", "GammaResults.gamma_cat", "GammaResults.gamma_k", "GammaResults.gamma"]


def submitted_functions(an):
    """first arguments of every `.submit(f, ...)` in the package, resolved through local assignments `job = f`"""
    out = {}
    for f in an.fns.values():
        assigned = {}
        for n in ast.walk(f.node):
            if isinstance(n, ast.Assign) and len(n.targets) == 1 and isinstance(n.targets[0], ast.Name) and isinstance(n.value, ast.Name):
                assigned.setdefault(n.targets[0].id, set()).add(n.value.id)
        for n in ast.walk(f.node):
            if isinstance(n, ast.Call) and isinstance(n.func, ast.Attribute) and n.func.attr == "submit" and n.args:
                a = n.args[0]
                names = assigned.get(a.id, {a.id}) if isinstance(a, ast.Name) else {ast.unparse(a)}
                for nm in names:
                    out.setdefault(nm, []).append(f"{f.qual.partition('::')[2]} line {n.lineno}")
    return out


def c06_obligations(an):
    obls = []
    sub = submitted_functions(an)
    # R1: everything handed to an executor is one of the module-level job functions; none of them consumes an RNG or
    #     writes anything but objects it allocated (its own parameters included: d, self and the sample are read-only)
    unknown = [n for n in sub if n not in JOBS]
    obls.append(EffectObligation("C06/R1/submitted-callables-are-the-job-functions", not unknown,
                                 "every callable passed to ThreadPoolExecutor.submit is one of the four module-level job functions",
                                 f"submitted: {sub}"))
    for j in JOBS:
        fs = an.find(j)
        if not fs:
            obls.append(EffectObligation(f"C06/R1/{j}/exists", False, "job function exists", "not found"))
            continue
        s = fs[0].summary
        for eff in ("rng_np", "rng_std", "hash_order", "global_write", "nonlocal_write"):
            obls.append(EffectObligation(f"C06/R1/{j}/no-{eff}", eff not in s["effects"],
                                         f"{j} and everything it may call has no {eff} effect", s["effects"].get(eff, "")))
        obls.append(EffectObligation(f"C06/R1/{j}/parameters-read-only", not s["param_writes"],
                                     f"{j} writes none of its parameters (dissimilarity, continuum / alignment, category)",
                                     str(s["param_writes"])))
    # R2: inside compute_gamma the RNG-consuming expressions are evaluated in the submitting thread: as arguments of submit or
    #     outside any submit call, never inside the submitted callable (covered by R1) - and the sampler draw is an argument
    for cg in an.find("Continuum.compute_gamma"):
        ok, detail = True, []
        for n in ast.walk(cg.node):
            if isinstance(n, ast.Call) and isinstance(n.func, ast.Attribute) and n.func.attr == "submit":
                fn_arg = n.args[0] if n.args else None
                for x in ast.walk(fn_arg) if fn_arg is not None else []:
                    if isinstance(x, ast.Attribute) and x.attr == "sample_from_continuum":
                        ok = False
                        detail.append(f"line {n.lineno}: the sampler is part of the submitted callable")
                rest = [a for a in n.args[1:]]
                draws = [x for a in rest for x in ast.walk(a) if isinstance(x, ast.Attribute) and x.attr == "sample_from_continuum"]
                detail.append(f"line {n.lineno}: {len(draws)} sampler draw(s) evaluated as submit argument(s)")
        obls.append(EffectObligation("C06/R2/draws-in-submitting-thread", ok,
                                     "sampler.sample_from_continuum is evaluated by the submitting thread (an argument of submit), "
                                     "in program order", "; ".join(detail)))
    # R3: results are collected in submission order: no as_completed / wait anywhere in the package
    bad = []
    for m in MODULES:
        tree, src = extract.module_tree(os.path.join(PKG, m))
        for n in ast.walk(tree):
            if isinstance(n, (ast.Name, ast.Attribute)) and (getattr(n, "id", None) or getattr(n, "attr", None)) in (
                    "as_completed", "wait", "add_done_callback", "ProcessPoolExecutor", "imap_unordered"):
                bad.append(f"{m}:{n.lineno}")
    obls.append(EffectObligation("C06/R3/results-in-submission-order", not bad,
                                 "futures are only consumed through .result() in the order they were submitted "
                                 "(no as_completed / wait / callbacks)", str(bad)))
    # R4: nothing reachable from the gamma entry points iterates over a builtin set / hashes; check_if_dissim uses only `random`
    for e in ENTRY_C06:
        for f in an.find(e):
            s = f.summary
            obls.append(EffectObligation(f"C06/R4/{e}/no-hash-order", "hash_order" not in s["effects"],
                                         f"{e}: no iteration over a builtin set / hash() is reachable", s["effects"].get("hash_order", "")))
            obls.append(EffectObligation(f"C06/R5/{e}/no-module-state", "global_write" not in s["effects"],
                                         f"{e}: no module-level state is written", s["effects"].get("global_write", "")))
    for f in an.find("AbstractDissimilarity.check_if_dissim"):
        obls.append(EffectObligation("C06/R4/check_if_dissim/numpy-rng-untouched", "rng_np" not in f.summary["effects"],
                                     "check_if_dissim (run by every dissimilarity constructor) never consumes the NumPy global RNG",
                                     f.summary["effects"].get("rng_np", "")))
    # the only draws from the NumPy RNG on the gamma path are the samplers'
    for f in an.find("Continuum.compute_gamma"):
        w = f.summary["effects"].get("rng_np", "")
        obls.append(EffectObligation("C06/R2/rng-only-through-the-sampler", ("sample_from_continuum" in w) or not w,
                                     "compute_gamma consumes the NumPy RNG only through sampler.sample_from_continuum / init_sampling",
                                     w))
    return obls


READ_ONLY_C14 = {   # entry point -> parameter indices that must not be written (0 = self)
    "Continuum.get_best_alignment": [0, 1], "Continuum.get_best_soft_alignment": [0, 1], "Continuum.get_fast_alignment": [0, 1],
    "Continuum.get_first_window": [0, 1], "Continuum.copy": [0], "Continuum.copy_flush": [0], "Continuum.to_csv": [0],
    "Continuum.__getitem__": [0], "AbstractDissimilarity.valid_alignments": [0, 1], "AbstractDissimilarity.compute_disorder": [0],
    "Alignment.gamma_k_disorder": [0, 1], "Alignment.check": [0, 1], "SoftAlignment.check": [0, 1],
    "GammaResults.gamma_cat": [0], "GammaResults.gamma_k": [0],
    "AbstractContinuumSampler.init_sampling": [1], "StatisticalContinuumSampler.init_sampling": [1],
    "ShuffleContinuumSampler.init_sampling": [1], "CorpusShufflingTool.__init__": [2],
    "PositionalSporadicDissimilarity.d": [0, 1, 2], "CombinedCategoricalDissimilarity.d": [0, 1, 2],
}


def c14_obligations(an):
    obls = []
    for name, idxs in READ_ONLY_C14.items():
        for f in an.find(name):
            for i in idxs:
                pname = f.params[i] if i < len(f.params) else f"#{i}"
                w = f.summary["param_writes"].get(i)
                obls.append(EffectObligation(f"C14/frame/{name}/{pname}-read-only", w is None,
                                             f"{name} (and everything it may call) never writes through its parameter `{pname}`", w or ""))
            obls.append(EffectObligation(f"C14/frame/{name}/no-nonlocal-write", "nonlocal_write" not in f.summary["effects"],
                                         f"{name}: no write through an object that is neither fresh nor a parameter",
                                         f.summary["effects"].get("nonlocal_write", "")))
    # compute_gamma may write self only through measure_best_window_size (documented exception: best_window_size when fast)
    for f in an.find("Continuum.compute_gamma"):
        w = f.summary["param_writes"].get(0, "")
        obls.append(EffectObligation("C14/frame/Continuum.compute_gamma/self-only-best_window_size",
                                     (not w) or "measure_best_window_size" in w,
                                     "compute_gamma writes its continuum only through measure_best_window_size (best_window_size, fast mode)", w))
        for i in (1,):
            obls.append(EffectObligation("C14/frame/Continuum.compute_gamma/dissimilarity-read-only",
                                         f.summary["param_writes"].get(i) is None,
                                         "compute_gamma never writes through its dissimilarity", f.summary["param_writes"].get(i, "") or ""))
    for f in an.find("Continuum.measure_best_window_size"):
        w = {k: v for k, v in f.param_writes.items()}
        only = all("best_window_size" in v for v in w.values())
        obls.append(EffectObligation("C14/frame/measure_best_window_size/writes-only-best_window_size", only,
                                     "measure_best_window_size stores only self.best_window_size", str(w)))
    return obls
