"""Tier B: heap objects with concrete identity, the Unit datatype, and the abstract models of the sorted containers
(sortedcontainers.SortedSet / SortedDict) the Continuum is made of.   DESIGN.md 1.5 (heap), 1.8 (models).

MapOfSets  = SortedDict[annotator -> SortedSet[Unit]]   {keys, U, cnt, useq, uidx, nkeys, kseq, kidx}
SetUnit    = SortedSet[Unit]  (standalone)              {mem, n, seq, idx}
SetStr     = SortedSet[str]                             {mem, n, seq, idx}
(seq/idx/n are the ghost enumeration: strictly increasing w.r.t. the element order, onto the members.)

Model precondition, NOT assumed for Unit: the element order must be a strict total order consistent with ==
(obligation `unit_order` on Unit.__lt__, property C13).  Strings are real codes with the order of the reals."""
import ast
import z3
from fractions import Fraction

from . import vals as V
from .vals import Val, Ref, Rec, Opt, Tup, SList, Lifted, Arr, PyConst, NONE, NoneV, EngineError, I, R, B, Func
from .engine import Engine, State, Outcome, is_num, is_int, is_real, is_bool, is_z3, to_real, SeqIter, zmax, zmin
from .contract import T, Clause, as_clause, SORTS, REGISTRY
from . import extract

TRUSTED_SC = ("model:sortedcontainers SortedSet/SortedDict = finite set/map + strictly increasing enumeration "
              "(add no-op on an equal element, remove raises KeyError iff absent, index raises ValueError iff absent, "
              "pop(i), peekitem(i), issuperset, iteration in order)")
TRUSTED_DEEPCOPY = "model:copy.deepcopy = fresh structurally equal object, mutable parts disjoint"

# ------------------------------------------------------------------------------------------ Unit datatype
UnitDT = z3.Datatype("Unit")
UnitDT.declare("mk", ("s", R), ("e", R), ("haslab", B), ("lab", R))
UnitDT = UnitDT.create()
USET = z3.ArraySort(UnitDT, B)
SORTS.update({"Unit": UnitDT, "USet": USET, "RUSet": z3.ArraySort(R, USET), "RInt": z3.ArraySort(R, I),
              "AUnit": z3.ArraySort(I, UnitDT), "UInt": z3.ArraySort(UnitDT, I),
              "RAUnit": z3.ArraySort(R, z3.ArraySort(I, UnitDT)), "RUInt": z3.ArraySort(R, z3.ArraySort(UnitDT, I))})
PRECISION = z3.RealVal(Fraction(1, 1000000))


class UnitV(Val):
    """a Unit value: normalised datatype term (unlabelled units have lab == 0, so term equality is dataclass equality)"""

    def __init__(self, term):
        self.term = term

    def comps(self):
        return [self.term]

    def rebuild(self, cs):
        return UnitV(cs[0])

    def static(self):
        return ("unit",)

    def __repr__(self):
        return f"UnitV({self.term})"

    @property
    def segment(self):
        return Rec("Segment", {"start": UnitDT.s(self.term), "end": UnitDT.e(self.term)})

    @property
    def annotation(self):
        return Opt(z3.Not(UnitDT.haslab(self.term)), UnitDT.lab(self.term))


def unit_norm(t):
    return z3.Implies(z3.Not(UnitDT.haslab(t)), UnitDT.lab(t) == 0)


def mk_unit(seg, ann):
    if isinstance(ann, NoneV):
        ann = Opt(z3.BoolVal(True), z3.RealVal(0))
    if is_num(ann):
        ann = Opt(z3.BoolVal(False), to_real(ann))
    if not isinstance(ann, Opt):
        raise EngineError(f"unit label {ann!r}")
    return UnitV(UnitDT.mk(seg.fields["start"], seg.fields["end"], z3.Not(ann.isnone),
                           z3.If(ann.isnone, z3.RealVal(0), ann.val)))


def unit_lt_doc(a, b):
    """the documented order: (start, end) lexicographic, then unlabelled first, then label order"""
    sa, ea, ha, la = UnitDT.s(a), UnitDT.e(a), UnitDT.haslab(a), UnitDT.lab(a)
    sb, eb, hb, lb = UnitDT.s(b), UnitDT.e(b), UnitDT.haslab(b), UnitDT.lab(b)
    return z3.Or(sa < sb, z3.And(sa == sb, ea < eb),
                 z3.And(sa == sb, ea == eb, z3.Or(z3.And(z3.Not(ha), hb), z3.And(ha, hb, la < lb))))


class UnitT(T):
    def fresh(self, name):
        return UnitV(z3.Const(name, UnitDT))


class Handle(Val):
    """the inner SortedSet of a MapOfSets: (owner object, key).  Mutations go to the owner (aliasing is exact)."""

    def __init__(self, owner, key):
        self.owner, self.key = owner, key

    def comps(self):
        return [self.key]

    def rebuild(self, cs):
        return Handle(self.owner, cs[0])

    def static(self):
        return ("handle", self.owner.oid)

    def __repr__(self):
        return f"Handle({self.owner}, {self.key})"


# ------------------------------------------------------------------------------------------ classes of heap objects
def _c(name, sort):
    return z3.Const(name, sort)


def fresh_map(tag):
    return {"$cls": "MapOfSets",
            "keys": _c(f"{tag}.keys", z3.ArraySort(R, B)), "U": _c(f"{tag}.U", SORTS["RUSet"]),
            "cnt": _c(f"{tag}.cnt", SORTS["RInt"]), "useq": _c(f"{tag}.useq", SORTS["RAUnit"]),
            "uidx": _c(f"{tag}.uidx", SORTS["RUInt"]), "nkeys": _c(f"{tag}.nkeys", I),
            "kseq": _c(f"{tag}.kseq", z3.ArraySort(I, R)), "kidx": _c(f"{tag}.kidx", z3.ArraySort(R, I))}


def empty_map():
    return {"$cls": "MapOfSets", "keys": z3.K(R, z3.BoolVal(False)), "U": z3.K(R, z3.K(UnitDT, z3.BoolVal(False))),
            "cnt": z3.K(R, z3.IntVal(0)), "useq": _c(V.fresh_name("useq0"), SORTS["RAUnit"]),
            "uidx": _c(V.fresh_name("uidx0"), SORTS["RUInt"]), "nkeys": z3.IntVal(0),
            "kseq": _c(V.fresh_name("kseq0"), z3.ArraySort(I, R)), "kidx": _c(V.fresh_name("kidx0"), z3.ArraySort(R, I))}


def fresh_set(tag, elem):
    return {"$cls": "SetUnit" if elem == UnitDT else "SetStr", "mem": _c(f"{tag}.mem", z3.ArraySort(elem, B)),
            "n": _c(f"{tag}.n", I), "seq": _c(f"{tag}.seq", z3.ArraySort(I, elem)),
            "idx": _c(f"{tag}.idx", z3.ArraySort(elem, I))}


def empty_set(elem):
    return {"$cls": "SetUnit" if elem == UnitDT else "SetStr", "mem": z3.K(elem, z3.BoolVal(False)), "n": z3.IntVal(0),
            "seq": _c(V.fresh_name("seq0"), z3.ArraySort(I, elem)), "idx": _c(V.fresh_name("idx0"), z3.ArraySort(elem, I))}


def elem_lt(a, b):
    if a.sort() == UnitDT:
        return unit_lt_doc(a, b)
    return a < b


def _forall(vs, body, pats):
    try:
        return z3.ForAll(vs, body, patterns=pats)
    except z3.Z3Exception:
        return z3.ForAll(vs, body)


def wf_set(mem, n, seq, idx):
    """enumeration facts of a sorted set"""
    es = mem.sort().domain()
    i, j = z3.Int("i!wf"), z3.Int("j!wf")
    x = z3.Const("x!wf", es)
    return [n >= 0,
            _forall(i, z3.Implies(z3.And(0 <= i, i < n), z3.And(mem[seq[i]], idx[seq[i]] == i)), [seq[i]]),
            _forall([i, j], z3.Implies(z3.And(0 <= i, i < j, j < n), elem_lt(seq[i], seq[j])), [z3.MultiPattern(seq[i], seq[j])]),
            _forall(x, z3.Implies(mem[x], z3.And(0 <= idx[x], idx[x] < n, seq[idx[x]] == x)), [mem[x]])]


def wf_map(m):
    a = z3.Real("a!wf")
    i, j = z3.Int("i!wf"), z3.Int("j!wf")
    x = z3.Const("x!wf", UnitDT)
    keys, U, cnt, useq, uidx, nkeys, kseq, kidx = (m[k] for k in ("keys", "U", "cnt", "useq", "uidx", "nkeys", "kseq", "kidx"))
    facts = wf_set(keys, nkeys, kseq, kidx)
    facts += [
        _forall(a, z3.Implies(z3.Not(keys[a]), z3.And(cnt[a] == 0)), [cnt[a]]),
        _forall([a, x], z3.Implies(U[a][x], keys[a]), [U[a][x]]),
        z3.ForAll(a, cnt[a] >= 0, patterns=[cnt[a]]),
        _forall([a, i], z3.Implies(z3.And(0 <= i, i < cnt[a]), z3.And(U[a][useq[a][i]], uidx[a][useq[a][i]] == i)), [useq[a][i]]),
        _forall([a, i, j], z3.Implies(z3.And(0 <= i, i < j, j < cnt[a]), unit_lt_doc(useq[a][i], useq[a][j])), [z3.MultiPattern(useq[a][i], useq[a][j])]),
        _forall([a, x], z3.Implies(U[a][x], z3.And(0 <= uidx[a][x], uidx[a][x] < cnt[a], useq[a][uidx[a][x]] == x)), [U[a][x]]),
    ]
    return facts


CLASS_FILE = {
    "AbstractDissimilarity": "pygamma_agreement/dissimilarity.py",
    "CombinedCategoricalDissimilarity": "pygamma_agreement/dissimilarity.py",
    "PositionalSporadicDissimilarity": "pygamma_agreement/dissimilarity.py",
    "CategoricalDissimilarity": "pygamma_agreement/dissimilarity.py",
    "AbsoluteCategoricalDissimilarity": "pygamma_agreement/dissimilarity.py",
    "PrecomputedCategoricalDissimilarity": "pygamma_agreement/dissimilarity.py",
    "Continuum": "pygamma_agreement/continuum.py", "Unit": "pygamma_agreement/continuum.py",
    "GammaResults": "pygamma_agreement/continuum.py",
    "UnitaryAlignment": "pygamma_agreement/alignment.py", "Alignment": "pygamma_agreement/alignment.py",
    "SoftAlignment": "pygamma_agreement/alignment.py",
}
OWNED = {"Continuum": ["_annotations", "_categories"], "CorpusShufflingTool": ["_categories"]}


class ObjT(T):
    """a heap object of a known class, allocated at function entry with symbolic fields"""

    def __init__(self, cls, **fields):
        self.cls, self.fields = cls, fields

    def fresh(self, name):
        raise EngineError("ObjT must be allocated (alloc), not created by value")


def alloc(st, rec):
    st.nxt[0] += 1
    oid = st.nxt[0]
    st.heap[oid] = rec
    return Ref(oid)


def alloc_continuum(st, tag):
    ann = alloc(st, fresh_map(f"{tag}._annotations"))
    cat = alloc(st, fresh_set(f"{tag}._categories", R))
    return alloc(st, {"$cls": "Continuum", "uri": PyConst("uri"), "_annotations": ann, "_categories": cat,
                      "bound_inf": z3.Real(f"{tag}.bound_inf"), "bound_sup": z3.Real(f"{tag}.bound_sup"),
                      "best_window_size": WinV(z3.Bool(f"{tag}.bws_inf"), z3.Int(f"{tag}.bws"))})


def new_continuum(st, uri):
    ann = alloc(st, empty_map())
    cat = alloc(st, empty_set(R))
    return alloc(st, {"$cls": "Continuum", "uri": uri, "_annotations": ann, "_categories": cat,
                      "bound_inf": z3.RealVal(0), "bound_sup": z3.RealVal(0),
                      "best_window_size": WinV(z3.BoolVal(True), z3.IntVal(0))})


class WinV(Val):
    """best_window_size: np.inf or a positive integer"""

    def __init__(self, isinf, val):
        self.isinf, self.val = isinf, val

    def comps(self):
        return [self.isinf, self.val]

    def rebuild(self, cs):
        return WinV(cs[0], cs[1])

    def static(self):
        return ("win",)


ALLOCATORS = {"Continuum": alloc_continuum,
              "SetStr": lambda st, tag: alloc(st, fresh_set(tag, R)),
              "SetUnit": lambda st, tag: alloc(st, fresh_set(tag, UnitDT))}


# ------------------------------------------------------------------------------------------ engine extensions
def _heap(st, ref):
    return st.heap[ref.oid]


def set_of(self, st, recv):
    """(kind, accessor dict) of a sorted-set receiver: Handle into a map, or Ref to a standalone set object"""
    if isinstance(recv, Handle):
        m = _heap(st, recv.owner)
        k = recv.key
        return {"mem": m["U"][k], "n": m["cnt"][k], "seq": m["useq"][k], "idx": m["uidx"][k], "elem": UnitDT}
    if isinstance(recv, Ref) and _heap(st, recv)["$cls"] in ("SetUnit", "SetStr"):
        o = _heap(st, recv)
        return {"mem": o["mem"], "n": o["n"], "seq": o["seq"], "idx": o["idx"], "elem": o["mem"].sort().domain()}
    return None


def put_set(self, st, recv, mem, n, seq, idx):
    if isinstance(recv, Handle):
        m = _heap(st, recv.owner)
        k = recv.key
        m["U"] = z3.Store(m["U"], k, mem)
        m["cnt"] = z3.Store(m["cnt"], k, n)
        m["useq"] = z3.Store(m["useq"], k, seq)
        m["uidx"] = z3.Store(m["uidx"], k, idx)
    else:
        o = _heap(st, recv)
        o["mem"], o["n"], o["seq"], o["idx"] = mem, n, seq, idx


def elem_term(self, v, es):
    if isinstance(v, UnitV):
        return v.term
    if is_z3(v):
        if es == R:
            return to_real(v)
        return v
    if isinstance(v, Opt) and es == R and is_z3(v.val):
        # adding None to a sorted set of strings would make it unorderable: the element must be a string here
        if getattr(self, "cur_st", None) is not None:
            self.oblige(self.cur_st, z3.Not(v.isnone), f"label-not-None@{getattr(self, 'cur_line', 0)}", "exception-freedom", getattr(self, 'cur_line', None),
                        "a None label is never put into a sorted set of strings")
        return v.val
    raise EngineError(f"set element {v!r}")


def wrap(term):
    if is_z3(term) and term.sort() == UnitDT:
        return UnitV(term)
    return term


def set_update(self, st, recv, new_mem, new_n):
    """install a new membership array with a fresh enumeration satisfying the sorted-set facts"""
    s = set_of(self, st, recv)
    es = s["elem"]
    seq = V.fresh("seq", z3.ArraySort(I, es))
    idx = V.fresh("idx", z3.ArraySort(es, I))
    n = V.fresh("n", I)
    st.assume(n == new_n, *wf_set(new_mem, n, seq, idx))
    put_set(self, st, recv, new_mem, n, seq, idx)
    self.used_models.add(TRUSTED_SC)
    self.needs_unit_order = True if es == UnitDT else getattr(self, "needs_unit_order", False)


def method_call(self, name, e, st, spec):
    """calls of the form recv.method(args) on heap objects / containers"""
    f = e.func
    if not isinstance(f, ast.Attribute):
        return NotImplemented
    if isinstance(f.value, ast.Call) and ast.unparse(f.value) == "super()" and not spec:
        # super().m(...) inside a method of class C: the contract of m in C's declared base classes, same receiver
        cls = self.qualname.partition("::")[2].split(".")[0]
        for base in CLASS_BASES.get(cls, []):
            q = f"{CLASS_FILE[base]}::{base}.{f.attr}"
            if q in self.registry:
                return self.call_contract(q, e, st, recv=st.env["self"])
        raise EngineError(f"super().{f.attr}: no contract in the bases of {cls}")
    # module functions we model are handled in MODELS; here only receivers that evaluate to values
    if isinstance(f.value, ast.Name) and f.value.id in ("np", "numpy", "nb", "cp", "logging", "random", "os", "csv", "json", "time") \
            and f.value.id not in st.env:
        return NotImplemented
    try:
        recv = self.ev(f.value, st, spec)
    except EngineError:
        return NotImplemented
    m = f.attr
    if isinstance(recv, Rec) and isinstance(recv.fields.get(m), Func):
        # a function-valued field of a by-value record (library models): application of that pure function
        return self.apply_func(recv.fields[m], [self.ev(a, st, spec) for a in e.args], st, spec, e)
    if isinstance(recv, Opt) and isinstance(recv.val, (Ref, Handle)):
        # Optional[object]: calling a method on None would raise AttributeError
        if not spec:
            self.oblige(st, z3.Not(recv.isnone), f"not-None@{e.lineno}:{e.col_offset}", "exception-freedom", e.lineno,
                        ast.unparse(f.value) + " is not None")
        recv = recv.val
    s = set_of(self, st, recv)
    if s is not None:
        return set_method(self, recv, s, m, e, st, spec)
    if isinstance(recv, Ref):
        o = _heap(st, recv)
        cls = o["$cls"]
        if cls == "MapOfSets":
            return map_method(self, recv, o, m, e, st, spec)
        if isinstance(o.get(m), Func):
            # a function-valued field (d_mat): application of that pure function
            return self.apply_func(o[m], [self.ev(a, st, spec) for a in e.args], st, spec, e)
        q = self.method_contract(cls, m)
        if q is not None:
            if spec:
                raise EngineError(f"method call {cls}.{m} in a specification")
            return self.call_contract(q, e, st, recv=recv)
        raise EngineError(f"method {cls}.{m} has no contract")
    if isinstance(recv, SList):
        return list_method(self, f.value, recv, m, e, st, spec)
    return NotImplemented


def method_contract(self, cls, m):
    """resolve a method by walking the class hierarchy declared in CLASS_BASES"""
    for c in [cls] + CLASS_BASES.get(cls, []):
        fpath = CLASS_FILE.get(c)
        if fpath is None:
            continue
        q = f"{fpath}::{c}.{m}"
        if q in self.registry:
            return q
        variants = [k for k in self.registry if k.startswith(q + "#")]
        if len(variants) == 1:
            return variants[0]        # the only contract of this method is for one kind of argument (e.g. __getitem__ by annotator)
    return None


CLASS_BASES = {"SoftAlignment": ["Alignment"],
               "CombinedCategoricalDissimilarity": ["AbstractDissimilarity"],
               "PositionalSporadicDissimilarity": ["AbstractDissimilarity"],
               "AbsoluteCategoricalDissimilarity": ["CategoricalDissimilarity", "AbstractDissimilarity"],
               "CategoricalDissimilarity": ["AbstractDissimilarity"],
               "PrecomputedCategoricalDissimilarity": ["CategoricalDissimilarity", "AbstractDissimilarity"]}
def register_class(name, relfile, bases=()):
    CLASS_FILE[name] = relfile
    if bases:
        CLASS_BASES[name] = list(bases)
        for b in bases:
            SUBCLASSES.setdefault(b, []).append(name)


SUBCLASSES = {"AbstractDissimilarity": ["CombinedCategoricalDissimilarity", "PositionalSporadicDissimilarity",
                                        "CategoricalDissimilarity", "AbsoluteCategoricalDissimilarity"],
              "Alignment": ["SoftAlignment"]}
Engine.method_contract = method_contract


def set_method(self, recv, s, m, e, st, spec):
    es = s["elem"]
    self.cur_st = st
    self.cur_line = getattr(e, "lineno", 0)
    args = [self.ev(a, st, spec) for a in e.args]
    self.used_models.add(TRUSTED_SC)
    if m == "add":
        x = elem_term(self, args[0], es)
        set_update(self, st, recv, z3.Store(s["mem"], x, True), s["n"] + z3.If(s["mem"][x], 0, 1))
        return NONE
    if m in ("remove", "discard"):
        x = elem_term(self, args[0], es)
        if m == "remove":
            bad = st.clone()
            bad.assume(z3.Not(s["mem"][x]))
            self.pending_raises.append(("KeyError", bad))
            st.assume(s["mem"][x])
            set_update(self, st, recv, z3.Store(s["mem"], x, False), s["n"] - 1)
        else:
            set_update(self, st, recv, z3.Store(s["mem"], x, False), s["n"] - z3.If(s["mem"][x], 1, 0))
        return NONE
    if m == "index":
        x = elem_term(self, args[0], es)
        bad = st.clone()
        bad.assume(z3.Not(s["mem"][x]))
        self.pending_raises.append(("ValueError", bad))
        st.assume(s["mem"][x])
        st.assume(*wf_point(s, x))
        return s["idx"][x]
    if m == "pop":
        i = self.as_index(args[0]) if args else s["n"] - 1
        i = z3.If(i < 0, i + s["n"], i) if not z3.is_int_value(i) or i.as_long() < 0 else i
        bad = st.clone()
        bad.assume(z3.Not(z3.And(0 <= i, i < s["n"])))
        self.pending_raises.append(("IndexError", bad))
        st.assume(0 <= i, i < s["n"])
        x = s["seq"][i]
        st.assume(s["mem"][x])
        set_update(self, st, recv, z3.Store(s["mem"], x, False), s["n"] - 1)
        return wrap(x)
    if m == "issuperset":
        other = args[0]
        o2 = set_of(self, st, other)
        if o2 is None:
            if isinstance(other, Opt) and isinstance(other.val, SList):
                if not spec:
                    self.oblige(st, z3.Not(other.isnone), f"not-None@{e.lineno}:issuperset", "exception-freedom", e.lineno,
                                "the iterable given to issuperset is not None")
                other = other.val
            if isinstance(other, SList) and len(other.elems.cs) == 1 and other.elems.cs[0].sort().range() == es:
                # issuperset(iterable): every element of the list is a member
                k = V.fresh("k", I)
                return z3.ForAll(k, z3.Implies(z3.And(0 <= k, k < other.length), s["mem"][other.elems.cs[0][k]]))
            raise EngineError("issuperset of a non-set")
        x = V.fresh("x", es)
        return z3.ForAll(x, z3.Implies(o2["mem"][x], s["mem"][x]))
    if m == "copy":
        return alloc(st, {"$cls": "SetUnit" if es == UnitDT else "SetStr", "mem": s["mem"], "n": s["n"],
                          "seq": s["seq"], "idx": s["idx"]})
    raise EngineError(f"sorted-set method {m}")


def wf_point(s, x):
    return [0 <= s["idx"][x], s["idx"][x] < s["n"], s["seq"][s["idx"][x]] == x]


def map_method(self, recv, o, m, e, st, spec):
    self.used_models.add(TRUSTED_SC)
    if m in ("values", "items", "keys"):
        return MapView(recv, m)
    if m == "peekitem":
        i = self.as_index(self.ev(e.args[0], st, spec))
        bad = st.clone()
        bad.assume(z3.Not(z3.And(-o["nkeys"] <= i, i < o["nkeys"])))
        self.pending_raises.append(("IndexError", bad))
        st.assume(-o["nkeys"] <= i, i < o["nkeys"])
        if z3.is_int_value(i) and i.as_long() < 0:
            i = o["nkeys"] + i
        else:
            i = z3.If(i < 0, o["nkeys"] + i, i)
        k = o["kseq"][i]
        st.assume(o["keys"][k], o["kidx"][k] == i)
        return Tup([k, Handle(recv, k)])
    raise EngineError(f"sorted-dict method {m}")


class MapView(Val):
    def __init__(self, owner, kind):
        self.owner, self.kind = owner, kind

    def comps(self):
        return []

    def rebuild(self, cs):
        return self

    def static(self):
        return ("mapview", self.owner.oid, self.kind)


def list_method(self, target_node, lst, m, e, st, spec):
    args = [self.ev(a, st, spec) for a in e.args]
    if m == "append":
        v = args[0]
        if V.comps(lst.elems.template):
            v = self.coerce_elem(lst.elems.template, v, st)
        if len(V.comps(v)) != len(V.comps(lst.elems.template)):
            raise EngineError(f"append of {v!r} to a list of {lst.elems.template!r}")
        self.assign(target_node, lst.append(v), st, e)
        return NONE
    if m == "pop":
        if args:
            raise EngineError("list.pop(i)")
        bad = st.clone()
        bad.assume(lst.length <= 0)
        self.pending_raises.append(("IndexError", bad))
        st.assume(lst.length > 0)
        v = lst.get(lst.length - 1)
        self.assign(target_node, SList(lst.length - 1, lst.elems), st, e)
        return v
    raise EngineError(f"list method {m}")


def coerce_elem(self, template, v, st=None):
    """adapt a value to the element shape of a list (T -> Optional[T], int -> float, component-wise in tuples);
    an Optional[Unit] stored where a Unit is expected must not be None (obligation when a state is given)"""
    if isinstance(template, UnitV) and isinstance(v, Opt) and isinstance(v.val, UnitV) and st is not None:
        self.oblige(st, z3.Not(v.isnone), f"unit-not-None#{len(self.obls)}", "exception-freedom", None,
                    "a unit stored in a list of units is not None")
        return v.val
    if isinstance(template, Tup) and isinstance(v, Tup) and len(template.items) == len(v.items) and st is not None:
        return Tup([coerce_elem(self, t, x, st) for t, x in zip(template.items, v.items)])
    if isinstance(template, Opt) and not isinstance(v, Opt):
        if isinstance(v, NoneV):
            return Opt(z3.BoolVal(True), V.fresh_like(template.val, "none"))
        return Opt(z3.BoolVal(False), coerce_elem(self, template.val, v))
    if isinstance(template, Tup) and isinstance(v, Tup) and len(template.items) == len(v.items):
        return Tup([coerce_elem(self, t, x) for t, x in zip(template.items, v.items)])
    if isinstance(template, Rec) and isinstance(v, Rec) and set(template.fields) == set(v.fields):
        return Rec(v.cls, {k: coerce_elem(self, template.fields[k], v.fields[k]) for k in template.fields})
    if isinstance(template, Opt) and isinstance(v, Opt) and isinstance(v.val, NoneV):
        return Opt(v.isnone, V.fresh_like(template.val, "none"))
    if is_z3(template) and is_z3(v) and template.sort() == R and v.sort() == I:
        return z3.ToReal(v)
    if is_z3(template) and template.sort() == R and isinstance(v, PyConst) and isinstance(v.value, str):
        return self.str_code(v.value)       # a string literal where a string is expected: its code (distinct literals, distinct codes)
    return v


Engine.coerce_elem = coerce_elem

_prev_call_other = Engine.call_other


def call_other(self, name, e, st, spec):
    r = method_call(self, name, e, st, spec)
    if r is not NotImplemented:
        return r
    return _prev_call_other(self, name, e, st, spec)


Engine.call_other = call_other

# ---- subscripts on containers
_prev_sub = Engine.subscript_other


def subscript_other(self, base, e, st, spec):
    base = deopt(self, base, st, spec, e)
    if isinstance(base, Ref):
        o = _heap(st, base)
        if o["$cls"] == "MapOfSets":
            k = to_real(self.ev(self.index_list(e)[0], st, spec))
            if not spec:
                bad = st.clone()
                bad.assume(z3.Not(o["keys"][k]))
                self.pending_raises.append(("KeyError", bad))
                st.assume(o["keys"][k])
            return Handle(base, k)
        q = self.method_contract(o["$cls"], "__getitem__")
        if q is None and not spec:
            # several contract variants of __getitem__: the kind of key selects one (`c[annotator]` / `c[annotator, index]`)
            idx_nodes = self.index_list(e)
            suffix = "#index" if len(idx_nodes) > 1 or isinstance(idx_nodes[0], ast.Tuple) else "#annotator"
            fpath = CLASS_FILE.get(o["$cls"])
            cand = f"{fpath}::{o['$cls']}.__getitem__{suffix}"
            if cand in self.registry:
                if suffix == "#index":
                    key = Tup([self.ev(x, st, spec) for x in (idx_nodes if len(idx_nodes) > 1 else idx_nodes[0].elts)])
                    return self.call_contract(cand, e, st, recv=base, argvals=[key])
                q = cand
        if q is not None and not spec:
            return self.call_contract(q, e, st, recv=base, argvals=[self.ev(self.index_list(e)[0], st, spec)])
    s = set_of(self, st, base)
    if s is not None:
        i = self.as_index(self.ev(self.index_list(e)[0], st, spec))
        self.used_models.add(TRUSTED_SC)
        if z3.is_int_value(i) and i.as_long() < 0:
            j = s["n"] + i
            ok = j >= 0
        else:
            # python: negative indices wrap
            j = z3.If(i < 0, s["n"] + i, i)
            ok = z3.And(-s["n"] <= i, i < s["n"])
        if not spec:
            bad = st.clone()
            bad.assume(z3.Not(ok))
            self.pending_raises.append(("IndexError", bad))
            st.assume(ok)
        x = s["seq"][j]
        st.assume(z3.Implies(z3.And(0 <= j, j < s["n"]), z3.And(s["mem"][x], s["idx"][x] == j)))
        return wrap(x)
    if isinstance(base, UnitV):
        raise EngineError("subscript on a unit")
    return _prev_sub(self, base, e, st, spec)


Engine.subscript_other = subscript_other

_prev_store_sub = Engine.store_sub_other


def store_sub_other(self, base, t, v, st):
    if isinstance(base, Ref) and _heap(st, base)["$cls"] == "MapOfSets":
        o = _heap(st, base)
        k = to_real(self.ev(self.index_list(t)[0], st, False))
        if isinstance(v, Ref) and _heap(st, v)["$cls"] == "SetUnit":
            src = _heap(st, v)
            present = o["keys"][k]
            o["U"] = z3.Store(o["U"], k, src["mem"])
            o["cnt"] = z3.Store(o["cnt"], k, src["n"])
            o["useq"] = z3.Store(o["useq"], k, src["seq"])
            o["uidx"] = z3.Store(o["uidx"], k, src["idx"])
            new_keys = z3.Store(o["keys"], k, True)
            kseq = V.fresh("kseq", z3.ArraySort(I, R))
            kidx = V.fresh("kidx", z3.ArraySort(R, I))
            nk = V.fresh("nkeys", I)
            st.assume(nk == o["nkeys"] + z3.If(present, 0, 1), *wf_set(new_keys, nk, kseq, kidx))
            o["keys"], o["nkeys"], o["kseq"], o["kidx"] = new_keys, nk, kseq, kidx
            self.used_models.add(TRUSTED_SC)
            return None
        raise EngineError("store of a non-set into the annotations map")
    return _prev_store_sub(self, base, t, v, st)


Engine.store_sub_other = store_sub_other

# ---- membership, len, truthiness, equality
def contains(self, container, item, st, spec, node):
    container = deopt(self, container, st, spec, node)
    if isinstance(container, Ref):
        o = _heap(st, container)
        if o["$cls"] == "MapOfSets":
            return o["keys"][to_real(item)]
    s = set_of(self, st, container)
    if s is not None:
        return s["mem"][elem_term(self, item, s["elem"])]
    if is_z3(container) and container.sort().kind() == z3.Z3_ARRAY_SORT and spec:
        return container[elem_term(self, item, container.sort().domain())]
    if isinstance(container, Tup):
        return z3.Or(*[self.eq(item, x, st, spec) for x in container.items])
    if isinstance(container, Opt) and isinstance(container.val, SList):
        if not spec:
            self.oblige(st, z3.Not(container.isnone), f"not-None@{getattr(node, 'lineno', 0)}:in", "exception-freedom", getattr(node, "lineno", None),
                        "an Optional list is not None where membership is tested")
        container = container.val
    if isinstance(container, SList) and len(container.elems.cs) == 1 and is_z3(item):
        k = V.fresh("k", I)
        return z3.Exists(k, z3.And(0 <= k, k < container.length, container.elems.cs[0][k] == (to_real(item) if container.elems.cs[0].sort().range() == R else item)))
    raise EngineError(f"membership test in {container!r}")


Engine.contains = contains

_prev_len = Engine.len_other


def deopt(self, v, st, spec, node):
    """Optional[object] used as an object: it must not be None here"""
    if isinstance(v, Opt) and isinstance(v.val, (Ref, Handle)):
        if not spec:
            line = getattr(node, "lineno", None)
            self.oblige(st, z3.Not(v.isnone), f"not-None@{line}:{getattr(node, 'col_offset', 0)}", "exception-freedom", line,
                        "an Optional object is not None where it is used")
        return v.val
    return v


def len_other(self, v, st, spec, e):
    v = deopt(self, v, st, spec, e)
    if isinstance(v, Ref):
        o = _heap(st, v)
        if o["$cls"] == "MapOfSets":
            st.assume(o["nkeys"] >= 0)
            return o["nkeys"]
        q = self.method_contract(o["$cls"], "__len__")
        if q is not None and not spec:
            return self.call_contract(q, e, st, recv=v, argvals=[])
    s = set_of(self, st, v)
    if s is not None:
        st.assume(s["n"] >= 0)
        return s["n"]
    return _prev_len(self, v, st, spec, e)


Engine.len_other = len_other

_prev_truthy2 = Engine.truthy_other


def truthy_other(self, v, st):
    s = set_of(self, st, v)
    if s is not None:
        st.assume(s["n"] >= 0)
        # non-empty <=> some member (the enumeration facts link n and mem)
        return s["n"] > 0
    if isinstance(v, Ref):
        o = _heap(st, v)
        q = self.method_contract(o["$cls"], "__bool__")
        if q is not None:
            return self.call_contract(q, None, st, recv=v, argvals=[])
        return z3.BoolVal(True)
    if isinstance(v, UnitV):
        return z3.BoolVal(True)
    return _prev_truthy2(self, v, st)


Engine.truthy_other = truthy_other

_prev_eq = Engine.eq_other


def eq_other(self, a, b, st, spec):
    if isinstance(a, SList) and isinstance(b, SList) and spec:
        return list_eq(a, b)
    if isinstance(a, UnitV) and isinstance(b, UnitV):
        return a.term == b.term
    if isinstance(a, UnitV) and isinstance(b, (Opt, NoneV)) or isinstance(b, UnitV) and isinstance(a, (Opt, NoneV)):
        u, o = (a, b) if isinstance(a, UnitV) else (b, a)
        if isinstance(o, NoneV):
            return z3.BoolVal(False)
        return z3.And(z3.Not(o.isnone), self.eq(u, o.val, st, spec))
    if isinstance(a, WinV) or isinstance(b, WinV):
        if isinstance(a, WinV) and isinstance(b, WinV):
            return z3.And(a.isinf == b.isinf, z3.Implies(z3.Not(a.isinf), a.val == b.val))
        w, o = (a, b) if isinstance(a, WinV) else (b, a)
        if isinstance(o, PyConst) and o.value == "inf":
            return w.isinf
        if is_num(o):
            return z3.And(z3.Not(w.isinf), to_real(w.val) == to_real(o))
    if isinstance(a, Ref) and isinstance(b, Ref) and spec:
        return z3.BoolVal(a.oid == b.oid)
    if isinstance(a, Ref) and isinstance(b, Ref) and not spec:
        sa, sb = set_of(self, st, a), set_of(self, st, b)
        if sa is not None and sb is not None and sa["elem"] == sb["elem"]:
            # SortedSet == SortedSet: equality as sets (sortedcontainers compares the element sets)
            x = z3.Const(V.fresh_name("x"), sa["elem"])
            self.used_models.add(TRUSTED_SC)
            return z3.ForAll(x, sa["mem"][x] == sb["mem"][x])
        q = self.method_contract(_heap(st, a)["$cls"], "__eq__")
        if q is not None:
            # a == b on objects of a class whose __eq__ is under contract: that contract
            return self.call_contract(q, None, st, recv=a, argvals=[b])
    return _prev_eq(self, a, b, st, spec)


Engine.eq_other = eq_other


def is_same_ext(prev):
    def is_same(self, a, b, st):
        if isinstance(a, NoneV) and isinstance(b, (UnitV, Ref, Handle)) or isinstance(b, NoneV) and isinstance(a, (UnitV, Ref, Handle)):
            return z3.BoolVal(False)
        return prev(self, a, b, st)
    return is_same


Engine.is_same = is_same_ext(Engine.is_same)

_prev_order2 = Engine.order_other


def order_other(self, op, a, b, st, spec, node):
    if isinstance(a, Opt) and isinstance(b, Opt) and is_real(a.val) and is_real(b.val):
        # str < str; comparing None raises TypeError in Python
        if not spec:
            self.oblige(st, z3.And(z3.Not(a.isnone), z3.Not(b.isnone)), f"no-TypeError@{node.lineno}:{node.col_offset}",
                        "exception-freedom", node.lineno, ast.unparse(node))
        x, y = a.val, b.val
        return {ast.Lt: x < y, ast.LtE: x <= y, ast.Gt: x > y, ast.GtE: x >= y}[type(op)]
    if isinstance(a, UnitV) and isinstance(b, UnitV):
        q = "pygamma_agreement/continuum.py::Unit.__lt__"
        # total_ordering derives <=, >, >= from __lt__ and __eq__ (S6); specs use the documented order directly
        lt = unit_lt_doc(a.term, b.term) if spec or q not in self.registry else self.call_contract(q, node, st, recv=a, argvals=[b])
        eq = a.term == b.term
        if isinstance(op, ast.Lt):
            return lt
        if isinstance(op, ast.LtE):
            return z3.Or(lt, eq)
        if isinstance(op, ast.Gt):
            return z3.And(z3.Not(lt), z3.Not(eq))
        return z3.Not(lt)
    return _prev_order2(self, op, a, b, st, spec, node)


Engine.order_other = order_other

# ---- attributes
def attr_model(self, e, base, st, spec):
    if isinstance(base, Opt) and isinstance(base.val, (UnitV, Rec)) and e.attr in ("segment", "annotation", "s", "e", "lab", "haslab"):
        # attribute of an Optional unit: None has no such attribute (AttributeError)
        if not spec:
            self.oblige(st, z3.Not(base.isnone), f"not-None@{e.lineno}:{e.col_offset}", "exception-freedom", e.lineno,
                        ast.unparse(e.value) + " is not None")
        base = base.val
    if isinstance(base, Opt) and isinstance(base.val, Ref) and not spec:
        # attribute / property of an Optional[object]: None has no such attribute
        base = deopt(self, base, st, spec, e)
        o = _heap(st, base)
        if e.attr in o:
            return o[e.attr]
    if isinstance(base, Opt) and isinstance(base.val, Ref) and spec:
        # in a specification x.f on an Optional[object] x means some(x).f (the clause is about the object when there is one)
        base = base.val
        o = _heap(st, base)
        if e.attr in o:
            return o[e.attr]
    if isinstance(base, UnitV):
        if e.attr == "segment":
            return base.segment
        if e.attr == "annotation":
            return base.annotation
        if spec and e.attr in ("s", "e", "haslab", "lab"):
            return getattr(UnitDT, e.attr)(base.term)
    if isinstance(base, Ref):
        o = _heap(st, base)
        cls = o["$cls"]
        q = self.c.calls.get(ast.unparse(e)) if not spec else None      # explicit binding of a property read to one contract variant
        q = q or self.method_contract(cls, e.attr)
        if q is not None and self.registry[q].is_property:
            if spec:
                raise EngineError(f"property {cls}.{e.attr} in a specification: use the view functions")
            return self.call_contract(q, e, st, recv=base, argvals=[])
    if isinstance(base, WinV) and spec:
        if e.attr == "isinf":
            return base.isinf
        if e.attr == "val":
            return base.val
    return NotImplemented


Engine.ATTR_MODELS.append(attr_model)


def infinity(self, st):
    return PyConst("inf")


Engine.infinity = infinity

# ---- spec functions over the views
_prev_spec_call = Engine.spec_call

VIEW = {"Ann": ("_annotations", "keys"), "Us": ("_annotations", "U"), "Cnt": ("_annotations", "cnt"),
        "Useq": ("_annotations", "useq"), "Uidx": ("_annotations", "uidx"), "Nkeys": ("_annotations", "nkeys"),
        "Kseq": ("_annotations", "kseq"), "Kidx": ("_annotations", "kidx"),
        "Cat": ("_categories", "mem"), "Ncat": ("_categories", "n"), "Cseq": ("_categories", "seq"), "Cidx": ("_categories", "idx")}


def spec_call(self, name, e, st):
    if name == "store":
        a, i, v = [self.ev(x, st, True) for x in e.args]
        if is_z3(a) and a.sort().kind() == z3.Z3_ARRAY_SORT:
            if isinstance(i, UnitV):
                i = i.term
            elif a.sort().domain() == R:
                i = to_real(i)
            if isinstance(v, UnitV):
                v = v.term
            elif a.sort().range() == R:
                v = to_real(v)
            return z3.Store(a, i, v)
    if name in VIEW:
        c = self.ev(e.args[0], st, True)
        if not isinstance(c, Ref):
            raise EngineError(f"{name}() of a non-object")
        sub, fld = VIEW[name]
        return _heap(st, _heap(st, c)[sub])[fld]
    if name == "mkunit":
        s_, e_, lab = [self.ev(a, st, True) for a in e.args]
        return mk_unit(Rec("Segment", {"start": to_real(s_), "end": to_real(e_)}), lab)
    if name == "unit_lt":
        a, b = [self.ev(x, st, True) for x in e.args]
        return unit_lt_doc(a.term, b.term)
    if name == "dur":
        u = self.ev(e.args[0], st, True)
        return UnitDT.e(u.term) - UnitDT.s(u.term)
    if name == "wfmap":
        c = self.ev(e.args[0], st, True)
        return z3.And(*wf_map(_heap(st, _heap(st, c)["_annotations"])))
    if name == "wfcats":
        c = self.ev(e.args[0], st, True)
        o = _heap(st, _heap(st, c)["_categories"])
        return z3.And(*wf_set(o["mem"], o["n"], o["seq"], o["idx"]))
    if name == "wfset":
        v = self.ev(e.args[0], st, True)
        s = set_of(self, st, v)
        return z3.And(*wf_set(s["mem"], s["n"], s["seq"], s["idx"]))
    if name in ("members", "size", "seqof", "idxof"):
        v = self.ev(e.args[0], st, True)
        if isinstance(v, Opt):
            v = v.val
        s = set_of(self, st, v)
        if s is None:
            raise EngineError(f"{name}() of a non-set")
        return {"members": s["mem"], "size": s["n"], "seqof": s["seq"], "idxof": s["idx"]}[name]
    if name == "fresh_obj":
        v = self.ev(e.args[0], st, True)
        return z3.BoolVal(isinstance(v, Ref) and v.oid not in (st.oldheap or {}))
    if name == "disjoint_state":
        a, b = [self.ev(x, st, True) for x in e.args]
        return z3.BoolVal(not (reachable(st, a) & reachable(st, b)))
    if name == "same_obj":
        a, b = [self.ev(x, st, True) for x in e.args]
        return z3.BoolVal(isinstance(a, Ref) and isinstance(b, Ref) and a.oid == b.oid)
    if name == "catd":
        obj, u1, u2 = [self.ev(a, st, True) for a in e.args]
        f = z3.Function(f"catd#{obj.oid}", B, R, B, R, R)
        return f(UnitDT.haslab(u1.term), UnitDT.lab(u1.term), UnitDT.haslab(u2.term), UnitDT.lab(u2.term))
    if name == "raw":
        v = self.ev(e.args[0], st, True)
        if isinstance(v, Opt):
            v = v.val
        if isinstance(v, Arr):
            return v.data
        if isinstance(v, SList) and len(v.elems.cs) == 1:
            return v.elems.cs[0]          # the element array of a list of scalars
        return v
    if name == "isnone":
        v = self.ev(e.args[0], st, True)
        if isinstance(v, NoneV):
            return z3.BoolVal(True)
        if isinstance(v, Opt):
            return v.isnone
        return z3.BoolVal(False)
    if name == "some":
        v = self.ev(e.args[0], st, True)
        if isinstance(v, Opt):
            return v.val
        return v
    return _prev_spec_call(self, name, e, st)


Engine.spec_call = spec_call


def reachable(st, v):
    """identities of the mutable heap objects reachable from a value"""
    out = set()
    todo = [v]
    while todo:
        x = todo.pop()
        if isinstance(x, Ref):
            if x.oid in out:
                continue
            out.add(x.oid)
            todo.extend(val for k, val in st.heap[x.oid].items() if k != "$cls")
        elif isinstance(x, Handle):
            todo.append(x.owner)
        elif isinstance(x, (Tup,)):
            todo.extend(x.items)
        elif isinstance(x, Rec):
            todo.extend(x.fields.values())
    return out


# ---- raw-array subscripts with unit / real keys (views)
_prev_ex_sub = Engine.ex_Subscript


def ex_Subscript(self, e, st, spec):
    if spec:
        base = self.ev(e.value, st, spec)
        if is_z3(base) and base.sort().kind() == z3.Z3_ARRAY_SORT:
            z = base
            for n in self.index_list(e):
                i = self.ev(n, st, spec)
                dom = z.sort().domain()
                if isinstance(i, UnitV):
                    i = i.term
                elif dom == R and is_z3(i):
                    i = to_real(i)
                z = z[i]
            return wrap(z)
    return _prev_ex_sub(self, e, st, spec)


Engine.ex_Subscript = ex_Subscript

# ---- iteration over containers
_prev_iter_value = Engine.iter_value


def iter_value(self, v, st, node):
    v = deopt(self, v, st, False, node)
    if isinstance(v, Opt) and isinstance(v.val, SList):
        # iterating an Optional[list]: None is not iterable (TypeError)
        self.oblige(st, z3.Not(v.isnone), f"not-None@{getattr(node, 'lineno', 0)}:iter", "exception-freedom", getattr(node, "lineno", None),
                    "an Optional list is not None where it is iterated")
        v = v.val
    if isinstance(v, MapView):
        o = _heap(st, v.owner)
        st.assume(*wf_set(o["keys"], o["nkeys"], o["kseq"], o["kidx"]))
        self.used_models.add(TRUSTED_SC)
        if v.kind == "keys":
            return SeqIter(o["nkeys"], lambda k: o["kseq"][k])
        if v.kind == "values":
            return SeqIter(o["nkeys"], lambda k: Handle(v.owner, o["kseq"][k]))
        return SeqIter(o["nkeys"], lambda k: Tup([o["kseq"][k], Handle(v.owner, o["kseq"][k])]))
    if isinstance(v, Ref) and _heap(st, v)["$cls"] == "MapOfSets":
        o = _heap(st, v)
        st.assume(*wf_set(o["keys"], o["nkeys"], o["kseq"], o["kidx"]))
        return SeqIter(o["nkeys"], lambda k: o["kseq"][k])
    if isinstance(v, Ref):
        q = self.method_contract(_heap(st, v)["$cls"], "__iter__")
        if q is not None:
            if self.registry[q].returns_expr is not None:
                return self.iter_value(self.call_contract(q, node, st, recv=v, argvals=[]), st, node)
            return self.generator_iter(q, node, st, argvals=[v])
    s = set_of(self, st, v)
    if s is not None:
        self.used_models.add(TRUSTED_SC)
        st.assume(*wf_set(s["mem"], s["n"], s["seq"], s["idx"]))
        return SeqIter(s["n"], lambda k: wrap(s["seq"][k]))
    return _prev_iter_value(self, v, st, node)


Engine.iter_value = iter_value


# ---- object allocation at entry, frames at exit, calls with heap effects
_prev_run_init = Engine.__init__


def alloc_params(self, c, st):
    for name, t in c.params.items():
        if isinstance(t, ObjT):
            if t.cls in ALLOCATORS:
                st.env[name] = ALLOCATORS[t.cls](st, name)
            else:
                rec = {"$cls": t.cls}
                for fname, ft in t.fields.items():
                    if isinstance(ft, ObjT):
                        sub = {n_: None for n_ in ()}
                        st.env[f"{name}.{fname}"] = None
                        rec[fname] = alloc_obj(self, st, ft, f"{name}.{fname}")
                    else:
                        rec[fname] = ft.fresh(f"{name}.{fname}")
                        st.assume(*self.type_facts(rec[fname]))
                st.env.pop(f"{name}.{fname}", None) if t.fields else None
                st.env[name] = alloc(st, rec)


def alloc_obj(self, st, t, tag):
    if t.cls in ALLOCATORS:
        return ALLOCATORS[t.cls](st, tag)
    rec = {"$cls": t.cls}
    for fname, ft in t.fields.items():
        if isinstance(ft, ObjT):
            rec[fname] = alloc_obj(self, st, ft, f"{tag}.{fname}")
        elif isinstance(ft, OptObjT):
            rec[fname] = Opt(z3.Bool(f"{tag}.{fname}.isnone"), alloc_obj(self, st, ft.inner, f"{tag}.{fname}"))
        else:
            rec[fname] = ft.fresh(f"{tag}.{fname}")
            st.assume(*self.type_facts(rec[fname]))
    return alloc(st, rec)


Engine.alloc_params = alloc_params


def make_param(self, name, t, st):
    if isinstance(t, ObjT):
        return alloc_obj(self, st, t, name)
    if isinstance(t, OptObjT):
        return Opt(z3.Bool(f"{name}.isnone"), alloc_obj(self, st, t.inner, name))
    from .contract import TupleOf
    if isinstance(t, TupleOf) and any(isinstance(x, (ObjT, OptObjT)) for x in t.items):
        return Tup([make_param(self, f"{name}.{k}", x, st) for k, x in enumerate(t.items)])     # a tuple holding objects
    return t.fresh(name)


Engine.make_param = make_param

_prev_type_facts = Engine.type_facts


def type_facts(self, v):
    if isinstance(v, UnitV):
        return [unit_norm(v.term)]
    if isinstance(v, Opt):
        return _prev_type_facts(self, v.val)
    if isinstance(v, Rec):
        out = []
        for f in v.fields.values():
            out += type_facts(self, f)
        return out
    if isinstance(v, SList):
        facts = [v.length >= 0]
        k = z3.Int("k!tf")
        inner = type_facts(self, v.get(k))
        if inner:
            facts.append(z3.ForAll(k, z3.Implies(z3.And(0 <= k, k < v.length), z3.And(*inner))))
        return facts
    if isinstance(v, Tup):
        out = []
        for it in v.items:
            out += type_facts(self, it)
        return out
    if isinstance(v, WinV):
        return [z3.Implies(z3.Not(v.isinf), v.val >= 1)]
    return _prev_type_facts(self, v)


Engine.type_facts = type_facts


def modifies_set(self, mods, env, heap):
    """{(oid, field|'*')} permitted by a modifies clause, names resolved in `env`"""
    out = set()
    for m in mods:
        parts = m.split(".")
        v = env.get(parts[0])
        if v is None:
            raise EngineError(f"modifies: unknown name {parts[0]}")
        if isinstance(v, Opt) and isinstance(v.val, Ref):
            v = v.val          # an Optional[object] named in a modifies clause: the object, when there is one
        for p in parts[1:-1]:
            v = heap[v.oid][p]
        if len(parts) == 1:
            if not isinstance(v, Ref):
                continue
            out.add((v.oid, "*"))
            for f in OWNED.get(heap[v.oid]["$cls"], []):
                sub = heap[v.oid].get(f)
                if isinstance(sub, Ref):
                    out.add((sub.oid, "*"))
        else:
            last = parts[-1]
            tgt = heap[v.oid].get(last) if isinstance(v, Ref) else None
            if isinstance(v, Ref) and isinstance(tgt, Ref) and last in OWNED.get(heap[v.oid]["$cls"], []):
                out.add((tgt.oid, "*"))          # an owned sub-object: its content may change, the reference may not
            elif isinstance(v, Ref):
                out.add((v.oid, last))
    return out


def call_frame(self, callee, cst, st):
    """havoc what the callee may modify (its modifies clause, resolved on the actual arguments)"""
    for (oid, fld) in modifies_set(self, callee.modifies, cst.env, st.heap):
        o = st.heap[oid]
        for f in list(o):
            if f == "$cls" or (fld != "*" and f != fld):
                continue
            v = o[f]
            if isinstance(v, Ref) or isinstance(v, (PyConst, NoneV, Func)):
                continue
            nv = V.fresh_like(v, f"{f}")
            o[f] = nv
            st.assume(*self.type_facts(nv))


Engine.call_frame = call_frame


def fresh_result(self, callee, qual, cst, st):
    t = callee.returns
    if t is None:
        return NONE
    tag = V.fresh_name("ret_" + qual.rpartition(".")[2])
    v = self.make_param(tag, t, st)
    st.assume(*self.type_facts(v))
    return v


Engine.fresh_result = fresh_result


GHOST_ENUM = {"cnt", "useq", "uidx", "nkeys", "kseq", "kidx", "n", "seq", "idx"}


def frame_obligations(self, st, line):
    """every object that existed on entry and is not named in `modifies` is unchanged (field by field)"""
    c = self.c
    if st.oldheap is None or not c.frame_check:
        return
    allowed = modifies_set(self, c.modifies, st.old, st.oldheap)
    goals = []
    for oid, old in st.oldheap.items():
        new = st.heap.get(oid)
        if new is None:
            continue
        for f, ov in old.items():
            if f == "$cls" or (oid, "*") in allowed or (oid, f) in allowed:
                continue
            if old["$cls"] in ("MapOfSets", "SetUnit", "SetStr") and f in GHOST_ENUM:
                continue      # the enumeration is determined by the membership (sorted order): only membership is framed
            nv = new.get(f)
            if nv is ov:
                continue
            if isinstance(ov, Ref) or isinstance(nv, Ref):
                ok = isinstance(ov, Ref) and isinstance(nv, Ref) and ov.oid == nv.oid
                goals.append((oid, f, z3.BoolVal(ok)))
                continue
            co, cn = V.comps(ov), V.comps(nv)
            if len(co) != len(cn):
                goals.append((oid, f, z3.BoolVal(False)))
                continue
            if isinstance(ov, WinV):
                goals.append((oid, f, self.eq(ov, nv, st, True)))
                continue
            goals.append((oid, f, z3.And(*[a == b for a, b in zip(co, cn)]) if co else z3.BoolVal(True)))
    for oid, f, g in goals:
        cls = st.oldheap[oid]["$cls"]
        self.oblige(st, g, f"frame/{cls}#{oid}.{f}@{line}", "frame", line,
                    f"{cls}.{f} of a pre-existing object outside the modifies clause is unchanged", {"C14"} | set(c.serves))


Engine.frame_obligations = frame_obligations


# ---- constructors and copies
class OptObjT(T):
    """Optional reference to a heap object of a known class"""

    def __init__(self, inner):
        self.inner = inner


def ctor_model(self, e, st, spec):
    name = ast.unparse(e.func)
    if spec:
        return NotImplemented
    if name == "next" and len(e.args) == 1 and isinstance(e.args[0], ast.Call) and ast.unparse(e.args[0].func) in ("iter", "reversed"):
        # next(iter(S)) / next(reversed(S)) of a sorted set: its smallest / largest element (StopIteration if empty)
        recv = deopt(self, self.ev(e.args[0].args[0], st, spec), st, spec, e)
        s_ = set_of(self, st, recv)
        if s_ is None:
            return NotImplemented
        self.used_models.add(TRUSTED_SC)
        st.assume(*wf_set(s_["mem"], s_["n"], s_["seq"], s_["idx"]))
        self.oblige(st, s_["n"] > 0, f"no-StopIteration@{e.lineno}:{e.col_offset}", "exception-freedom", e.lineno, ast.unparse(e))
        i = z3.IntVal(0) if ast.unparse(e.args[0].func) == "iter" else s_["n"] - 1
        return wrap(s_["seq"][i])
    if name == "isinstance" and len(e.args) == 2:
        v = self.ev(e.args[0], st, spec)
        cname = ast.unparse(e.args[1])
        if isinstance(v, Ref):
            cls = _heap(st, v)["$cls"]
            if cls == cname or cname in CLASS_BASES.get(cls, []):
                return z3.BoolVal(True)
            if cname in SUBCLASSES.get(cls, []):
                raise EngineError(f"isinstance({cls} object, {cname}): declare the parameter with its concrete class")
            return z3.BoolVal(False)
        if is_z3(v) and cname == "str":
            return z3.BoolVal(v.sort() == R)
        if cname == "int":
            return z3.BoolVal(is_z3(v) and v.sort() == I)
        if isinstance(v, (SList, Tup)) and cname in ("str", "int", "float"):
            return z3.BoolVal(False)
        return NotImplemented
    if name == "list" and len(e.args) == 1:
        v = deopt(self, self.ev(e.args[0], st, spec), st, spec, e)
        s_ = set_of(self, st, v)
        if s_ is not None:
            # list(sorted set): its elements in order (a snapshot by value)
            st.assume(*wf_set(s_["mem"], s_["n"], s_["seq"], s_["idx"]))
            tmpl = wrap(z3.Const(V.fresh_name("el"), s_["elem"]))
            self.used_models.add(TRUSTED_SC)
            return SList(s_["n"], Lifted(tmpl, [s_["seq"]]))
        if isinstance(v, SList):
            return v
        return NotImplemented
    if name == "iter" and len(e.args) == 1:
        v = self.ev(e.args[0], st, spec)
        if isinstance(v, SList):
            return v           # iter(list): the same sequence
        return NotImplemented
    if name.startswith("logging.") or name == "print":
        for a in e.args:
            if not isinstance(a, (ast.JoinedStr, ast.Constant)):
                self.ev(a, st, spec)
        return NONE
    if name in ("SortedSet", "SortedDict") and not e.args and not e.keywords:
        self.used_models.add(TRUSTED_SC)
        return alloc(st, dict(empty_map()) if name == "SortedDict" else {"$cls": "SetEmpty"})
    if name == "SortedSet" and len(e.args) == 1:
        v = self.ev(e.args[0], st, spec)
        self.used_models.add(TRUSTED_SC)
        if isinstance(v, MapView) and v.kind == "keys":
            o = _heap(st, v.owner)
            st.assume(*wf_set(o["keys"], o["nkeys"], o["kseq"], o["kidx"]))
            return alloc(st, {"$cls": "SetStr", "mem": o["keys"], "n": o["nkeys"], "seq": o["kseq"], "idx": o["kidx"]})
        s = set_of(self, st, v)
        if s is not None:
            return alloc(st, {"$cls": "SetUnit" if s["elem"] == UnitDT else "SetStr", "mem": s["mem"], "n": s["n"],
                              "seq": s["seq"], "idx": s["idx"]})
        if isinstance(v, Opt) and isinstance(v.val, SList):
            self.oblige(st, z3.Not(v.isnone), f"not-None@{e.lineno}:SortedSet", "exception-freedom", e.lineno, "SortedSet(None) raises TypeError")
            v = v.val
        if isinstance(v, SList) and len(v.elems.cs) == 1 and v.elems.cs[0].sort().range() == R:
            # SortedSet(list of strings): the set of the list's elements (with the model's enumeration invariant)
            new = fresh_set(V.fresh_name("setof"), R)
            x, k = V.fresh("x", R), V.fresh("k", I)
            st.assume(z3.ForAll(x, new["mem"][x] == z3.Exists(k, z3.And(0 <= k, k < v.length, v.elems.cs[0][k] == x)),
                                patterns=[new["mem"][x]]))
            st.assume(*wf_set(new["mem"], new["n"], new["seq"], new["idx"]))
            # cardinality: never more elements than the list has; exactly as many when the list has no duplicate
            k2 = V.fresh("k2", I)
            nodup = z3.ForAll([k, k2], z3.Implies(z3.And(0 <= k, k < k2, k2 < v.length), v.elems.cs[0][k] != v.elems.cs[0][k2]))
            st.assume(new["n"] <= v.length, z3.Implies(nodup, new["n"] == v.length))
            return alloc(st, new)
        return NotImplemented
    if name == "deepcopy" and len(e.args) == 1:
        v = self.ev(e.args[0], st, spec)
        self.used_models.add(TRUSTED_DEEPCOPY)
        return deepcopy_value(self, st, v)
    if name == "Unit":
        args = [self.ev(a, st, spec) for a in e.args]
        kw = {k.arg: self.ev(k.value, st, spec) for k in e.keywords}
        seg = args[0] if args else kw["segment"]
        ann = args[1] if len(args) > 1 else kw.get("annotation", NONE)
        return mk_unit(seg, ann)
    cls = name
    if isinstance(e.func, ast.Name) and isinstance(st.env.get(e.func.id), PyConst) and isinstance(st.env[e.func.id].value, tuple) \
            and st.env[e.func.id].value[0] == "class":
        cls = st.env[e.func.id].value[1]          # `cls()` inside a classmethod
    q = self.method_contract(cls, "__init__") if cls in CLASS_FILE else None
    if q is not None:
        callee = self.registry[q]
        if callee.value_self:
            blank = self.make_param(V.fresh_name("blank_" + cls), callee.params["self"], st)
            self.call_contract(q, e, st, recv=blank)
            return self.last_new_self
        t = callee.params["self"]
        obj = alloc_obj(self, st, t, V.fresh_name("new_" + cls))
        self.call_contract(q, e, st, recv=obj)
        return obj
    return NotImplemented


def deepcopy_value(self, st, v):
    if isinstance(v, Ref):
        o = _heap(st, v)
        rec = {}
        for f, x in o.items():
            rec[f] = deepcopy_value(self, st, x) if isinstance(x, (Ref, Handle)) else x
        return alloc(st, rec)
    if isinstance(v, Handle):
        s = set_of(self, st, v)
        return alloc(st, {"$cls": "SetUnit", "mem": s["mem"], "n": s["n"], "seq": s["seq"], "idx": s["idx"]})
    return v          # immutable values (units, segments, numbers, strings) may be shared


def blank_continuum():
    # an object whose __init__ has not run yet: no field is set (reads before initialisation are engine errors)
    return {"$cls": "Continuum"}


BLANK = {"Continuum": blank_continuum}
Engine.MODELS.insert(0, ctor_model)

_prev_set_field = Engine.set_field


def set_field(self, ref, attr, v, st, node):
    o = st.heap[ref.oid]
    if isinstance(v, Ref) and st.heap[v.oid]["$cls"] == "SetEmpty":
        if o["$cls"] == "Continuum" and attr == "_categories":
            st.heap[v.oid].clear()
            st.heap[v.oid].update(empty_set(R))
        else:
            raise EngineError("empty SortedSet stored in a field of unknown element type")
    if attr == "best_window_size" and not isinstance(v, WinV):
        if isinstance(v, PyConst) and v.value == "inf":
            v = WinV(z3.BoolVal(True), z3.IntVal(0))
        elif is_int(v):
            v = WinV(z3.BoolVal(False), v)
        else:
            raise EngineError(f"best_window_size := {v!r}")
    o[attr] = v


Engine.set_field = set_field

_prev_store_sub2 = Engine.store_sub_other


def store_sub_other2(self, base, t, v, st):
    if isinstance(base, Ref) and _heap(st, base)["$cls"] == "MapOfSets" and isinstance(v, Ref) \
            and _heap(st, v)["$cls"] == "SetEmpty":
        st.heap[v.oid].clear()
        st.heap[v.oid].update(empty_set(UnitDT))
    return _prev_store_sub2(self, base, t, v, st)


Engine.store_sub_other = store_sub_other2


Engine.wrap_bound = lambda self, x: wrap(x)


def coerce_arg(self, t, v, st):
    from .contract import OptT, RealT, ListOf, IntT
    if isinstance(t, OptObjT):
        if isinstance(v, Ref):
            return Opt(z3.BoolVal(False), v)
        if isinstance(v, NoneV):
            return Opt(z3.BoolVal(True), NONE)
        return v
    if isinstance(t, OptT):
        if isinstance(v, Opt):
            return v
        if isinstance(v, Rec) and v.cls == "Field":
            return Opt(z3.BoolVal(False), v.fields["text"])      # csv never yields None: a field is a string
        tmpl = t.elem.fresh(V.fresh_name("dflt"))
        if isinstance(v, NoneV):
            return Opt(z3.BoolVal(True), tmpl)
        return Opt(z3.BoolVal(False), coerce_elem(self, tmpl, v))
    if isinstance(t, RealT) and is_int(v):
        return z3.ToReal(v)
    if isinstance(t, IntT) and isinstance(v, WinV):
        # best_window_size passed as a window size: it must be finite on this path (np.inf is not an integer)
        self.oblige(st, z3.Not(v.isinf), f"window-size-finite#{len(self.obls)}", "exception-freedom", None,
                    "a best_window_size used as an integer window size is not np.inf")
        return v.val
    if isinstance(t, RealT) and isinstance(v, Rec) and v.cls == "Field":
        return v.fields["text"]          # a csv field used as a string
    if isinstance(t, UnitT) and isinstance(v, Opt) and isinstance(v.val, UnitV):
        # an Optional[Unit] passed where a Unit is expected: it must not be None on this path
        self.oblige(st, z3.Not(v.isnone), f"unit-not-None#{len(self.obls)}", "exception-freedom", None,
                    "a unit argument is not None")
        return v.val
    return v


Engine.coerce_arg = coerce_arg


def field_path(self, path, env, heap):
    parts = path.split(".")
    v = env[parts[0]]
    for p in parts[1:-1]:
        v = heap[v.oid][p]
    return v, parts[-1]


def apply_binds(self, callee, sub, cst, st):
    """at a call site: the fields the callee binds hold exactly the declared values"""
    for path, text in callee.binds.items():
        if path.startswith("result."):
            continue        # fields of the result object: bound once the result exists (bind_result)
        obj, fld = field_path(self, path, cst.env, st.heap)
        val = sub.spec(Clause(text), cst)
        root_t = callee.params.get(path.split(".")[0])
        ft = getattr(root_t, "fields", {}).get(fld) if len(path.split(".")) == 2 else None
        if ft is not None:
            val = coerce_arg(self, ft, val, st)
        if isinstance(obj, Ref):
            st.heap[obj.oid][fld] = val
        elif isinstance(obj, Rec):
            cst.env[path.split(".")[0]] = obj.with_field(fld, val)
            self.last_new_self = cst.env[path.split(".")[0]]
        else:
            raise EngineError(f"binds: {path}")


Engine.apply_binds = apply_binds


def bind_result(self, callee, sub, cst, st, res):
    """fields of a freshly allocated result that hold existing objects (e.g. the continuum an alignment is attached to)"""
    for path, text in callee.binds.items():
        if not path.startswith("result."):
            continue
        fld = path.split(".", 1)[1]
        val = sub.spec(Clause(text), cst)
        obj = res.val if isinstance(res, Opt) else res
        cur = st.heap[obj.oid].get(fld)
        if isinstance(cur, Opt) and isinstance(val, Ref):
            val = Opt(z3.BoolVal(False), val)
        st.heap[obj.oid][fld] = val


Engine.bind_result = bind_result

_prev_at_return = Engine.at_return


def at_return(self, st, val, line):
    # bound fields are obligations of the callee's own body
    for path, text in self.c.binds.items():
        if path.startswith("result."):
            fld = path.split(".", 1)[1]
            r = val.val if isinstance(val, Opt) else val
            cur = st.heap[r.oid][fld] if isinstance(r, Ref) else None
            want = self.spec(Clause(text), st)
            ok = isinstance(cur, Opt) and isinstance(cur.val, Ref) and isinstance(want, Ref) and cur.val.oid == want.oid
            g = z3.And(z3.Not(cur.isnone), z3.BoolVal(ok)) if isinstance(cur, Opt) else z3.BoolVal(isinstance(cur, Ref) and cur.oid == want.oid)
            self.oblige(st, g, f"binds/{path}@{line}", "post", line, f"{path} is {text}", None)
            continue
        obj, fld = field_path(self, path, st.env, st.heap)
        cur = st.heap[obj.oid][fld] if isinstance(obj, Ref) else obj.fields[fld]
        want = self.spec(Clause(text), st)
        try:
            g = self.eq(cur, want, st, True) if not (isinstance(cur, SList) or isinstance(want, SList)) else list_eq(cur, want)
        except EngineError:
            g = z3.BoolVal(cur is want)
        self.oblige(st, g, f"binds/{path}@{line}", "post", line, f"{path} == {text}", None)
    return _prev_at_return(self, st, val, line)


def list_eq(a, b):
    if not (isinstance(a, SList) and isinstance(b, SList)):
        return z3.BoolVal(False)
    ca, cb = a.comps(), b.comps()
    if len(ca) != len(cb):
        return z3.BoolVal(False)
    return z3.And(*[x == y for x, y in zip(ca, cb)])


Engine.at_return = at_return


def rec_setattr(self, base, attr, v, st, node):
    """attribute store on a record by value: through the class's property setter when there is one"""
    q = self.method_contract(base.cls, attr + "@setter")
    if q is not None:
        self.call_contract(q, node, st, recv=base, argvals=[v])
        return self.last_new_self
    if attr not in base.fields:
        raise EngineError(f"store to unknown attribute {base.cls}.{attr}")
    return base.with_field(attr, v)


Engine.rec_setattr = rec_setattr


def rec_attr_model(self, e, base, st, spec):
    if isinstance(base, Rec) and e.attr not in base.fields and not spec:
        q = self.c.calls.get(ast.unparse(e)) or self.method_contract(base.cls, e.attr)
        if q is not None and self.registry[q].is_property:
            return self.call_contract(q, e, st, recv=base, argvals=[])
    return NotImplemented


Engine.ATTR_MODELS.append(rec_attr_model)


def havoc_heap(self, st, spec):
    """loop head: forget the contents of the heap objects the loop may modify (LoopSpec.modifies names them)"""
    names = [m for m in spec.modifies if m.split(".")[0] in st.env and isinstance(st.env[m.split(".")[0]], (Ref, Opt))]
    if not names:
        return
    for (oid, fld) in modifies_set(self, names, st.env, st.heap):
        o = st.heap[oid]
        for f in list(o):
            if f == "$cls" or (fld != "*" and f != fld):
                continue
            v = o[f]
            if isinstance(v, (Ref, PyConst, NoneV, Func)):
                continue
            nv = V.fresh_like(v, f)
            o[f] = nv
            st.assume(*self.type_facts(nv))


Engine.havoc_heap = havoc_heap


def heap_snapshot(self, st):
    """field values of every heap object at a loop head (after the havoc of what the loop declares it modifies)"""
    return ({oid: dict(o) for oid, o in st.heap.items()}, dict(st.env))


def loop_frame_check(self, snap, st, spec, lab):
    """soundness of the loop cut: the arbitrary-iteration state forgets only what LoopSpec.modifies names, so a body that changes any
    other heap object would be verified against a stale heap.  Every object that existed at the head and is not covered by the loop's
    modifies must come out of the body with the very same field values."""
    if snap is None:
        return
    heap0, env0 = snap
    names = [m for m in spec.modifies if m.split(".")[0] in env0 and isinstance(env0[m.split(".")[0]], (Ref, Opt))]
    env_refs = {k: (v.val if isinstance(v, Opt) else v) for k, v in env0.items()}
    allowed = modifies_set(self, names, env_refs, heap0) if names else set()
    for oid, old in heap0.items():
        new = st.heap.get(oid)
        if new is None:
            continue
        for f, ov in old.items():
            if f == "$cls" or (oid, "*") in allowed or (oid, f) in allowed:
                continue
            nv = new.get(f)
            if nv is ov:
                continue
            same = False
            if isinstance(ov, Ref) and isinstance(nv, Ref):
                same = ov.oid == nv.oid
            else:
                co, cn = V.comps(ov) if not isinstance(ov, (PyConst, NoneV, Func)) else None, \
                    V.comps(nv) if not isinstance(nv, (PyConst, NoneV, Func)) else None
                if co is not None and cn is not None and len(co) == len(cn):
                    same = all(a is b or (is_z3(a) and is_z3(b) and a.eq(b)) for a, b in zip(co, cn))
                elif co is None and cn is None:
                    same = repr(ov) == repr(nv)
            if not same:
                raise EngineError(f"loop {lab} changes field {f!r} of a {old['$cls']} object that its LoopSpec.modifies does not name "
                                  f"(the loop head would keep a stale heap): add it to modifies")


Engine.heap_snapshot = heap_snapshot
Engine.loop_frame_check = loop_frame_check


def method_generator_iter(self, node, st):
    """for x in obj.gen(args): a method that is a generator under contract"""
    if not (isinstance(node, ast.Call) and isinstance(node.func, ast.Attribute)):
        return NotImplemented
    try:
        recv = self.ev(node.func.value, st, False)
    except EngineError:
        return NotImplemented
    recv = deopt(self, recv, st, False, node)
    if not isinstance(recv, Ref):
        return NotImplemented
    q = self.method_contract(_heap(st, recv)["$cls"], node.func.attr)
    if q is None or not self.registry[q].yields:
        return NotImplemented
    return self.generator_iter(q, node, st, argvals=[recv] + [self.ev(a, st, False) for a in node.args])


Engine.ITER_MODELS.append(method_generator_iter)
