"""Shared helpers of the replay / hunt harness.  Runs under /venv/bin/python against the REAL package (numba-compiled),
imported from $VERIF_REPO (default /repo) - never a copy of the code."""
import os
import sys
import warnings

REPO = os.environ.get("VERIF_REPO", "/repo")
warnings.filterwarnings("ignore")
os.environ.setdefault("NUMBA_DISABLE_PERFORMANCE_WARNINGS", "1")
if REPO not in sys.path:
    sys.path.insert(0, REPO)

import numpy as np  # noqa: E402

_pkg = None


def pkg():
    global _pkg
    if _pkg is None:
        import logging
        logging.disable(logging.WARNING)
        import pygamma_agreement as pa
        assert os.path.realpath(os.path.dirname(pa.__file__)) == os.path.realpath(os.path.join(REPO, "pygamma_agreement")), \
            f"imported {pa.__file__}, expected the package under {REPO}"
        _pkg = pa
    return _pkg


class Failure(dict):
    pass


def fail(clause, inputs, observed, expected, **kw):
    d = Failure(clause=clause, inputs=inputs, observed=observed, expected=expected)
    d.update(kw)
    return d


def jsonable(x):
    if isinstance(x, (np.floating,)):
        return float(x)
    if isinstance(x, (np.integer,)):
        return int(x)
    if isinstance(x, np.ndarray):
        return jsonable(x.tolist())
    if isinstance(x, (list, tuple)):
        return [jsonable(v) for v in x]
    if isinstance(x, dict):
        return {str(k): jsonable(v) for k, v in x.items()}
    if isinstance(x, (str, int, float, bool)) or x is None:
        return x
    return repr(x)


def close(a, b, rtol=1e-4, atol=1e-6):
    if a == b:
        return True          # also equal infinities
    if a != a and b != b:
        return True          # both NaN (0/0 in both computations)
    return abs(a - b) <= atol + rtol * max(abs(a), abs(b))


# ------------------------------------------------------------------------------------------ builders
def make_continuum(spec):
    """spec: {annotator: [[start, end, label|None], ...]}  (annotators with [] get no unit)"""
    pa = pkg()
    from pyannote.core import Segment
    c = pa.Continuum()
    for ann, units in spec.items():
        c.add_annotator(ann)
        for (s, e, lab) in units:
            c.add(ann, Segment(s, e), lab)
    return c


_dissim_cache = {}


def make_dissim(desc):
    """desc: ['positional', delta] | ['absolute', delta] | ['combined', alpha, beta, delta, cat_desc|None]
             | ['precomputed', cats, matrix, delta] | ['ordinal', labels, p|None, delta] | ['numerical', labels, delta]
             | ['levenshtein', labels, delta]"""
    pa = pkg()
    key = repr(desc)
    if key in _dissim_cache:
        return _dissim_cache[key]
    from sortedcontainers import SortedSet
    kind = desc[0]
    if kind == "positional":
        d = pa.PositionalSporadicDissimilarity(delta_empty=desc[1])
    elif kind == "absolute":
        d = pa.AbsoluteCategoricalDissimilarity(delta_empty=desc[1])
    elif kind == "precomputed":
        d = pa.PrecomputedCategoricalDissimilarity(SortedSet(desc[1]), np.array(desc[2], dtype=np.float32), delta_empty=desc[3])
    elif kind == "ordinal":
        d = pa.OrdinalCategoricalDissimilarity(desc[1], p=desc[2], delta_empty=desc[3])
    elif kind == "numerical":
        d = pa.NumericalCategoricalDissimilarity(desc[1], delta_empty=desc[2])
    elif kind == "levenshtein":
        d = pa.LevenshteinCategoricalDissimilarity(desc[1], delta_empty=desc[2])
    elif kind == "combined":
        cat = make_dissim(desc[4]) if len(desc) > 4 and desc[4] is not None else None
        d = pa.CombinedCategoricalDissimilarity(alpha=desc[1], beta=desc[2], delta_empty=desc[3], cat_dissim=cat)
    else:
        raise ValueError(kind)
    _dissim_cache[key] = d
    return d


def grid_continua(rng, n_annot, max_units, grid, labels, allow_empty=True, count=50):
    """random small continua on an integer grid (identical / nested / overlapping segments are frequent)"""
    out = []
    for _ in range(count):
        spec = {}
        for a in range(n_annot):
            k = rng.randint(0 if allow_empty else 1, max_units)
            units = set()
            for _u in range(k):
                s = rng.randint(0, grid - 1)
                e = rng.randint(s + 1, grid)
                units.add((float(s), float(e), rng.choice(labels)))
            spec[f"ann{a}"] = [list(u) for u in sorted(units, key=lambda u: (u[0], u[1], u[2] is not None, u[2] or ""))]
        if sum(len(v) for v in spec.values()) >= 1:
            out.append(spec)
    return out
