"""child process of the C06 oracle: one seeded gamma computation under the PYTHONHASHSEED given in the environment"""
import json
import os
import sys
sys.path.insert(0, os.path.dirname(os.path.abspath(__file__)))
import common  # noqa: E402,F401
from oracles import schedules  # noqa: E402
print(json.dumps(schedules.run_gamma(json.loads(sys.argv[1]), "pool")))
