"""Oracles for pygamma_agreement/sampler.py (C15, C16)."""
import common
from common import pkg, fail
from . import Oracle

SP = "pygamma_agreement/sampler.py::"


def rps_cases(rng, tier):
    yield {"pivot": 15.0, "dist": 2.5, "segments": [[0.0, 5.0]]}
    yield {"pivot": 5.0, "dist": 2.5, "segments": [[20.0, 30.0]]}
    for _ in range(300 if tier == "quick" else 3000):
        k = rng.randint(0, 4)
        segs = []
        for _s in range(k):
            a = rng.randint(-5, 25)
            segs.append([float(a), float(a + rng.randint(1, 12))])
        yield {"pivot": float(rng.randint(-3, 25)) + rng.choice([0.0, 0.5]), "dist": rng.choice([0.5, 1.0, 2.5, 4.0]), "segments": segs}


def rps_check(inp):
    pa = pkg()
    from pyannote.core import Segment
    segs = [Segment(a, b) for a, b in inp["segments"]]
    out = pa.ShuffleContinuumSampler._remove_pivot_segment(inp["pivot"], list(segs), inp["dist"])
    res = [(float(s.start), float(s.end)) for s in out]
    lo, hi = inp["pivot"] - inp["dist"], inp["pivot"] + inp["dist"]
    pts = set()
    for a, b in inp["segments"] + [list(r) for r in res] + [[lo, hi]]:
        for x in (a, b):
            pts.update([x - 0.25, x + 0.25])
        pts.add((a + b) / 2)
    for x in sorted(pts):
        if x in (lo, hi):
            continue
        want = any(a <= x <= b for a, b in inp["segments"]) and not (lo < x < hi)
        got = any(a <= x <= b for a, b in res)
        if want != got:
            return fail("result covers exactly the input minus the open zone (pivot-dist, pivot+dist)", inp,
                        {"result": res, "point": x, "covered": got}, {"covered": want})
    return None


Oracle(SP + "ShuffleContinuumSampler._remove_pivot_segment", rps_cases, rps_check)
