"""Oracles for pygamma_agreement/sampler.py (C15, C16)."""
import common
from common import pkg, fail
from . import Oracle

SP = "pygamma_agreement/sampler.py::"


def rps_cases(rng, tier):
    yield {"pivot": 15.0, "dist": 2.5, "segments": [[0.0, 5.0]]}
    yield {"pivot": 5.0, "dist": 2.5, "segments": [[20.0, 30.0]]}
    for _ in range(300 if tier == "quick" else 3000):
        k = rng.randint(0, 4)
        segs = []
        for _s in range(k):
            a = rng.randint(-5, 25)
            segs.append([float(a), float(a + rng.randint(1, 12))])
        yield {"pivot": float(rng.randint(-3, 25)) + rng.choice([0.0, 0.5]), "dist": rng.choice([0.5, 1.0, 2.5, 4.0]), "segments": segs}


def rps_check(inp):
    pa = pkg()
    from pyannote.core import Segment
    segs = [Segment(a, b) for a, b in inp["segments"]]
    out = pa.ShuffleContinuumSampler._remove_pivot_segment(inp["pivot"], list(segs), inp["dist"])
    res = [(float(s.start), float(s.end)) for s in out]
    lo, hi = inp["pivot"] - inp["dist"], inp["pivot"] + inp["dist"]
    pts = set()
    for a, b in inp["segments"] + [list(r) for r in res] + [[lo, hi]]:
        for x in (a, b):
            pts.update([x - 0.25, x + 0.25])
        pts.add((a + b) / 2)
    for x in sorted(pts):
        if x in (lo, hi):
            continue
        want = any(a <= x <= b for a, b in inp["segments"]) and not (lo < x < hi)
        got = any(a <= x <= b for a, b in res)
        if want != got:
            return fail("result covers exactly the input minus the open zone (pivot-dist, pivot+dist)", inp,
                        {"result": res, "point": x, "covered": got}, {"covered": want})
    return None


Oracle(SP + "ShuffleContinuumSampler._remove_pivot_segment", rps_cases, rps_check)


# ------------------------------------------------------------------------------------------ ShuffleContinuumSampler (C16)
def shuffle_cases(rng, tier):
    labels = ["a", "b", None]
    # continua whose lower bound is not 0: shifted / negative timestamps followed by reset_bounds(), integer timestamps
    for k, (off, ints) in enumerate(((500.0, False), (-40.0, False), (7.0, True), (0.0, True))):
        for spec in common.grid_continua(rng, 3, 3, 30, labels, allow_empty=False, count=2 if tier == "quick" else 10):
            sp = {a: [[(int(u[0] + off) if ints else u[0] + off), (int(u[1] + off) if ints else u[1] + off), u[2]] for u in us] for a, us in spec.items()}
            yield {"continuum": sp, "pivot_type": ["float_pivot", "int_pivot"][k % 2], "ground_truth": None if k % 2 else sorted(sp)[:2],
                   "seed": rng.randint(0, 10 ** 6), "reset_bounds": True}
    for n, mx in ((2, 3), (3, 3), (4, 2), (5, 2)):
        for spec in common.grid_continua(rng, n, mx, 30, labels, allow_empty=False, count=6 if tier == "quick" else 40):
            for pt in ("float_pivot", "int_pivot"):
                gt = None if rng.random() < 0.5 else sorted(spec)[:max(2, n - 1)]
                yield {"continuum": spec, "pivot_type": pt, "ground_truth": gt, "seed": rng.randint(0, 10 ** 6)}


def shuffle_check(inp):
    pa = pkg()
    import numpy as np
    c = common.make_continuum(inp["continuum"])
    if inp.get("reset_bounds"):
        c.reset_bounds()
    s = pa.ShuffleContinuumSampler(pivot_type=inp["pivot_type"])
    s.init_sampling(c, inp["ground_truth"])
    pivots = []
    orig = s._random_from_segments

    def rec(segments):
        p = orig(segments)
        pivots.append((float(p), [(float(x.start), float(x.end)) for x in segments]))
        return p
    s._random_from_segments = rec
    np.random.seed(inp["seed"])
    before = [(a, [(u.segment.start, u.segment.end, u.annotation) for u in c.iter_annotator(a)]) for a in c.annotators]
    try:
        new = s.sample_from_continuum
    except Exception as ex:   # noqa
        return fail("drawing a sample returns a continuum", inp, repr(ex), "a continuum")
    gt = sorted(inp["ground_truth"] or inp["continuum"])
    clause = ("sample = |GT| annotators, each a copy of one ground-truth annotator's units shifted by one pivot within the bounds "
              "(wrapped by the continuum's length when the start passes the upper bound); pivots pairwise >= avg unit length / 2 apart")
    if len(new.annotators) != len(gt) or not new:
        return fail(clause + " [annotator count / non-empty]", inp, list(new.annotators), len(gt))
    lo, hi = c.bounds
    dist = c.avg_length_unit / 2
    # the last |GT| recorded pivots belong to the returned sample (earlier rounds produced an empty continuum)
    used = pivots[-len(gt):]
    for k, ann in enumerate(new.annotators):
        skey = lambda t: (t[0], t[1], t[2] is not None, t[2] or "")    # noqa: E731
        units = sorted(((float(u.segment.start), float(u.segment.end), u.annotation) for u in new.iter_annotator(ann)), key=skey)
        piv = used[k][0] if k < len(used) else None
        ok = False
        for g in gt:
            ref = [(float(u.segment.start), float(u.segment.end), u.annotation) for u in c.iter_annotator(g)]
            cands = [piv] if piv is not None else []
            if piv is None and ref and units:
                # fallback draw (no available segment left): recover the pivot from the units themselves
                for (ns, _ne, _nl) in units:
                    cands += [ns - ref[0][0], ns - ref[0][0] + (hi - lo)]
            for p in cands:
                sh = sorted(((s0 + p - (hi - lo) if s0 + p > hi else s0 + p, e0 + p - (hi - lo) if s0 + p > hi else e0 + p, l)
                             for (s0, e0, l) in ref), key=skey)
                if len(sh) == len(units) and all(abs(a[0] - b[0]) < 1e-6 and abs(a[1] - b[1]) < 1e-6 and a[2] == b[2] for a, b in zip(sh, units)):
                    if piv is not None or (lo - 1e-9 <= p <= hi + 1e-9):
                        ok = True
        if not ok:
            return fail(clause + " [not a wrapped translation of a ground-truth annotator by its pivot]", inp,
                        {"annotator": ann, "units": units, "pivot": piv}, "shift of one ground-truth annotator")
        if piv is not None and not (lo - 1e-9 <= piv <= hi + 1e-9):
            return fail(clause + " [pivot within the bounds]", inp, piv, [lo, hi])
        if inp["pivot_type"] == "int_pivot" and piv is not None and float(piv) != float(int(piv)):
            return fail(clause + " [whole-number pivot in int mode]", inp, piv, "integer")
    for i in range(len(used)):
        for j in range(i):
            if abs(used[i][0] - used[j][0]) < dist - 1e-9:
                return fail(clause + " [separation]", inp, {"pivots": [u[0] for u in used], "min_dist": dist,
                                                            "available_when_drawn": used[i][1]}, ">= min_dist apart")
    after = [(a, [(u.segment.start, u.segment.end, u.annotation) for u in c.iter_annotator(a)]) for a in c.annotators]
    if before != after:
        return fail("sampling leaves the reference continuum unchanged", inp, after, before)
    return None


Oracle(SP + "ShuffleContinuumSampler.sample_from_continuum", shuffle_cases, shuffle_check)
Oracle(SP + "ShuffleContinuumSampler._random_from_segments", shuffle_cases, shuffle_check)


# ------------------------------------------------------------------------------------------ StatisticalContinuumSampler (C15)
def stat_cases(rng, tier):
    labels = ["a", "b", "c"]
    k = 0
    for n, mx in ((2, 4), (3, 3), (4, 3)):
        # (references where an annotator has no unit are part of the domain: the measured statistics count that annotator)
        for spec in common.grid_continua(rng, n, mx, 40, labels, allow_empty=False, count=5 if tier == "quick" else 30) + \
                common.grid_continua(rng, n, mx, 40, labels, allow_empty=True, count=3 if tier == "quick" else 15):
            yield {"continuum": spec, "ground_truth": None if k % 2 else sorted(spec)[:2], "custom": k % 3 == 0, "weights": k % 2 == 0,
                   "seed": rng.randint(0, 10 ** 6), "draws": 40 if tier == "quick" else 300}
            k += 1


def stat_check(inp):
    import numpy as np
    pa = pkg()
    c = common.make_continuum(inp["continuum"])
    before = [(a, [(u.segment.start, u.segment.end, u.annotation) for u in c.iter_annotator(a)]) for a in c.annotators]
    s = pa.StatisticalContinuumSampler()
    np.random.seed(inp["seed"])
    if inp["custom"]:
        anns = ["x1", "x2", "x3"]
        cats = ["p", "q", "r"]
        w = [0.5, 0.5, 0.0] if inp["weights"] else None
        par = dict(avg_num_units_per_annotator=3.0, std_num_units_per_annotator=1.0, avg_gap=2.0, std_gap=1.0, avg_duration=4.0, std_duration=1.5)
        s.init_sampling_custom(anns, categories=cats, categories_weight=w, **par)
        gt, allowed = anns, set(cats[:2] if w else cats)
    else:
        s.init_sampling(c, inp["ground_truth"])
        gt, allowed = sorted(inp["ground_truth"] or inp["continuum"]), set(c.categories)
        durs = [u[1] - u[0] for us in inp["continuum"].values() for u in us]
        nbs = [len(us) for us in inp["continuum"].values()]
        labs = [u[2] for us in inp["continuum"].values() for u in us]
        par = dict(avg_num_units_per_annotator=float(np.mean(nbs)), std_num_units_per_annotator=float(np.std(nbs)),
                   avg_duration=float(np.mean(durs)), std_duration=float(np.std(durs)))
        measured = dict(avg_num_units_per_annotator=s._avg_nb_units_per_annotator, std_num_units_per_annotator=s._std_nb_units_per_annotator,
                        avg_duration=s._avg_unit_duration, std_duration=s._std_unit_duration)
        for k_, v_ in par.items():
            if abs(measured[k_] - v_) > 1e-9:
                return fail("init_sampling measures mean / deviation of units per annotator and of durations on the reference", inp,
                            {k_: measured[k_]}, {k_: v_})
        freq = {l: labs.count(l) / len(labs) for l in set(labs)}
        got = dict(zip([str(x) for x in s._categories], [float(x) for x in s._categories_weight]))
        if any(abs(got.get(l, 0) - f) > 1e-9 for l, f in freq.items()) or abs(sum(got.values()) - 1) > 1e-9:
            return fail("category weights are the category frequencies of the reference", inp, got, freq)
    nb, dur, cat_counts = [], [], {}
    for _ in range(inp["draws"]):
        try:
            new = s.sample_from_continuum
        except ValueError as ex:
            continue            # the measure-zero boundary draw (duration exactly the precision) is rejected by Continuum.add
        if not new or list(new.annotators) != gt:
            return fail("every statistical sample is non-empty and has exactly the ground-truth annotators", inp, list(new.annotators), gt)
        for a in new.annotators:
            us = list(new.iter_annotator(a))
            nb.append(len(us))
            for u in us:
                if not (u.segment.end - u.segment.start > 1e-6):
                    return fail("only segments longer than the segment precision", inp, (u.segment.start, u.segment.end), "> 1e-6")
                if u.annotation not in allowed:
                    return fail("only categories of the reference (or of the supplied list, with non-zero weight)", inp, u.annotation, sorted(allowed))
                dur.append(u.segment.end - u.segment.start)
                cat_counts[u.annotation] = cat_counts.get(u.annotation, 0) + 1
    after = [(a, [(u.segment.start, u.segment.end, u.annotation) for u in c.iter_annotator(a)]) for a in c.annotators]
    if before != after:
        return fail("sampling leaves the reference continuum unchanged", inp, after, before)
    # loose distribution checks (5 standard errors): unit durations ~ |N(avg, std)| conditioned on >= precision
    if len(dur) > 200 and par["std_duration"] < par["avg_duration"] / 3:
        m = float(np.mean(dur))
        se = max(par["std_duration"], 1e-6) / np.sqrt(len(dur))
        if abs(m - par["avg_duration"]) > 6 * se + 0.02 * par["avg_duration"]:
            return fail("unit durations follow the normal law with the measured / supplied parameters", inp, m, par["avg_duration"])
    return None


Oracle(SP + "StatisticalContinuumSampler.sample_from_continuum", stat_cases, stat_check)
Oracle(SP + "StatisticalContinuumSampler.init_sampling", stat_cases, stat_check)


# ---- the two ASSUMED contracts the proof of ShuffleContinuumSampler.sample_from_continuum rests on, checked clause by clause on the real code
def assumed_cases(rng, tier):
    n = 120 if tier == "quick" else 1500
    for k in range(n):
        segs, x = [], rng.uniform(-50, 50)
        for _ in range(rng.randint(1, 5)):
            ln = rng.choice([0.001, 0.3, 1.0, 7.5, 40.0]) * rng.uniform(0.5, 1.5)
            segs.append([x, x + ln])
            x += ln + rng.choice([0.0, 0.2, 5.0])
        if rng.random() < 0.3:
            segs = [[float(int(a)), float(int(a) + max(1, int(b - a)))] for a, b in segs]      # integer timestamps
        yield {"segments": segs, "pivot_type": rng.choice(["float_pivot", "int_pivot"]), "seed": rng.randrange(10 ** 6), "ints": rng.random() < 0.3}


def assumed_check(inp):
    pa = pkg()
    import numpy as np
    from pyannote.core import Segment
    from pygamma_agreement.sampler import ShuffleContinuumSampler
    s = ShuffleContinuumSampler(pivot_type=inp["pivot_type"])
    conv = (lambda v: int(v)) if inp["ints"] and all(float(a).is_integer() and float(b).is_integer() for a, b in inp["segments"]) else float
    segs = [Segment(conv(a), conv(b)) for a, b in inp["segments"]]
    np.random.seed(inp["seed"])
    try:
        r = s._random_from_segments(list(segs))
    except Exception as ex:   # noqa
        return fail("assumed: _random_from_segments returns on a non-empty list of positive-length segments", inp, repr(ex), "a pivot")
    if inp["pivot_type"] == "float_pivot" and not any(a <= r <= b for a, b in inp["segments"]):
        return fail("assumed: a float pivot lies in one of the given segments", inp, float(r), inp["segments"])
    if inp["pivot_type"] == "int_pivot" and float(r) != int(r):
        return fail("assumed: an integer pivot is a whole number", inp, float(r), "a whole number")
    # avg_length_unit > 0 on a continuum with a valid unit
    c = pa.Continuum()
    for k, (a, b) in enumerate(inp["segments"]):
        c.add(f"a{k % 2}", Segment(a, b), "x")
    if not c.avg_length_unit > 0:
        return fail("assumed: avg_length_unit is positive on a continuum with a valid unit", inp, float(c.avg_length_unit), "> 0")
    return None


Oracle(SP + "ShuffleContinuumSampler._random_from_segments#assumed-contract", assumed_cases, assumed_check)
