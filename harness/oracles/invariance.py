"""Oracle for C09 (metamorphic, on the real code): best-alignment disorder unchanged under annotator renaming / permutation, category
renaming, time translation, time scaling; multiplying delta_empty by c multiplies every disorder by c and leaves gamma (same seed) unchanged."""
import numpy as np
import common
from common import pkg, fail, close
from . import Oracle

DS = "pygamma_agreement/dissimilarity.py::"


def cases(rng, tier):
    k = 0
    for n, mx, cnt in ((2, 8, 4), (3, 4, 4), (5, 2, 3), (2, 3, 4)):
        for spec in common.grid_continua(rng, n, mx, 40, ["a", "b", "c"], allow_empty=False, count=cnt if tier == "quick" else cnt * 6):
            yield {"continuum": spec, "alpha": rng.choice([0.0, 1.0, 3.0]), "beta": rng.choice([0.0, 1.0, 2.0]), "delta": rng.choice([0.5, 1.0, 2.0]),
                   "cat": ["absolute", "ordinal"][k % 2], "transform": ["rename_annotators", "rename_categories", "shift", "scale", "delta", "gamma_delta"][k % 6],
                   "seed": rng.randint(0, 10 ** 6)}
            k += 1
    # a change of time unit (seconds -> hours, -> milliseconds, a power of two): positional weight > 0 so that positions matter
    short = {"ann0": [[0.0, 1.0, "a"], [5.0, 6.0, "b"], [10.0, 12.0, "a"]], "ann1": [[0.5, 1.5, "a"], [5.0, 7.0, "b"], [11.0, 12.0, "a"]],
             "ann2": [[0.0, 2.0, "a"], [6.0, 7.0, "b"]]}           # units of one or two seconds: after the change of unit every duration is tiny
    for spec in [short] + common.grid_continua(rng, 3, 3, 40, ["a", "b", "c"], allow_empty=False, count=1 if tier == "quick" else 4):
        for f in (2.0 ** -12, 1.0 / 3600.0, 1000.0):
            yield {"continuum": spec, "alpha": 1.0, "beta": rng.choice([0.0, 1.0]), "delta": 1.0, "cat": "absolute", "transform": "scale",
                   "scale_factor": f, "seed": rng.randint(0, 10 ** 6)}


def make(inp, spec, delta, labels):
    pa = pkg()
    cat = pa.AbsoluteCategoricalDissimilarity(delta_empty=delta) if inp["cat"] == "absolute" else \
        pa.OrdinalCategoricalDissimilarity(sorted(labels), delta_empty=delta)
    d = pa.CombinedCategoricalDissimilarity(alpha=inp["alpha"], beta=inp["beta"], delta_empty=delta, cat_dissim=cat)
    return common.make_continuum(spec), d


def check(inp):
    import random
    pa = pkg()
    rng = random.Random(inp["seed"])
    spec = inp["continuum"]
    labels = ["a", "b", "c"]
    c, d = make(inp, spec, inp["delta"], labels)
    base = float(c.get_best_alignment(d).disorder)
    t = inp["transform"]
    factor = 1.0
    spec2, labels2, delta2 = spec, labels, inp["delta"]
    if t == "rename_annotators":
        names = [f"r{rng.randint(0, 99):02d}_{i}" for i in range(len(spec))]
        rng.shuffle(names)
        spec2 = {names[i]: spec[a] for i, a in enumerate(sorted(spec))}
    elif t == "rename_categories":
        m = {"a": "k1", "b": "k2", "c": "k3"} if inp["cat"] == "ordinal" else dict(zip(labels, rng.sample(["zz", "mm", "aa"], 3)))
        labels2 = [m[l] for l in labels]
        spec2 = {a: [[u[0], u[1], m[u[2]]] for u in us] for a, us in spec.items()}
    elif t == "shift":
        s = rng.choice([-17.0, 3.5, 1000.0])
        spec2 = {a: [[u[0] + s, u[1] + s, u[2]] for u in us] for a, us in spec.items()}
    elif t == "scale":
        k = inp.get("scale_factor") or rng.choice([0.5, 2.0, 8.0])
        spec2 = {a: [[u[0] * k, u[1] * k, u[2]] for u in us] for a, us in spec.items()}
    elif t in ("delta", "gamma_delta"):
        factor = rng.choice([0.5, 2.0, 4.0])
        delta2 = inp["delta"] * factor
    c2, d2 = make(inp, spec2, delta2, labels2)
    if t == "gamma_delta":
        np.random.seed(inp["seed"])
        g1 = c.compute_gamma(d, n_samples=3, sampler=pa.ShuffleContinuumSampler(pivot_type="float_pivot"))
        np.random.seed(inp["seed"])
        g2 = c2.compute_gamma(d2, n_samples=3, sampler=pa.ShuffleContinuumSampler(pivot_type="float_pivot"))
        if not close(float(g1.gamma), float(g2.gamma), rtol=2e-3, atol=1e-4):
            return fail("gamma (same seed) is unchanged when delta_empty is multiplied by c in all components", dict(inp, factor=factor),
                        float(g2.gamma), float(g1.gamma))
        return None
    other = float(c2.get_best_alignment(d2).disorder)
    if not close(other, base * factor, rtol=2e-3, atol=1e-5):
        return fail(f"best-alignment disorder invariant under {t} (x c for delta_empty x c)", dict(inp, factor=factor), other, base * factor)
    return None


Oracle(DS + "PositionalSporadicDissimilarity.compile_d_mat.<locals>.d_mat#invariance", cases, check)
