"""Executable contracts (oracles) of the functions under contract: written from the property statements, evaluated on
the real functions.  Used for (a) replaying / hunting when a proof obligation fails, (b) the bounded conformance runs
of the thorough tier (labelled bounded, never counted as proved)."""
ORACLES = {}


class Oracle:
    def __init__(self, qualname, cases, check, doc=""):
        self.qualname, self.cases, self.check, self.doc = qualname, cases, check, doc
        ORACLES[qualname] = self


from . import kernels, alignments, continuum_history, samplers, dissims, disorders, gammacat, purity, schedules, gammas, invariance, cli, fileio, cst, fast, validity  # noqa: E402,F401
