"""Oracle for disorder values (C03): unitary disorder = mean over the n(n-1)/2 annotator pairs (delta_empty when either is empty);
alignment disorder = sum / mean number of units per annotator; cached values, per-unitary values and recomputation agree; no
dependence on the order in which annotators are listed inside a unitary alignment."""
import common
from common import pkg, fail, close
from . import Oracle
from .alignments import ud, DISSIMS, run_alignment

AL = "pygamma_agreement/alignment.py::"
DS = "pygamma_agreement/dissimilarity.py::"


def cases(rng, tier):
    labels = ["a", "b"]
    k = 0
    for n, mx, cnt in ((2, 3, 8), (3, 2, 8), (4, 2, 4), (5, 1, 3)):
        for spec in common.grid_continua(rng, n, mx, 6, labels, count=cnt if tier == "quick" else cnt * 8):
            yield {"continuum": spec, "dissim": DISSIMS[k % len(DISSIMS)], "mode": ["best", "soft", "hand", "hand-detached", "unitary"][k % 5],
                   "seed": rng.randint(0, 10 ** 6)}
            k += 1


def tuples_of(al):
    return [tuple(None if u is None else (float(u.segment.start), float(u.segment.end), u.annotation) for _, u in
                  sorted(ua.n_tuple, key=lambda p: p[0])) for ua in al.unitary_alignments]


def check(inp):
    import random
    pa = pkg()
    from pyannote.core import Segment
    rng = random.Random(inp["seed"])
    desc = inp["dissim"]
    spec = inp["continuum"]
    anns = sorted(spec)
    n = len(anns)
    c = common.make_continuum(spec)
    d = common.make_dissim(desc)
    mode = inp["mode"]
    xbar_c = sum(len(v) for v in spec.values()) / n
    if mode in ("best", "soft"):
        _, _, al = run_alignment({"continuum": spec, "dissim": desc, "backend": "cbc"}, mode == "soft")
        xbar = xbar_c
    else:
        # a hand-built valid partition: greedy random grouping, annotators listed in shuffled order inside each n-tuple
        rem = {a: [tuple(u) for u in spec[a]] for a in anns}
        uas = []
        while any(rem.values()):
            tup = []
            for a in anns:
                if rem[a] and rng.random() < 0.7:
                    tup.append((a, rem[a].pop()))
                else:
                    tup.append((a, None))
            if all(u is None for _, u in tup):
                continue
            rng.shuffle(tup)
            uas.append(pa.UnitaryAlignment([(a, None if u is None else pa.continuum.Unit(Segment(u[0], u[1]), u[2])) for a, u in tup]))
        if mode == "unitary":
            for ua in uas:
                t = tuple(None if u is None else (float(u.segment.start), float(u.segment.end), u.annotation)
                          for _, u in sorted(ua.n_tuple, key=lambda p: p[0]))
                got = float(ua.compute_disorder(d))
                if not close(got, ud(desc, t), rtol=2e-3, atol=1e-5) or not close(float(ua.disorder), ud(desc, t), rtol=2e-3, atol=1e-5):
                    nreal = sum(x is not None for x in t)
                    return fail("UnitaryAlignment.compute_disorder == mean over the n(n-1)/2 pairs (delta_empty when either is empty)"
                                + (" [fewer real units than annotators]" if nreal < n else " [all slots real]"),
                                dict(inp, nb_real=nreal, n=n), got, ud(desc, t))
            return None
        al = pa.Alignment(uas, continuum=c if mode == "hand" else None, check_validity=(mode == "hand"))
        xbar = xbar_c if mode == "hand" else sum(sum(x is not None for _, x in ua.n_tuple) for ua in uas) / n
    taus = tuples_of(al)
    want = sum(ud(desc, t) for t in taus) / xbar
    rec = float(al.compute_disorder(d))
    if not close(rec, want, rtol=2e-3, atol=1e-5):
        return fail("Alignment.compute_disorder == sum of unitary disorders / mean units per annotator", inp, rec, want)
    if not close(float(al.disorder), want, rtol=2e-3, atol=1e-5):
        return fail("Alignment.disorder agrees with the recomputed value", inp, float(al.disorder), want)
    for ua, t in zip(al.unitary_alignments, taus):
        if not close(float(ua.disorder), ud(desc, t), rtol=2e-3, atol=1e-5):
            return fail("per-unitary disorder == definition", inp, float(ua.disorder), ud(desc, t))
    if mode in ("best", "soft"):
        _, _, al2 = run_alignment({"continuum": spec, "dissim": desc, "backend": "cbc"}, mode == "soft")
        if not close(float(al2.disorder), want, rtol=2e-3, atol=1e-5):
            return fail("cached disorder of a returned alignment == value recomputed from its units", inp, float(al2.disorder), want)
    return None


for q in (AL + "Alignment.compute_disorder", AL + "Alignment.disorder", AL + "UnitaryAlignment.compute_disorder",
          DS + "AbstractDissimilarity._build_arrays_alignment", DS + "AbstractDissimilarity.compute_disorder",
          DS + "AbstractDissimilarity._compute_alignment_disorders", AL + "Alignment.avg_num_annotations_per_annotator"):
    Oracle(q, cases, check)
