"""Oracle for the Continuum operations (C13, C14): random operation sequences replayed on the real class and on a plain
set-per-annotator model written from the property statement; after every operation the observable view must agree."""
import copy as _copy
import common
from common import pkg, fail
from . import Oracle

CT = "pygamma_agreement/continuum.py::"
ANNS = ["ann_b", "ann_a", "c"]
LABELS = [None, "x", "y"]


def key(u):
    return (u[0], u[1], u[2] is not None, u[2] or "")


class Model:
    def __init__(self):
        self.u = {}
        self.cats = set()
        self.lo, self.hi = 0.0, 0.0

    def clone(self):
        return _copy.deepcopy(self)

    def add(self, a, s, e, lab):
        if e - s <= 1e-6:
            return "ValueError"
        self.u.setdefault(a, set()).add((s, e, lab))
        if lab is not None:
            self.cats.add(lab)
        self.lo, self.hi = min(self.lo, s), max(self.hi, e)
        return None

    def view(self):
        return {"annotators": sorted(self.u), "units": {a: sorted(self.u[a], key=key) for a in sorted(self.u)},
                "categories": sorted(self.cats), "bounds": (self.lo, self.hi),
                "num_units": sum(len(v) for v in self.u.values()), "nonempty": any(self.u.values())}


def real_view(c):
    units = {}
    for a in c.annotators:
        units[a] = [(float(u.segment.start), float(u.segment.end), u.annotation) for u in c.iter_annotator(a)]
    flat = [(a, (float(u.segment.start), float(u.segment.end), u.annotation)) for a, u in c]
    exp_flat = [(a, u) for a in c.annotators for u in units[a]]
    return {"annotators": list(c.annotators), "units": units, "categories": list(c.categories),
            "bounds": tuple(float(x) for x in c.bounds), "num_units": c.num_units, "nonempty": bool(c),
            "iter_consistent": flat == exp_flat, "len": len(c)}


def gen_ops(rng, n):
    ops = []
    for _ in range(n):
        k = rng.random()
        a = rng.choice(ANNS)
        if k < 0.45:
            s = float(rng.randint(-2, 6))
            e = s + rng.choice([0.0, 1e-7, 0.5, 1.0, 3.0])
            ops.append(["add", a, s, e, rng.choice(LABELS)])
        elif k < 0.55:
            ops.append(["add_annotator", a])
        elif k < 0.7:
            ops.append(["remove", a, rng.randint(0, 3)])
        elif k < 0.8:
            ops.append(["merge", rng.choice([True, False]), gen_ops(rng, rng.randint(0, 4))])
        elif k < 0.88:
            ops.append(["copy_mutate", gen_ops(rng, 2)])
        elif k < 0.95:
            ops.append(["reset_bounds"])
        else:
            ops.append(["eq_copy"])
    return ops


def cases(rng, tier):
    yield {"ops": [["add", "a", 0.0, 10.0, None], ["add", "a", 1.0, 2.0, None], ["reset_bounds"]]}
    yield {"ops": [["add", "a", 2.0, 3.0, None], ["remove", "a", 0]]}
    yield {"ops": [["add", "a", 2.0, 3.0, "x"], ["copy_mutate", [["add", "a", 5.0, 6.0, "z"]]]]}
    for _ in range(150 if tier == "quick" else 1500):
        yield {"ops": gen_ops(rng, rng.randint(1, 14))}


def apply(c, m, ops, pa, trace):
    from pyannote.core import Segment
    for op in ops:
        kind = op[0]
        if kind == "add":
            _, a, s, e, lab = op
            want = m.add(a, s, e, lab)
            got = None
            try:
                c.add(a, Segment(s, e), lab)
            except ValueError:
                got = "ValueError"
            if got != want:
                return c, m, f"add{op[1:]}: zero-length segments are rejected (and only they): got {got}, expected {want}"
        elif kind == "add_annotator":
            c.add_annotator(op[1])
            m.u.setdefault(op[1], set())
        elif kind == "remove":
            a, i = op[1], op[2]
            if a in m.u and i < len(m.u[a]):
                u = sorted(m.u[a], key=key)[i]
                try:
                    c.remove(a, pa.continuum.Unit(Segment(u[0], u[1]), u[2]))
                except Exception as ex:   # noqa
                    return c, m, f"remove of a present unit {u} raised {ex!r}"
                m.u[a].discard(u)
        elif kind == "merge":
            in_place, sub = op[1], op[2]
            c2, m2 = pa.Continuum(), Model()
            c2, m2, err = apply(c2, m2, sub, pa, trace)
            if err:
                return c, m, err
            before = real_view(c)
            if in_place:
                r = c.merge(c2, in_place=True)
                if r is not None:
                    return c, m, "in-place merge returns None"
            else:
                r = c.merge(c2, in_place=False)
                if real_view(c) != before:
                    return c, m, "out-of-place merge leaves self unchanged"
                r2 = c + c2
                if real_view(r2) != real_view(r):
                    return c, m, "__add__ agrees with merge(in_place=False)"
                c = r
            for a, us in m2.u.items():
                m.u.setdefault(a, set())
                for u in us:
                    m.add(a, *u)
        elif kind == "copy_mutate":
            cp = c.copy()
            v0 = real_view(c)
            if real_view(cp) != v0:
                return c, m, f"copy() carries the same annotators, units, categories and bounds: {real_view(cp)} vs {v0}"
            mm = m.clone()
            cp, mm, err = apply(cp, mm, op[1], pa, trace)
            if err:
                return c, m, err
            if real_view(c) != v0:
                return c, m, "mutating a copy never changes the original"
        elif kind == "reset_bounds":
            c.reset_bounds()
            allu = [u for us in m.u.values() for u in us]
            m.lo = min((u[0] for u in allu), default=0.0)
            m.hi = max((u[1] for u in allu), default=0.0)
        elif kind == "eq_copy":
            cp = c.copy()
            if not (c == cp and cp == c and not (c != cp) and c == c):
                return c, m, "equality is reflexive / symmetric on a copy"
            # equality is on (annotators, units): annotators without units count, and so does every field of a unit
            e1, e2 = c.copy(), c.copy()
            e1.add_annotator("zz_empty_1")
            e2.add_annotator("zz_empty_2")
            if (c == e1) or not (c != e1) or (e1 == c) or (e1 == e2) or not (e1 != e2):
                return c, m, "continua whose annotator sets differ (by an annotator without units) are not equal"
            for a in sorted(m.u):
                if m.u[a]:
                    u = sorted(m.u[a], key=key)[0]
                    v = c.copy()
                    v.remove(a, pa.continuum.Unit(Segment(u[0], u[1]), u[2]))
                    v.add(a, Segment(u[0], u[1]), "zz_other" if u[2] != "zz_other" else "zz_else")
                    if (c == v) or (v == c) or not (c != v):
                        return c, m, "continua differing by the label of one unit are not equal"
                    break
        rv, mv = real_view(c), m.view()
        for k in mv:
            if rv[k] != mv[k] and not (k == "bounds" and all(abs(x - y) < 1e-9 for x, y in zip(rv[k], mv[k]))):
                return c, m, f"after {op}: {k} = {rv[k]!r}, the set-per-annotator model predicts {mv[k]!r}"
        if not rv["iter_consistent"] or rv["len"] != len(mv["annotators"]):
            return c, m, f"after {op}: iteration order / len disagree with annotators x units"
    return c, m, None


def check(inp):
    pa = pkg()
    c, m = pa.Continuum(), Model()
    try:
        c, m, err = apply(c, m, inp["ops"], pa, [])
    except Exception as ex:   # noqa
        import traceback
        err = "an operation raised: " + repr(ex) + " " + traceback.format_exc()[-400:]
    if err:
        return fail("Continuum == plain set-per-annotator model after every operation", inp, err, "agreement")
    return None


for name in ("add", "add_annotator", "remove", "copy", "copy_flush", "merge", "__add__", "reset_bounds", "__eq__", "__ne__",
             "__iter__", "iter_annotator", "__init__", "num_units", "__bool__", "__len__", "annotators", "categories", "bounds"):
    Oracle(CT + "Continuum." + name, cases, check)
Oracle(CT + "Unit.__lt__", cases, check)
