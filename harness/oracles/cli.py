"""Oracle for C20: the command-line tool reports, in every output mode, the gamma / gamma-cat / gamma-k values the API returns for the
same file, seed, sampler, precision, sample count, alpha, beta, delta_empty and categorical dissimilarity."""
import contextlib
import csv
import io
import json
import os
import sys
import tempfile
import numpy as np
import common
from common import pkg, fail, close
from . import Oracle

CLI = "pygamma_agreement/cli_apps.py::"


def cases(rng, tier):
    k = 0
    labels = ["1", "2", "7"]
    # designed family: the annotators mark (nearly) the same segments with different numeric labels, so that the choice of the
    # categorical dissimilarity (absolute / numerical / levenshtein) changes every reported value
    for j in range(8 if tier == "quick" else 40):
        segs = [(float(4 * i), float(4 * i + 3)) for i in range(3)]
        spec = {f"ann{a}": [[s + rng.choice([0.0, 0.5]), e, rng.choice(labels)] for (s, e) in segs] for a in range(2 + j % 2)}
        yield {"continuum": spec, "alpha": rng.choice([1.0, 0.5]), "beta": rng.choice([1.0, 2.0]), "delta": rng.choice([1.0, 2.0]),
               "cat": ["numerical", "levenshtein", "absolute", None][j % 4], "mathet": j % 2 == 0, "n": 3,
               "p": 0.9, "seed": rng.randint(0, 10 ** 6), "gamma_cat": True, "gamma_k": j % 2 == 0,
               "out": ["print", "csv", "json"][j % 3], "sep": ","}
    # "for each input file": a FIRST file with other categories precedes the file under test on the command line; nothing computed for the
    # first (its category scale in particular) may leak into the results of the second
    for j in range(3 if tier == "quick" else 12):
        segs = [(float(4 * i), float(4 * i + 3)) for i in range(3)]
        first = {f"ann{a}": [[s, e, rng.choice(["1", "40", "90"])] for (s, e) in segs] for a in range(2)}
        spec = {f"ann{a}": [[s + rng.choice([0.0, 0.5]), e, rng.choice(labels)] for (s, e) in segs] for a in range(2)}
        yield {"continuum": spec, "first": first, "alpha": 1.0, "beta": rng.choice([1.0, 2.0]), "delta": 1.0,
               "cat": ["numerical", "levenshtein", "numerical"][j % 3], "mathet": True, "n": 3,
               "p": 0.9, "seed": rng.randint(0, 10 ** 6), "gamma_cat": True, "gamma_k": False,
               "out": ["print", "json", "csv"][j % 3], "sep": ","}
    for n, mx, cnt in ((2, 3, 6), (3, 2, 4)):
        for spec in common.grid_continua(rng, n, mx, 12, labels, allow_empty=False, count=cnt if tier == "quick" else cnt * 5):
            yield {"continuum": spec, "alpha": rng.choice([1.0, 0.5, 3.0]), "beta": rng.choice([1.0, 2.0]), "delta": rng.choice([1.0, 0.5, 2.0]),
                   "cat": ["absolute", "numerical", "levenshtein", None][k % 4], "mathet": k % 2 == 0, "n": rng.choice([2, 3]),
                   "p": rng.choice([0.5, 0.9]), "seed": rng.randint(0, 10 ** 6), "gamma_cat": k % 3 != 0, "gamma_k": k % 3 != 1,
                   "out": ["print", "csv", "json"][k % 3], "sep": [",", ";"][k % 2]}
            k += 1


def api_values(inp, path, first_path=None):
    pa = pkg()
    np.random.seed(inp["seed"])
    if first_path is not None:
        api_one(pa, inp, first_path)          # the command line seeds once, then treats the files in order: so does the reference
    return api_one(pa, inp, path)


def api_one(pa, inp, path):
    c = pa.Continuum.from_csv(path, delimiter=inp["sep"])
    cat = None
    if inp["cat"] == "numerical":
        cat = pa.NumericalCategoricalDissimilarity(c.categories)
    elif inp["cat"] == "levenshtein":
        cat = pa.LevenshteinCategoricalDissimilarity(c.categories)
    d = pa.CombinedCategoricalDissimilarity(alpha=inp["alpha"], beta=inp["beta"], delta_empty=inp["delta"], cat_dissim=cat)
    g = c.compute_gamma(dissimilarity=d, precision_level=inp["p"], fast=True, n_samples=inp["n"],
                        sampler=pa.ShuffleContinuumSampler() if inp["mathet"] else None)
    out = {"gamma": float(g.gamma)}
    if inp["gamma_cat"]:
        out["gamma-cat"] = float(g.gamma_cat)
    if inp["gamma_k"]:
        out["gamma-k"] = {k: float(g.gamma_k(k)) for k in c.categories}
    return out


def check(inp):
    pa = pkg()
    from pygamma_agreement import cli_apps
    tmp = tempfile.mkdtemp()
    try:
        path = os.path.join(tmp, "in.csv")
        with open(path, "w", newline="") as f:
            w = csv.writer(f, delimiter=inp["sep"])
            for a in sorted(inp["continuum"]):
                for (s, e, l) in inp["continuum"][a]:
                    w.writerow([a, l, s, e])
        first_path = None
        if inp.get("first"):
            first_path = os.path.join(tmp, "first.csv")
            with open(first_path, "w", newline="") as f:
                w = csv.writer(f, delimiter=inp["sep"])
                for a in sorted(inp["first"]):
                    for (s, e, l) in inp["first"][a]:
                        w.writerow([a, l, s, e])
        want = api_values(inp, path, first_path)
        argv = ["pygamma-agreement"] + ([first_path] if first_path else []) + [path, "-a", str(inp["alpha"]), "-b", str(inp["beta"]), "-e", str(inp["delta"]), "-n", str(inp["n"]),
                "-p", str(inp["p"]), "--seed", str(inp["seed"]), "-s", inp["sep"]]
        if inp["cat"] is not None:
            argv += ["-d", inp["cat"]]
        if inp["mathet"]:
            argv.append("-m")
        if inp["gamma_cat"]:
            argv.append("-c")
        if inp["gamma_k"]:
            argv.append("-k")
        outp = os.path.join(tmp, "out." + inp["out"])
        if inp["out"] == "csv":
            argv += ["-o", outp]
        elif inp["out"] == "json":
            argv += ["-j", outp]
        saved = sys.argv
        buf = io.StringIO()
        try:
            sys.argv = argv
            with contextlib.redirect_stdout(buf):
                cli_apps.pygamma_cmd()
        except SystemExit as e:
            return fail("the command-line tool accepts the documented options", inp, f"SystemExit({e.code}) {buf.getvalue()[-200:]}", "run")
        except Exception as e:   # noqa
            return fail("the command-line tool runs to completion in every output mode", inp, repr(e), "results written")
        finally:
            sys.argv = saved
        got = {}
        if inp["out"] == "print":
            lines = buf.getvalue().splitlines()
            if path in lines:
                lines = lines[len(lines) - 1 - lines[::-1].index(path):]        # the section of the file under test
            for line in lines:
                if line.startswith("gamma="):
                    got["gamma"] = float(line.split("=", 1)[1])
                elif line.startswith("gamma-cat="):
                    got["gamma-cat"] = float(line.split("=", 1)[1])
                elif line.startswith("gamma-k("):
                    name = line[len("gamma-k('"):line.index("')=")]
                    got.setdefault("gamma-k", {})[name] = float(line.split(")=", 1)[1])
        elif inp["out"] == "json":
            js = json.load(open(outp))
            got = js[path]
        else:
            rows = list(csv.reader(open(outp, newline=""), delimiter=inp["sep"]))
            header, row = rows[0], next((r for r in rows[1:] if r and r[0] == path), rows[1])
            for h, v in zip(header[1:], row[1:]):
                if h == "gamma-k":
                    try:
                        got[h] = {k: float(x) for k, x in eval(v, {"__builtins__": {}}, {"inf": float("inf"), "nan": float("nan")}).items()}   # "{'1': 0.5, '7': -inf}": plain numbers (inf / nan print as such)
                    except Exception:   # noqa
                        return fail("the CSV gamma-k cell holds the numbers themselves", inp, v, "a dict of plain numbers")
                else:
                    got[h] = float(v)

        def same(a, b):
            if isinstance(a, dict):
                return isinstance(b, dict) and set(a) == set(b) and all(same(a[k], b[k]) for k in a)
            return close(float(a), float(b), rtol=1e-4, atol=1e-6)
        if not same(want, got):
            return fail(f"the {inp['out']} output reports the API's gamma / gamma-cat / gamma-k for the same options", inp, got, want)
        return None
    finally:
        import shutil
        shutil.rmtree(tmp, ignore_errors=True)


Oracle(CLI + "pygamma_cmd", cases, check)
