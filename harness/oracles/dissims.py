"""Oracles for the built-in dissimilarities (C04, C09): value used inside alignment computations (compiled d_mat on encoded units)
== unit-to-unit method d() == documented formula, for every class; symmetry, non-negativity, zero on identical units; categorical
ones depend on the two category names only (label order, number of categories)."""
import numpy as np
import common
from common import pkg, fail, close
from . import Oracle

DS = "pygamma_agreement/dissimilarity.py::"


def lev(a, b):
    n1, n2 = len(a) + 1, len(b) + 1
    m = [[0] * n2 for _ in range(n1)]
    for i in range(n1):
        m[i][0] = i
    for j in range(n2):
        m[0][j] = j
    for i in range(1, n1):
        for j in range(1, n2):
            m[i][j] = min(m[i - 1][j] + 1, m[i][j - 1] + 1, m[i - 1][j - 1] + (a[i - 1] != b[j - 1]))
    return m[-1][-1] / max(n1, n2)


def cat_formula(kind, labels, p, a, b):
    """documented categorical value (before * delta_empty) for category names a, b"""
    if a == b:
        return 0.0
    if kind == "absolute":
        return 1.0
    if kind in ("ordinal", "numerical"):
        pos = dict(zip(labels, p)) if kind == "ordinal" else {l: float(l) for l in labels}
        mx = max([1.0] + [abs(pos[x] - pos[y]) for x in labels for y in labels])
        return abs(pos[a] - pos[b]) / mx
    if kind == "levenshtein":
        mx = max([1.0] + [lev(x, y) for x in labels for y in labels])
        return lev(a, b) / mx
    raise ValueError(kind)


def cases(rng, tier):
    n = 40 if tier == "quick" else 400
    base = [["c", "a", "b"], ["b", "a"], ["x"], ["10", "2", "33", "4"], ["kiwi", "apple", "fig", "banana"]]
    for k in range(n):
        delta = rng.choice([1.0, 0.5, 2.0, 3.0])
        kind = ["positional", "absolute", "ordinal", "numerical", "levenshtein", "precomputed", "combined"][k % 7]
        labels = list(rng.choice(base))
        if kind == "numerical":
            labels = [str(x) for x in rng.sample(range(0, 60), rng.randint(1, 5))]
        if kind == "precomputed" and k % 3 == 0:
            labels = [f"c{i:03d}" for i in range(rng.choice([129, 200, 300]))]     # many categories
        rng.shuffle(labels)
        p = [float(rng.randint(-5, 20)) for _ in labels] if rng.random() < 0.7 else None
        units = []
        for _ in range(2):
            s = float(rng.randint(0, 20))
            units.append([s, s + rng.choice([0.5, 1.0, 4.0, 9.0]), rng.choice(labels)])
        if k % 5 == 0:
            units[1] = list(units[0])
        comp = None
        if kind == "combined":
            comp = {"alpha": rng.choice([0.0, 1.0, 3.0]), "beta": rng.choice([0.0, 1.0, 2.0]),
                    "cat": rng.choice(["absolute", "ordinal", "levenshtein", None]),
                    "pos_delta": rng.choice([None, 1.0, 4.0]), "cat_delta": rng.choice([1.0, 5.0])}
        yield {"kind": kind, "labels": labels, "p": p, "delta": delta, "units": units, "comp": comp, "seed": rng.randint(0, 10 ** 6)}


def build(inp):
    pa = pkg()
    from sortedcontainers import SortedSet
    kind, labels, p, delta = inp["kind"], inp["labels"], inp["p"], inp["delta"]
    mat = None
    if kind == "positional":
        return pa.PositionalSporadicDissimilarity(delta_empty=delta), None, None
    if kind == "absolute":
        return pa.AbsoluteCategoricalDissimilarity(delta_empty=delta), None, None
    if kind == "ordinal":
        return pa.OrdinalCategoricalDissimilarity(labels, p=p, delta_empty=delta), None, None
    if kind == "numerical":
        return pa.NumericalCategoricalDissimilarity(labels, delta_empty=delta), None, None
    if kind == "levenshtein":
        return pa.LevenshteinCategoricalDissimilarity(labels, delta_empty=delta), None, None
    if kind == "precomputed":
        r = np.random.RandomState(inp["seed"])
        n = len(labels)
        m = r.rand(n, n).astype(np.float32)
        m = ((m + m.T) / 2).astype(np.float32)
        np.fill_diagonal(m, 0)
        return pa.PrecomputedCategoricalDissimilarity(SortedSet(labels), m, delta_empty=delta), m, sorted(labels)
    c = inp["comp"]
    cat = None
    if c["cat"] == "absolute":
        cat = pa.AbsoluteCategoricalDissimilarity(delta_empty=c["cat_delta"])
    elif c["cat"] == "ordinal":
        cat = pa.OrdinalCategoricalDissimilarity(labels, p=p, delta_empty=c["cat_delta"])
    elif c["cat"] == "levenshtein":
        cat = pa.LevenshteinCategoricalDissimilarity(labels, delta_empty=c["cat_delta"])
    pos = pa.PositionalSporadicDissimilarity(delta_empty=c["pos_delta"]) if c["pos_delta"] is not None else None
    return pa.CombinedCategoricalDissimilarity(alpha=c["alpha"], beta=c["beta"], delta_empty=delta, pos_dissim=pos, cat_dissim=cat), None, None


def expected(inp, mat, sorted_labels, u, v):
    kind, labels, delta = inp["kind"], inp["labels"], inp["delta"]
    p = inp["p"] if inp["p"] is not None else [float(i) for i in range(len(labels))]
    pos = ((abs(u[0] - v[0]) + abs(u[1] - v[1])) / ((u[1] - u[0]) + (v[1] - v[0]))) ** 2
    if kind == "positional":
        return pos * delta
    if kind == "precomputed":
        return float(mat[sorted_labels.index(u[2]), sorted_labels.index(v[2])]) * delta
    if kind == "combined":
        c = inp["comp"]
        ck = c["cat"] or "absolute"
        return c["alpha"] * pos * delta + c["beta"] * cat_formula(ck, labels, p, u[2], v[2]) * delta
    return cat_formula(kind, labels, p, u[2], v[2]) * delta


def check(inp):
    pa = pkg()
    from pyannote.core import Segment
    try:
        d, mat, sl = build(inp)
    except Exception as e:   # noqa
        return fail("the dissimilarity can be constructed", inp, repr(e), "an object")
    cats = sorted(inp["labels"])
    enc = lambda u: np.array([u[0], u[1], u[1] - u[0], cats.index(u[2])], dtype=np.float32)   # noqa: E731
    U = [pa.continuum.Unit(Segment(u[0], u[1]), u[2]) for u in inp["units"]]
    u, v = inp["units"]
    for (a, b, A, B) in ((u, v, U[0], U[1]), (v, u, U[1], U[0]), (u, u, U[0], U[0])):
        want = expected(inp, mat, sl, a, b)
        got_mat = float(d.d_mat(enc(a), enc(b)))
        got_d = float(d.d(A, B))
        if not close(got_mat, want, rtol=2e-3, atol=1e-5) or not close(got_d, want, rtol=2e-3, atol=1e-5):
            return fail("d_mat(encoded units) == d(units) == documented formula (with the one delta_empty of the object)", inp,
                        {"units": [a, b], "d_mat": got_mat, "d": got_d}, {"formula": want})
        if got_mat < 0 or (a == b and abs(got_mat) > 1e-6):
            return fail("non-negative, zero on identical units", inp, got_mat, 0.0)
    return None


for name in ("PositionalSporadicDissimilarity.compile_d_mat.<locals>.d_mat", "PositionalSporadicDissimilarity.d",
             "AbsoluteCategoricalDissimilarity.compile_d_mat.<locals>.d_mat", "AbsoluteCategoricalDissimilarity.d",
             "PrecomputedCategoricalDissimilarity.compile_d_mat.<locals>.d_mat", "PrecomputedCategoricalDissimilarity.d",
             "CombinedCategoricalDissimilarity.compile_d_mat.<locals>.d_mat", "CombinedCategoricalDissimilarity.d",
             "CombinedCategoricalDissimilarity.__init__", "OrdinalCategoricalDissimilarity.__init__",
             "LambdaCategoricalDissimilarity.__init__", "NumericalCategoricalDissimilarity.__init__",
             "AbstractDissimilarity.__init__"):
    Oracle(DS + name, cases, check)
