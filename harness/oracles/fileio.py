"""Oracle for C18: csv export / import round trip (any delimiter, any text a csv field can hold), zero-length rows discarded or rejected
as requested; RTTM, TextGrid and ELAN readers create exactly one unit per non-empty annotated interval of the selected tiers, with the
file's exact times and its label (or the tier name), under the requested annotator."""
import os
import tempfile
import common
from common import pkg, fail
from . import Oracle

CT = "pygamma_agreement/continuum.py::"
TEXTS = ["a", "b c", 'q"uo"te', "comma,semi;colon", "tab\there", "unicodé ✓", "new\nline", "cr\rx", " lead", "x'y", "multi  space"]


def cases(rng, tier):
    for k in range(40 if tier == "quick" else 400):
        kind = ["csv", "csv", "csv_invalid", "textgrid", "elan", "rttm"][k % 6]
        n_ann = rng.randint(1, 3)
        spec = {}
        for a in range(n_ann):
            name = rng.choice(TEXTS) + str(a) if kind == "csv" else f"ann{a}"
            units = set()
            for _ in range(rng.randint(1, 4)):
                s = round(rng.uniform(0, 50), rng.choice([0, 2, 6]))
                e = s + max(0.05, round(rng.uniform(0.01, 9), rng.choice([1, 3, 7])))
                lab = rng.choice(TEXTS) if kind == "csv" else rng.choice(["x", "y y", "z"])
                units.add((s, e, lab))
            spec[name] = [list(u) for u in sorted(units)]
        yield {"kind": kind, "continuum": spec, "delimiter": rng.choice([",", ";", "\t", "|"]), "discard": k % 2 == 0,
               "tier_as_label": k % 3 == 0, "select": k % 4 == 0, "select_mode": ["none", "first", "empty", "absent"][(k // 6) % 4],
               "seed": rng.randint(0, 10 ** 6)}


def selection(inp, tiers):
    """the tier selection of a case: none (every tier), the first tier, an EMPTY selection (no tier at all), a tier the file does not have"""
    mode = inp.get("select_mode") or ("first" if inp.get("select") else "none")
    return {"none": None, "first": tiers[:1], "empty": [], "absent": ["no such tier"]}[mode]


def view(c):
    return {a: [(float(u.segment.start), float(u.segment.end), u.annotation) for u in c.iter_annotator(a)] for a in c.annotators}


def check(inp):
    pa = pkg()
    from pyannote.core import Segment
    tmp = tempfile.mkdtemp()
    try:
        kind, spec = inp["kind"], inp["continuum"]
        if kind == "csv":
            c = common.make_continuum(spec)
            path = os.path.join(tmp, "c.csv")
            c.to_csv(path, delimiter=inp["delimiter"])
            back = pa.Continuum.from_csv(path, delimiter=inp["delimiter"])
            if not (back == c) or view(back) != view(c) or list(back.categories) != list(c.categories):
                return fail("from_csv(to_csv(c)) == c with the same categories, for any delimiter and any text a csv field can hold",
                            inp, view(back), view(c))
            return None
        if kind == "csv_invalid":
            import csv
            path = os.path.join(tmp, "c.csv")
            rows, valid = [], {}
            for a, us in spec.items():
                for i, (s, e, l) in enumerate(us):
                    if i == 0:
                        rows.append([a, l, s, s])          # zero-length row
                    rows.append([a, l, s, e])
                    valid.setdefault(a, set()).add((float(s), float(e), l))
            with open(path, "w", newline="") as f:
                csv.writer(f, delimiter=inp["delimiter"]).writerows(rows)
            import io, contextlib
            try:
                with contextlib.redirect_stdout(io.StringIO()):
                    back = pa.Continuum.from_csv(path, discard_invalid_rows=inp["discard"], delimiter=inp["delimiter"])
                if not inp["discard"]:
                    return fail("zero-length csv rows are rejected (ValueError) when discard_invalid_rows is False", inp, "no exception", "ValueError")
            except ValueError:
                return None if not inp["discard"] else fail("zero-length csv rows are discarded when asked", inp, "ValueError", "continuum")
            want = {a: sorted(v) for a, v in valid.items()}
            if {a: sorted(v) for a, v in view(back).items()} != want:
                return fail("zero-length rows discarded, every other row imported once", inp, view(back), want)
            return None
        if kind == "textgrid":
            import textgrid
            tg = textgrid.TextGrid(minTime=0, maxTime=100)
            want = set()
            tiers = sorted(spec)
            sel = selection(inp, tiers)
            for tname in tiers:
                tier = textgrid.IntervalTier(name=tname, minTime=0, maxTime=100)
                t = 0.0
                for (s, e, l) in sorted(spec[tname]):
                    s, e = round(max(s, t) + 0.5, 3), None
                    e = round(s + 1.25, 3)
                    tier.add(s, e, l)
                    t = e
                    if sel is None or tname in sel:
                        want.add((s, e, tname if inp["tier_as_label"] else l))
                tier.add(round(t + 0.5, 3), round(t + 1.0, 3), "")          # an interval without a mark
                tg.append(tier)
            path = os.path.join(tmp, "x.TextGrid")
            tg.write(path)
            c = pa.Continuum()
            c.add_textgrid("annot", path, selected_tiers=sel, use_tier_as_annotation=inp["tier_as_label"])
            got = set(view(c).get("annot", []))
            if {(round(a, 6), round(b, 6), l) for a, b, l in got} != {(round(a, 6), round(b, 6), l) for a, b, l in want} or list(c.annotators) not in ([], ["annot"]):
                return fail("add_textgrid: one unit per non-empty interval of the selected tiers, exact times, label or tier name", inp,
                            sorted(got), sorted(want))
            return None
        if kind == "elan":
            import pympi
            eaf = pympi.Eaf()
            want = set()
            tiers = sorted(spec)
            sel = selection(inp, tiers)
            for tname in tiers:
                eaf.add_tier(tname)
                for (s, e, l) in spec[tname]:
                    ms, me = int(s * 1000), int(s * 1000) + 500
                    eaf.add_annotation(tname, ms, me, l)
                    if sel is None or tname in sel:
                        want.add((float(ms), float(me), tname if inp["tier_as_label"] else l))
            path = os.path.join(tmp, "x.eaf")
            eaf.to_file(path)
            c = pa.Continuum()
            c.add_elan("annot", path, selected_tiers=sel, use_tier_as_annotation=inp["tier_as_label"])
            got = set(view(c).get("annot", []))
            if got != want:
                return fail("add_elan: one unit per annotation of the selected tiers, exact times, value or tier name", inp, sorted(got), sorted(want))
            return None
        if kind == "rttm":
            path = os.path.join(tmp, "x.rttm")
            want = {}
            with open(path, "w") as f:
                for a, us in spec.items():
                    uri = a.replace(" ", "_")
                    for (s, e, l) in us:
                        lab = l.replace(" ", "_")
                        f.write(f"SPEAKER {uri} 1 {s:.3f} {e - s:.3f} <NA> <NA> {lab} <NA> <NA>\n")
                        want.setdefault(uri, set()).add((round(s, 3), round(round(s, 3) + round(e - s, 3), 3), lab))
            c = pa.Continuum.from_rttm(path)
            got = {a: {(round(x, 3), round(y, 3), l) for x, y, l in us} for a, us in view(c).items()}
            if got != want:
                return fail("from_rttm: one unit per track, annotator = file uri, exact times and label", inp, got, want)
            return None
    except Exception as ex:   # noqa
        import traceback
        return fail(f"{inp['kind']} import / export runs", inp, repr(ex) + traceback.format_exc()[-300:], "no exception")
    finally:
        import shutil
        shutil.rmtree(tmp, ignore_errors=True)


for q in ("Continuum.to_csv", "Continuum.from_csv", "Continuum.add_textgrid", "Continuum.add_elan", "Continuum.from_rttm", "Continuum.add_annotation"):
    Oracle(CT + q, cases, check)
