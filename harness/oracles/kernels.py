"""Oracles for the numeric kernels (numba_utils.py, dissimilarity.py kernels)."""
import itertools
import numpy as np
import common
from common import pkg, fail, close
from . import Oracle

NU = "pygamma_agreement/numba_utils.py::"
DS = "pygamma_agreement/dissimilarity.py::"


# ------------------------------------------------------------------------------------------ iter_tuples
def it_cases(rng, tier):
    for sizes in ([1], [2], [3], [1, 1], [2, 3], [3, 2], [1, 4], [2, 2, 2], [3, 1, 2], [2, 3, 4], [1, 1, 1, 1], [2, 1, 3, 2, 2]):
        yield {"sizes": sizes}
    for _ in range(40 if tier == "quick" else 400):
        n = rng.randint(1, 5)
        yield {"sizes": [rng.randint(1, 5) for _ in range(n)]}


def it_check(inp):
    from pygamma_agreement.numba_utils import iter_tuples
    sizes = np.array(inp["sizes"], dtype=np.int16)
    P = int(np.prod(sizes, dtype=np.int64))
    got = []
    for k, t in enumerate(iter_tuples(sizes)):
        got.append([int(x) for x in t])
        if k > P + 5:
            break
    exp = []
    for k in range(P):
        t, r = [], k
        for s in inp["sizes"]:
            t.append(r % s)
            r //= s
        exp.append(t)
    if got != exp:
        return fail("k-th yield is the tuple of mixed-radix rank k; exactly prod(sizes) yields", inp, got[:50], exp[:50])
    return None


Oracle(NU + "iter_tuples", it_cases, it_check)


# ------------------------------------------------------------------------------------------ extend_right_*
def er_cases(rng, tier):
    for rows, cols, n in [(0, 2, 0), (0, 2, 3), (1, 2, 0), (3, 2, 1), (4, 3, 5), (5, 1, 2)]:
        yield {"rows": rows, "cols": cols, "n": n, "seed": rng.randint(0, 10 ** 6)}


def era_check(inp):
    from pygamma_agreement.numba_utils import extend_right_alignments
    r = np.random.RandomState(inp["seed"])
    arr = np.ascontiguousarray(r.randint(0, 100, size=(inp["rows"], inp["cols"])).astype(np.int16))
    out = extend_right_alignments(arr, inp["n"])
    if out.shape != (inp["rows"] + inp["n"], inp["cols"]) or not np.array_equal(out[:inp["rows"]], arr):
        return fail("result has len(arr)+n rows and agrees with arr on the first len(arr)", inp, out, arr)


def erd_check(inp):
    from pygamma_agreement.numba_utils import extend_right_disorders
    r = np.random.RandomState(inp["seed"])
    arr = r.rand(inp["rows"]).astype(np.float32)
    out = extend_right_disorders(arr, inp["n"])
    if out.shape != (inp["rows"] + inp["n"],) or not np.array_equal(out[:inp["rows"]], arr):
        return fail("result has len(arr)+n entries and agrees with arr on the first len(arr)", inp, out, arr)


Oracle(NU + "extend_right_alignments", er_cases, era_check)
Oracle(NU + "extend_right_disorders", er_cases, erd_check)


# ------------------------------------------------------------------------------------------ build_A
def ba_cases(rng, tier):
    for _ in range(60 if tier == "quick" else 600):
        n = rng.randint(1, 4)
        sizes = [rng.randint(0, 3) for _ in range(n)]
        N = rng.randint(0, 6)
        P = [[rng.randint(0, s) for s in sizes] for _ in range(N)]
        yield {"sizes": sizes, "P": P}


def ba_check(inp):
    from pygamma_agreement.numba_utils import build_A
    sizes = np.array(inp["sizes"], dtype=np.int32)
    P = np.array(inp["P"], dtype=np.int16).reshape((len(inp["P"]), len(inp["sizes"])))
    A = build_A(P, sizes)
    exp = np.zeros((int(sizes.sum()), len(P)), dtype=np.float32)
    for k, t in enumerate(inp["P"]):
        off = 0
        for a, u in enumerate(t):
            if u < inp["sizes"][a]:
                exp[off + u, k] = 1
            off += inp["sizes"][a]
    if A.shape != exp.shape or not np.array_equal(A, exp):
        return fail("A[off_a+u, k] == [cand_k[a] == u], all other entries 0, shape (sum sizes, K)", inp, A, exp)


Oracle(NU + "build_A", ba_cases, ba_check)


# ------------------------------------------------------------------------------------------ _get_all_valid_alignments
DISSIMS = [["positional", 1.0], ["positional", 0.5], ["absolute", 1.0], ["absolute", 2.0],
           ["combined", 1.0, 1.0, 1.0, None], ["combined", 3.0, 1.0, 0.5, None], ["combined", 0.0, 2.0, 2.0, None],
           ["combined", 1.0, 0.0, 1.0, None],
           # ties: a pair of different labels costs exactly the cut (2 annotators: beta=2; 3 annotators: beta=3)
           ["combined", 0.0, 2.0, 1.0, None], ["combined", 0.0, 3.0, 1.0, None]]


def unit_arrays_of(spec, cats):
    import numba as nb
    lst = nb.typed.List()
    for ann in sorted(spec):
        units = spec[ann]
        arr = np.empty((len(units), 4), dtype=np.float32)
        for i, (s, e, lab) in enumerate(units):
            arr[i] = (s, e, e - s, cats.index(lab))
        lst.append(arr)
    return lst


def gava_cases(rng, tier):
    labels = ["a", "b", "c"]
    k = 0
    for n in (2, 3):
        for spec in common.grid_continua(rng, n, 3 if n == 2 else 2, 5, labels, count=25 if tier == "quick" else 150):
            yield {"continuum": spec, "dissim": DISSIMS[k % len(DISSIMS)], "labels": labels}
            k += 1
    for spec in common.grid_continua(rng, 4, 2, 4, labels, count=6 if tier == "quick" else 40):
        yield {"continuum": spec, "dissim": DISSIMS[k % len(DISSIMS)], "labels": labels}
        k += 1
    # families crossing the buffer-growth boundaries (10 000, 15 000, 22 500 candidates): identical labels, absolute
    # categorical dissimilarity => every pair costs 0, every combination is a candidate
    for m in ((101, 101), (125, 125), (152, 152)) if tier == "quick" else ((101, 101), (125, 125), (152, 152), (30, 30, 30)):
        spec = {f"ann{a}": [[float(i), float(i + 1), "a"] for i in range(mm)] for a, mm in enumerate(m)}
        yield {"continuum": spec, "dissim": ["absolute", 1.0], "labels": labels}


def gava_expected(inp):
    d = common.make_dissim(inp["dissim"])
    cats = sorted(inp["labels"])
    ua = unit_arrays_of(inp["continuum"], cats)
    n = len(ua)
    delta = float(d.delta_empty)
    c2n = n * (n - 1) // 2
    crit = c2n * delta * n
    sizes = [len(a) for a in ua]
    # pair matrices (python floats from the compiled kernel)
    M = {}
    for a in range(n):
        for b in range(a):
            mat = np.full((sizes[a] + 1, sizes[b] + 1), delta, dtype=np.float64)
            for i in range(sizes[a]):
                for j in range(sizes[b]):
                    mat[i, j] = float(d.d_mat(ua[a][i], ua[b][j]))
            M[a, b] = mat
    exp, border = [], 0
    P = 1
    for s in sizes:
        P *= (s + 1)
    if P > 400000:
        return None
    for r in range(P - 1):            # rank P-1 is the all-null tuple
        t, x = [], r
        for s in sizes:
            t.append(x % (s + 1))
            x //= (s + 1)
        S = 0.0
        for a in range(n):
            for b in range(a):
                S += M[a, b][t[a], t[b]]
        if S == crit:
            exp.append((t, S / c2n, "in"))       # an exact tie (all terms exactly representable): must be kept
        elif close(S, crit, rtol=1e-5):
            border += 1
            exp.append((t, S / c2n, "border"))
        elif S <= crit:
            exp.append((t, S / c2n, "in"))
    return ua, d, exp


def gava_check(inp):
    pa = pkg()
    r = gava_expected(inp)
    if r is None:
        return None
    ua, d, exp = r
    disorders, aligns = pa.AbstractDissimilarity._get_all_valid_alignments(ua, d.d_mat, d.delta_empty)
    got = [([int(x) for x in aligns[k]], float(disorders[k])) for k in range(len(disorders))]
    clause = ("candidates = exactly once each, in enumeration order, all one-unit-or-empty combinations with "
              "disorder <= n*delta_empty, never the all-empty one, each with its disorder")
    gi = 0
    for (t, dis, kind) in exp:
        if gi < len(got) and got[gi][0] == t:
            if not close(got[gi][1], dis, rtol=1e-3, atol=1e-5):
                return fail(clause + " [disorder value]", inp, {"tuple": t, "disorder": got[gi][1]}, {"tuple": t, "disorder": dis})
            gi += 1
        elif kind == "in":
            return fail(clause + " [missing or out of order]", inp, {"got_at": gi, "got": got[gi:gi + 3], "n_got": len(got)},
                        {"tuple": t, "disorder": dis})
    if gi != len(got):
        return fail(clause + " [extra / duplicated candidate]", inp, {"extra": got[gi:gi + 3], "n_got": len(got)},
                    {"n_expected": len(exp)})
    return None


Oracle(DS + "AbstractDissimilarity._get_all_valid_alignments", gava_cases, gava_check)
