"""Oracle for C19: every corpus produced by the corpus shuffling tool has exactly the requested annotators (plus the reference when asked),
none empty, only positive-duration units and only the reference's categories; magnitude 0 => exact copies; each perturbation is confined:
category shuffling keeps all segments, splitting keeps each annotator's total duration and adds one unit per announced split, false negatives
only remove, false positives only add, shifting keeps the number of units."""
import numpy as np
import common
from common import pkg, fail
from . import Oracle

CS = "pygamma_agreement/cst.py::"


def cases(rng, tier):
    labels = ["a", "b", "c"]
    k = 0
    for spec in common.grid_continua(rng, 1, 6, 60, labels, allow_empty=False, count=40 if tier == "quick" else 300):
        ref = {"Ref": spec["ann0"]}
        if len(ref["Ref"]) < 1:
            continue
        flags = ["shift", "false_pos", "false_neg", "split", "cat_shuffle"]
        one = flags[k % 5]
        yield {"reference": ref, "magnitude": [0.0, 0.2, 0.5, 1.0][k % 4], "annotators": [2, 3, ["x", "y"]][k % 3],
               "flags": {f: (f == one) if k % 2 == 0 else (rng.random() < 0.5) for f in flags}, "single": one if k % 2 == 0 else None,
               "include_ref": k % 7 == 0, "seed": rng.randint(0, 10 ** 6)}
        k += 1


def units(c, a):
    return [(float(u.segment.start), float(u.segment.end), u.annotation) for u in c.iter_annotator(a)]


def check(inp):
    pa = pkg()
    ref = common.make_continuum(inp["reference"])
    refu = units(ref, "Ref")
    refcats = set(l for _, _, l in refu)
    np.random.seed(inp["seed"])
    m = inp["magnitude"]
    try:
        cst = pa.CorpusShufflingTool(m, ref)
        fl = inp["flags"]
        corpus = cst.corpus_shuffle(inp["annotators"], shift=fl["shift"], false_pos=fl["false_pos"], false_neg=fl["false_neg"],
                                    split=fl["split"], cat_shuffle=fl["cat_shuffle"], include_ref=inp["include_ref"])
    except Exception as ex:   # noqa
        import traceback
        return fail("corpus_shuffle returns a corpus", inp, repr(ex) + traceback.format_exc()[-300:], "a continuum")
    names = [f"annotator_{i}" for i in range(inp["annotators"])] if isinstance(inp["annotators"], int) else list(inp["annotators"])
    want = sorted(names + (["Ref"] if inp["include_ref"] else []))
    if list(corpus.annotators) != want:
        return fail("exactly the requested annotators (plus the reference when asked)", inp, list(corpus.annotators), want)
    for a in corpus.annotators:
        us = units(corpus, a)
        if not us:
            return fail("no generated annotator is empty", inp, a, "at least one unit")
        for (s, e, l) in us:
            if not e - s > 1e-6:
                return fail("only positive-duration units", inp, (s, e), "> 1e-6")
            if l not in refcats:
                return fail("only the reference's categories", inp, l, sorted(refcats))
        if a == "Ref":
            if us != refu:
                return fail("the included reference annotator carries the reference units", inp, us, refu)
            continue
        if m == 0.0 and us != refu:
            return fail("magnitude 0: every generated annotator is an exact copy of the reference", inp, us, refu)
        one = inp["single"]
        if one == "cat_shuffle" and [(s, e) for s, e, _ in us] != [(s, e) for s, e, _ in refu]:
            return fail("category shuffling keeps all segments", inp, us, refu)
        if one == "false_neg" and not set(us) <= set(refu):
            return fail("false negatives only remove units", inp, us, refu)
        if one == "false_pos" and not set(refu) <= set(us):
            return fail("false positives only add units", inp, us, refu)
        if one == "shift" and len(us) != len(refu):
            return fail("shifting keeps the number of units", inp, len(us), len(refu))
        if one == "split":
            tot, rtot = sum(e - s for s, e, _ in us), sum(e - s for s, e, _ in refu)
            nsplit = int(m * 2.5 * (len(refu) / 1))
            if abs(tot - rtot) > 1e-6 * max(1, rtot):
                return fail("splitting keeps each annotator's total annotated duration", inp, tot, rtot)
            if len(us) != len(refu) + nsplit:
                return fail("splitting adds exactly one unit per announced split [count]", inp, len(us), len(refu) + nsplit)
    if units(ref, "Ref") != refu or set(ref.categories) != refcats:
        return fail("the reference continuum is left unchanged", inp, units(ref, "Ref"), refu)
    return None


for q in ("CorpusShufflingTool.corpus_shuffle", "CorpusShufflingTool.corpus_from_reference", "CorpusShufflingTool.shift_shuffle",
          "CorpusShufflingTool.false_neg_shuffle", "CorpusShufflingTool.false_pos_shuffle", "CorpusShufflingTool.category_shuffle",
          "CorpusShufflingTool.splits_shuffle", "CorpusShufflingTool.__init__"):
    Oracle(CS + q, cases, check)
