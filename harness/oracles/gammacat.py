"""Oracle for gamma-cat / gamma-k (C12): the categorical disorder of an alignment against the definition written from the statement;
GammaResults.gamma_cat / gamma_k == 1 - observed / mean chance (<= 1; == 1 on perfect categorical agreement without unaligned units);
TypeError for non-combined dissimilarities."""
import common
from common import pkg, fail, close
from . import Oracle
from .alignments import DISSIMS, run_alignment, delta_of

AL = "pygamma_agreement/alignment.py::"
CT = "pygamma_agreement/continuum.py::"
COMBINED = [d for d in DISSIMS if d[0] == "combined"]


def pos_formula(u, v):
    return ((abs(u[0] - v[0]) + abs(u[1] - v[1])) / ((u[1] - u[0]) + (v[1] - v[0]))) ** 2


def expected_disorder(taus, desc, category):
    alpha, delta = desc[1], desc[3]
    num = den = 0.0
    any_counted = any_real = False
    for t in taus:
        nreal = sum(x is not None for x in t)
        wb = 0.0 if nreal < 2 else 1.0 / (nreal - 1)
        for i in range(len(t)):
            for j in range(i + 1, len(t)):
                u, v = t[i], t[j]
                if category is not None and not ((u is not None and u[2] == category) or (v is not None and v[2] == category)):
                    continue
                any_counted = True
                if u is None or v is None:
                    if u is not None or v is not None:
                        num += delta * delta
                        den += delta
                    continue
                any_real = True
                w = wb * max(0.0, 1 - alpha * pos_formula(u, v) * delta)
                num += (0.0 if u[2] == v[2] else 1.0) * delta * w
                den += w
    if not any_real:
        return 1.0 if not any_counted else 0.0
    return 0.0 if num == 0 else num / den


def cases(rng, tier):
    labels = ["a", "b", "c"]
    k = 0
    for n, mx, cnt in ((2, 3, 8), (3, 2, 8), (4, 2, 4)):
        for spec in common.grid_continua(rng, n, mx, 6, labels[:2], allow_empty=False, count=cnt if tier == "quick" else cnt * 8):
            yield {"continuum": spec, "dissim": COMBINED[k % len(COMBINED)], "mode": ["best", "soft", "gamma", "perfect"][k % 4],
                   "category": [None, "a", "b", "c"][k % 4], "seed": rng.randint(0, 10 ** 6)}
            k += 1
    yield {"continuum": {"x": [[0.0, 1.0, "a"]], "y": [[0.0, 1.0, "a"]]}, "dissim": ["positional", 1.0], "mode": "typeerror", "category": None, "seed": 1}


def check(inp):
    import numpy as np
    pa = pkg()
    spec, desc, cat = inp["continuum"], inp["dissim"], inp["category"]
    if inp["mode"] == "typeerror":
        c = common.make_continuum(spec)
        al = c.get_best_alignment(common.make_dissim(desc))
        try:
            al.gamma_k_disorder(common.make_dissim(desc), None)
        except TypeError:
            return None
        return fail("gamma-cat / gamma-k are refused (TypeError) for dissimilarities that are not the combined one", inp, "no exception", "TypeError")
    if inp["mode"] == "perfect":
        # identical annotations by every annotator: co-aligned units never differ and none is unaligned
        first = sorted(spec)[0]
        spec = {a: [list(u) for u in spec[first]] for a in spec}
    d = common.make_dissim(desc)
    c = common.make_continuum(spec)
    if inp["mode"] in ("gamma", "perfect"):
        np.random.seed(inp["seed"])
        g = c.compute_gamma(d, n_samples=3, sampler=pa.ShuffleContinuumSampler(pivot_type="float_pivot"))
        al = g.best_alignment
        obs = float(al.gamma_k_disorder(d, cat))
        chance = [float(a.gamma_k_disorder(d, cat)) for a in g.chance_alignments]
        val = float(g.gamma_cat) if cat is None else float(g.gamma_k(cat))
        exp_mean = sum(chance) / len(chance)
        present = cat is None or any(u[2] == cat for us in spec.values() for u in us)
        if obs == 0:
            want = 1.0
        elif cat is None and exp_mean == 0:
            want = 0.0
        else:
            want = 1 - obs / exp_mean if exp_mean != 0 else None
        if want is not None and not close(val, want, rtol=1e-3, atol=1e-5):
            return fail("gamma-cat / gamma-k == 1 - observed / mean chance categorical disorder (1 when observed is 0)", inp, val, want)
        if val > 1 + 1e-6:
            return fail("gamma-cat / gamma-k never exceed 1", inp, val, "<= 1")
        if inp["mode"] == "perfect" and not close(val, 1.0, rtol=1e-4, atol=1e-6):
            return fail("gamma-cat / gamma-k == 1 when co-aligned units never differ in category and no unit is unaligned"
                        + ("" if present else " [category absent from the continuum]"), inp, val, 1.0)
        taus = [tuple(None if u is None else (float(u.segment.start), float(u.segment.end), u.annotation) for _, u in ua.n_tuple)
                for ua in al.unitary_alignments]
    else:
        _, _, al = run_alignment({"continuum": spec, "dissim": desc, "backend": "cbc"}, inp["mode"] == "soft")
        taus = [tuple(None if u is None else (float(u.segment.start), float(u.segment.end), u.annotation) for _, u in ua.n_tuple)
                for ua in al.unitary_alignments]
        obs = float(al.gamma_k_disorder(d, cat))
    want = expected_disorder(taus, desc, cat)
    if not close(obs, want, rtol=2e-3, atol=1e-5):
        return fail("categorical disorder == weighted mean of the categorical dissimilarity over counted co-aligned pairs "
                    "(weight 1/(k-1) * max(0, 1 - alpha*positional); unit/empty pairs: delta_empty at weight delta_empty)", inp, obs, want)
    return None


for q in (AL + "Alignment.gamma_k_disorder", CT + "GammaResults.gamma_cat", CT + "GammaResults.gamma_k"):
    Oracle(q, cases, check)
