"""Oracle for C06: with the NumPy seed fixed, a gamma computation gives the same observed disorder, chance disorders, gamma,
gamma-cat and gamma-k under perturbed schedules: (a) the library's own pool, (b) a deferring executor that runs every job only
when its result is requested, in reverse submission order for the pending ones, (c) a single worker, (d) repetition in the
same process, (e) another PYTHONHASHSEED (sub-process)."""
import json
import os
import subprocess
import sys
import numpy as np
import common
from common import pkg, fail
from . import Oracle

CT = "pygamma_agreement/continuum.py::"


class LazyFuture:
    def __init__(self, pool, fn, args):
        self.pool, self.fn, self.args, self.done, self.val = pool, fn, args, False, None

    def result(self):
        # run all pending jobs submitted AFTER this one first (reverse order), then this one
        for f in reversed(self.pool.pending):
            if f is not self and not f.done and self.pool.pending.index(f) > self.pool.pending.index(self):
                f._run()
        self._run()
        return self.val

    def _run(self):
        if not self.done:
            self.val = self.fn(*self.args)
            self.done = True


class LazyExecutor:
    def __init__(self, max_workers=None):
        self.pending = []

    def __enter__(self):
        return self

    def __exit__(self, *a):
        for f in self.pending:
            f._run()
        return False

    def submit(self, fn, *args):
        f = LazyFuture(self, fn, args)
        self.pending.append(f)
        return f


def run_gamma(inp, mode):
    pa = pkg()
    import pygamma_agreement.continuum as cm
    c = common.make_continuum(inp["continuum"])
    d = common.make_dissim(inp["dissim"])
    sampler = pa.StatisticalContinuumSampler() if inp["sampler"] == "stat" else pa.ShuffleContinuumSampler(pivot_type=inp["sampler"])
    saved, saved_cpu = cm.ThreadPoolExecutor, cm.os.cpu_count
    try:
        if mode == "lazy":
            cm.ThreadPoolExecutor = LazyExecutor
        if mode == "one":
            cm.os.cpu_count = lambda: 1
        np.random.seed(inp["seed"])
        g = c.compute_gamma(d, n_samples=inp["n_samples"], precision_level=inp["precision"], sampler=sampler,
                            fast=inp["mode"] == "fast", soft=inp["mode"] == "soft")
        out = {"observed": float(g.observed_disorder), "chance": [float(a.disorder) for a in g.chance_alignments], "gamma": float(g.gamma)}
        if inp["dissim"][0] == "combined":
            out["gamma_cat"] = float(g.gamma_cat)
            out["gamma_k"] = {k: float(g.gamma_k(k)) for k in c.categories}
        return out
    finally:
        cm.ThreadPoolExecutor, cm.os.cpu_count = saved, saved_cpu


def cases(rng, tier):
    from .alignments import DISSIMS
    k = 0
    for n, mx, cnt in ((2, 3, 4), (3, 2, 3)):
        for spec in common.grid_continua(rng, n, mx, 12, ["a", "b"], allow_empty=False, count=cnt if tier == "quick" else cnt * 6):
            yield {"continuum": spec, "dissim": [d for d in DISSIMS if d[0] == "combined"][k % 4], "sampler": ["stat", "int_pivot", "float_pivot"][k % 3],
                   "mode": ["exact", "fast", "soft"][k % 3], "n_samples": 4, "precision": [None, 0.4][k % 2], "seed": rng.randint(0, 10 ** 6),
                   "hashseed": k % 3 == 0}
            k += 1


def check(inp):
    if os.environ.get("C06_CHILD"):
        return None
    try:
        base = run_gamma(inp, "pool")
    except Exception as e:   # noqa
        return fail("the gamma computation returns", inp, repr(e), "results")
    for mode in ("lazy", "one", "pool"):
        other = run_gamma(inp, mode)
        if other != base:
            return fail(f"seeded results do not depend on the schedule ({mode}: deferred reverse-order executor / one worker / repetition)",
                        inp, other, base)
    if inp.get("hashseed", True):
        child = subprocess.run([sys.executable, os.path.join(os.path.dirname(os.path.dirname(os.path.abspath(__file__))), "c06_child.py"), json.dumps(inp)], capture_output=True, text=True,
                               env=dict(os.environ, PYTHONHASHSEED="12345", C06_CHILD="1", VERIF_REPO=common.REPO))
        try:
            other = json.loads(child.stdout.strip().split("\n")[-1])
        except Exception:   # noqa
            return fail("sub-process with another PYTHONHASHSEED returns", inp, child.stderr[-400:], "results")
        if other != json.loads(json.dumps(base)):
            return fail("seeded results do not depend on PYTHONHASHSEED", inp, other, base)
    return None


Oracle(CT + "Continuum.compute_gamma#schedules", cases, check)

