"""Oracle for C10: the fast alignment terminates and returns a partition of the continuum whose reported disorder matches its units, never
below the best alignment's and equal to it when the window covers the whole continuum; a fast-mode gamma uses the exact algorithm when
windowing is estimated to be disadvantageous.  Non-termination is detected by a stall detector (an iteration of the main loop that removes
no unit repeats forever: the loop is deterministic) with a wall-clock alarm as a back-stop."""
import signal
import numpy as np
import common
from common import pkg, fail, close
from . import Oracle
from .alignments import DISSIMS, structure, ud, min_partition

CT = "pygamma_agreement/continuum.py::"


class Stall(Exception):
    pass


def cases(rng, tier):
    yield {"continuum": {"a": [[0.0, 1.0, "x"], [1.0, 2.0, "x"]], "b": [[0.0, 50.0, "x"], [0.5, 60.0, "x"]]}, "w": 1, "dissim": ["combined", 1.0, 1.0, 1.0, None]}
    yield {"continuum": {"a": [[0.0, 1.0, "x"], [1.0, 2.0, "x"]], "b": [[0.0, 5.0, "x"], [0.0, 6.0, "x"]]}, "w": 1, "dissim": ["positional", 1.0]}
    k = 0
    for n, mx, cnt in ((2, 4, 12), (3, 3, 8), (4, 2, 4)):
        for spec in common.grid_continua(rng, n, mx, 14, ["a", "b"], allow_empty=True, count=cnt if tier == "quick" else cnt * 6):
            if sum(len(v) for v in spec.values()) == 0:
                continue
            tot = sum(len(v) for v in spec.values())
            # the statement's quantifier: every window size 1 .. ceil(units / annotators) + 1 (the last two cover the whole continuum)
            for w in range(1, -(-tot // n) + 2):
                yield {"continuum": spec, "w": w, "dissim": DISSIMS[k % len(DISSIMS)]}
            k += 1
    # windows that cover the whole continuum although one annotator has fewer units than w (the fast disorder must equal the optimum)
    for spec, ws in (({"A": [[0.0, 20.0, "x"], [13.0, 16.0, "x"], [15.0, 18.0, "x"], [17.0, 37.0, "x"]],
                       "B": [[0.0, 2.0, "x"], [14.0, 34.0, "x"], [20.0, 22.0, "x"]]}, (4, 5)),
                     ({"A": [[16.0, 18.0, "x"], [20.0, 60.0, "x"], [21.0, 24.0, "x"]],
                       "B": [[10.0, 20.0, "x"], [14.0, 54.0, "x"], [15.0, 16.0, "x"]]}, (3, 4))):
        for w in ws:
            for dsm in (["positional", 1.0], ["combined", 1.0, 1.0, 1.0, None]):
                yield {"continuum": spec, "w": w, "dissim": dsm}
    # an annotator with a "background" unit spanning the whole continuum next to short ones: the first window's limit is then the
    # continuum's end although most units lie outside the window
    bg = {"A": [[0.0, 1000.0, "a"], [10.0, 20.0, "a"], [30.0, 40.0, "b"], [50.0, 60.0, "a"], [500.0, 520.0, "b"]], "B": [[10.0, 20.0, "a"]]}
    for w in (1, 2, 3):
        yield {"continuum": bg, "w": w, "dissim": ["combined", 1.0, 1.0, 1.0, None]}
    for spec in common.grid_continua(rng, 2, 3, 14, ["a", "b"], allow_empty=False, count=4 if tier == "quick" else 24):
        ends = [u[1] for v in spec.values() for u in v]
        starts = [u[0] for v in spec.values() for u in v]
        if not ends:
            continue
        spec = {a: [list(u) for u in v] for a, v in spec.items()}
        first = sorted(spec)[0]
        spec[first] = [[min(starts), max(ends), "a"]] + [u for u in spec[first] if not (u[0] == min(starts) and u[1] == max(ends))]
        tot = sum(len(v) for v in spec.values())
        for w in range(1, -(-tot // 2) + 2):
            yield {"continuum": spec, "w": w, "dissim": DISSIMS[w % len(DISSIMS)]}


def check(inp):
    pa = pkg()
    import pygamma_agreement.continuum as cm
    spec = inp["continuum"]
    c = common.make_continuum(spec)
    d = common.make_dissim(inp["dissim"])
    orig = cm.Continuum.get_first_window
    last = {"n": None}

    def watched(self, dissimilarity, w=1):
        n = self.num_units
        if last["n"] is not None and n == last["n"] and self is last["obj"]:
            raise Stall(f"an iteration of the main loop removed no unit ({n} units left)")
        last["n"], last["obj"] = n, self
        return orig(self, dissimilarity, w)

    def alarm(*a):
        raise Stall("no result after 20 s")
    cm.Continuum.get_first_window = watched
    signal.signal(signal.SIGALRM, alarm)
    signal.alarm(20)
    try:
        al = c.get_fast_alignment(d, inp["w"])
    except Stall as ex:
        return fail("the fast alignment computation terminates", inp, str(ex), "an alignment")
    except Exception as ex:   # noqa
        return fail("the fast alignment computation returns", inp, repr(ex), "an alignment")
    finally:
        signal.alarm(0)
        cm.Continuum.get_first_window = orig
    bad, taus = structure({"continuum": spec}, al, False)
    if bad:
        return fail("the fast alignment is a partition of the continuum's units: " + bad, inp, "see clause", "partition")
    n = len(spec)
    xbar = sum(len(v) for v in spec.values()) / n
    mine = sum(ud(inp["dissim"], t) for t in taus) / xbar
    if not close(float(al.disorder), mine, rtol=2e-3, atol=1e-5):
        return fail("the reported disorder matches the units of the returned alignment", inp, float(al.disorder), mine)
    if sum(len(v) for v in spec.values()) <= 8:
        best = min_partition(spec, inp["dissim"]) / xbar
        if float(al.disorder) < best - 1e-4 * max(1, best):
            return fail("the fast disorder is never lower than the best alignment's", inp, float(al.disorder), best)
        if inp["w"] * n >= sum(len(v) for v in spec.values()) and not close(float(al.disorder), best, rtol=2e-3, atol=1e-5):
            return fail("the fast disorder equals the best one when the window covers the whole continuum", inp, float(al.disorder), best)
    return None


def bws_cases(rng, tier):
    for n, mx, cnt in ((2, 6, 6), (3, 4, 6)):
        for spec in common.grid_continua(rng, n, mx, 40, ["a", "b"], allow_empty=False, count=cnt if tier == "quick" else cnt * 5):
            yield {"continuum": spec, "dissim": ["combined", 1.0, 1.0, 1.0, None], "stale": rng.choice([None, 3])}


def bws_check(inp):
    """fast-mode gamma: exact algorithm iff best_window_size is infinite; measure_best_window_size leaves it infinite iff disadvantageous"""
    pa = pkg()
    import pygamma_agreement.continuum as cm
    c = common.make_continuum(inp["continuum"])
    d = common.make_dissim(inp["dissim"])
    if inp["stale"] is not None:
        c.best_window_size = inp["stale"]          # a value left by an earlier measurement
    c.measure_best_window_size(d)
    # recompute the estimate independently of the stored value
    fresh = common.make_continuum(inp["continuum"])
    fresh.measure_best_window_size(d)
    if (c.best_window_size == np.inf) != (fresh.best_window_size == np.inf) or \
            (c.best_window_size != np.inf and c.best_window_size != fresh.best_window_size):
        return fail("measure_best_window_size records its verdict whatever value was stored before (exact algorithm iff windowing is "
                    "estimated disadvantageous)", inp, float(c.best_window_size), float(fresh.best_window_size))
    calls = []
    o_best, o_fast = cm.Continuum.get_best_alignment, cm.Continuum.get_fast_alignment
    cm.Continuum.get_fast_alignment = lambda self, dd, w: (calls.append("fast"), o_fast(self, dd, w))[1]
    try:
        cm._compute_fast_alignment_job(d, fresh)
    finally:
        cm.Continuum.get_fast_alignment = o_fast
    used_fast = "fast" in calls
    if used_fast == (fresh.best_window_size == np.inf):
        return fail("the fast job uses the exact algorithm iff best_window_size is infinite", inp, used_fast, fresh.best_window_size != np.inf)
    return None


def window_check(inp):
    """the ASSUMED contract of get_first_window (contracts/continuum.py), clause by clause, on the real code"""
    pa = pkg()
    spec = inp["continuum"]
    c = common.make_continuum(spec)
    d = common.make_dissim(inp["dissim"])
    before = {a: [(u.segment.start, u.segment.end, u.annotation) for u in c.iter_annotator(a)] for a in c.annotators}
    try:
        win, x_limit = c.get_first_window(d, inp["w"])
    except Exception as ex:   # noqa
        return fail("get_first_window returns (assumed contract)", inp, repr(ex), "a window")
    if win is c or win._annotations is c._annotations or win._categories is c._categories:
        return fail("assumed: the window is a fresh continuum sharing no state with its source", inp, "aliased", "fresh")
    if list(win.annotators) != list(c.annotators):
        return fail("assumed: the window has the same annotators in the same order", inp, list(win.annotators), list(c.annotators))
    for a in win.annotators:
        mine = [(u.segment.start, u.segment.end, u.annotation) for u in win.iter_annotator(a)]
        if any(u not in before[a] for u in mine):
            return fail("assumed: every unit of the window is a unit of the continuum, under the same annotator", inp, mine, before[a])
        if len(mine) > len(before[a]):
            return fail("assumed: no annotator has more units in the window than in the continuum", inp, len(mine), len(before[a]))
        for (s_, e_, l_) in mine:
            if not e_ - s_ > 1e-6 or not (win.bound_inf <= s_ and e_ <= win.bound_sup) or (l_ is not None and l_ not in win.categories):
                return fail("assumed: the window satisfies the representation invariant", inp, (s_, e_, l_), "a valid unit within the bounds")
    if not win:
        return fail("assumed: the window of a non-empty continuum is not empty", inp, "empty", "at least one unit")
    after = {a: [(u.segment.start, u.segment.end, u.annotation) for u in c.iter_annotator(a)] for a in c.annotators}
    if after != before:
        return fail("assumed: get_first_window does not modify the continuum", inp, after, before)
    return None


Oracle(CT + "Continuum.get_first_window#assumed-contract", cases, window_check)
Oracle(CT + "Continuum.get_fast_alignment", cases, check)
Oracle(CT + "Continuum.get_first_window", cases, check)
Oracle(CT + "Continuum.measure_best_window_size", bws_cases, bws_check)
Oracle(CT + "_compute_fast_alignment_job", bws_cases, bws_check)
