"""Oracle for C17: Alignment.check succeeds iff every (annotator, unit) of the continuum occurs exactly once among the unitary alignments
and raises SetPartitionError when one is missing or occurs twice; SoftAlignment.check succeeds iff every unit occurs at least once;
the verdict does not depend on the order of unitary alignments; check_validity=True at construction applies the same check.
Candidate alignments: random valid partitions of the continuum's units, then any number of mutations among
  drop a unit / duplicate a unit into a free or new slot / move a unit into another unitary alignment / re-slot it under another annotator /
  drop or repeat a whole unitary alignment / shuffle.
Domain note (also in DESIGN.md): a soft alignment holding a pair (annotator, unit) that is NOT a pair of the continuum while every pair of
the continuum is present is outside the statement's "every unit occurs at least once" dichotomy (the code raises KeyError): not generated."""
import common
from common import pkg, fail
from . import Oracle

AL = "pygamma_agreement/alignment.py::"


def random_partition(rng, spec):
    anns = sorted(spec)
    pools = {a: [tuple(u) for u in spec[a]] for a in anns}
    for a in anns:
        rng.shuffle(pools[a])
    taus = []
    while any(pools.values()):
        tau = []
        for a in anns:
            if pools[a] and rng.random() < 0.7:
                tau.append(pools[a].pop())
            else:
                tau.append(None)
        if any(x is not None for x in tau):
            taus.append(tau)
    return taus


def mutate(rng, spec, taus):
    anns = sorted(spec)
    taus = [list(t) for t in taus]
    kind = rng.choice(["drop", "dup", "move", "reslot", "drop_ua", "repeat_ua", "none", "none"])
    real = [(t, i) for t in range(len(taus)) for i in range(len(anns)) if taus[t][i] is not None]
    if kind == "drop" and real:
        t, i = rng.choice(real)
        taus[t][i] = None
    elif kind == "dup" and real:
        t, i = rng.choice(real)
        free = [t2 for t2 in range(len(taus)) if t2 != t and taus[t2][i] is None]
        if free and rng.random() < 0.6:
            taus[rng.choice(free)][i] = taus[t][i]
        else:
            new = [None] * len(anns)
            new[i] = taus[t][i]
            taus.append(new)
    elif kind == "move" and real:
        t, i = rng.choice(real)
        free = [t2 for t2 in range(len(taus)) if t2 != t and taus[t2][i] is None]
        if free:
            t2 = rng.choice(free)
            taus[t2][i], taus[t][i] = taus[t][i], None
    elif kind == "reslot" and real and len(anns) > 1:
        t, i = rng.choice(real)
        j = rng.choice([k for k in range(len(anns)) if k != i])
        if taus[t][j] is None:
            taus[t][j], taus[t][i] = taus[t][i], None
    elif kind == "drop_ua" and len(taus) > 1:
        taus.pop(rng.randrange(len(taus)))
    elif kind == "repeat_ua" and taus:
        taus.append(list(rng.choice(taus)))
    return taus


def cases(rng, tier):
    for n, mx, cnt in ((2, 3, 40), (3, 3, 40), (4, 2, 20)):
        for spec in common.grid_continua(rng, n, mx, 8, ["a", "b", None], allow_empty=True, count=cnt if tier == "quick" else cnt * 6):
            taus = random_partition(rng, spec)
            for _ in range(rng.choice([0, 0, 1, 1, 2, 3])):
                taus = mutate(rng, spec, taus)
            if not taus:
                continue
            rng.shuffle(taus)
            yield {"continuum": spec, "alignment": taus, "perm_seed": rng.randrange(10 ** 6)}


def build(pa, cls, spec, taus, continuum, check_validity=False):
    from pyannote.core import Segment
    anns = sorted(spec)
    uas = []
    for tau in taus:
        uas.append(pa.alignment.UnitaryAlignment([(a, None if u is None else pa.Unit(Segment(u[0], u[1]), u[2])) for a, u in zip(anns, tau)]))
    return cls(uas, continuum, check_validity=check_validity)


def outcome(fn):
    import pygamma_agreement.alignment as am
    try:
        fn()
        return "ok"
    except am.SetPartitionError:
        return "SetPartitionError"
    except Exception as ex:    # noqa
        return type(ex).__name__


def check(inp):
    import random
    pa = pkg()
    import pygamma_agreement.alignment as am
    spec, taus = inp["continuum"], inp["alignment"]
    anns = sorted(spec)
    c = common.make_continuum(spec)
    pairs = {(a, tuple(u)) for a in anns for u in spec[a]}
    occ = {}
    for tau in taus:
        for a, u in zip(anns, tau):
            if u is not None:
                occ[(a, tuple(u))] = occ.get((a, tuple(u)), 0) + 1
    foreign = [p for p in occ if p not in pairs]
    part_ok = all(occ.get(p, 0) == 1 for p in pairs)
    cover_ok = all(occ.get(p, 0) >= 1 for p in pairs)
    # ---- Alignment.check
    al = build(pa, am.Alignment, spec, taus, c)
    got = outcome(lambda: al.check())
    want = "ok" if part_ok else "SetPartitionError"
    if got != want:
        return fail("Alignment.check succeeds iff every (annotator, unit) of the continuum occurs exactly once, and raises SetPartitionError "
                    "otherwise", inp, got, want)
    got2 = outcome(lambda: al.check(c))
    if got2 != want:
        return fail("Alignment.check(continuum) gives the verdict of check()", inp, got2, want)
    # ---- order independence
    r = random.Random(inp["perm_seed"])
    taus2 = list(taus)
    r.shuffle(taus2)
    got3 = outcome(lambda: build(pa, am.Alignment, spec, taus2, c).check())
    if got3 != want:
        return fail("the outcome does not depend on the order of unitary alignments", inp, got3, want)
    # ---- validation at construction
    got4 = outcome(lambda: build(pa, am.Alignment, spec, taus, c, check_validity=True))
    if got4 != want:
        return fail("requesting validation at construction applies the same check (Alignment)", inp, got4, want)
    # ---- SoftAlignment
    if not (foreign and cover_ok):           # see the domain note
        sal = build(pa, am.SoftAlignment, spec, taus, c)
        gs = outcome(lambda: sal.check())
        if (gs == "ok") != cover_ok:
            return fail("SoftAlignment.check succeeds iff every unit of the continuum occurs at least once", inp, gs, "ok" if cover_ok else "an error")
        gs2 = outcome(lambda: build(pa, am.SoftAlignment, spec, taus2, c).check())
        if (gs2 == "ok") != cover_ok:
            return fail("the outcome of the soft check does not depend on the order of unitary alignments", inp, gs2, gs)
        gs3 = outcome(lambda: build(pa, am.SoftAlignment, spec, taus, c, check_validity=True))
        if (gs3 == "ok") != cover_ok:
            return fail("requesting validation at construction applies the same check (SoftAlignment)", inp, gs3, gs)
    return None


Oracle(AL + "Alignment.check", cases, check)
Oracle(AL + "SoftAlignment.check", cases, check)
Oracle(AL + "Alignment.__init__#validity", cases, check)
