"""Oracle for C14: computations never modify their inputs (continuum: annotators, units, categories, bounds; dissimilarity), and derived
continua (copy, merge, samples, shuffled corpora, __getitem__) share no mutable state with their source."""
import numpy as np
import common
from common import pkg, fail
from . import Oracle
from .alignments import DISSIMS

CT = "pygamma_agreement/continuum.py::"
ENTRY = ["best", "soft", "fast", "first_window", "gamma", "gamma_fast", "gamma_cat", "valid_alignments", "compute_disorder",
         "stat_sampler", "shuffle_sampler", "cst_init", "cst_corpus", "cst_shuffle", "copy", "merge", "getitem", "to_csv"]


def snap(c):
    return {"annotators": list(c.annotators), "units": {a: [(float(u.segment.start), float(u.segment.end), u.annotation) for u in c.iter_annotator(a)]
                                                        for a in c.annotators},
            "categories": list(c.categories), "bounds": tuple(float(x) for x in c.bounds), "bws": float(c.best_window_size)}


def dsnap(d):
    out = {"delta": float(d.delta_empty), "cats": None if d.categories is None else list(d.categories)}
    for k in ("alpha", "beta"):
        if hasattr(d, k):
            out[k] = float(getattr(d, k))
    for k in ("positional_dissim", "categorical_dissim"):
        if hasattr(d, k):
            out[k] = float(getattr(d, k).delta_empty)
    return out


def cases(rng, tier):
    labels = ["a", "b"]
    k = 0
    for n, mx, cnt in ((2, 3, 10), (3, 3, 8)):
        for spec in common.grid_continua(rng, n, mx, 12, labels, allow_empty=False, count=cnt if tier == "quick" else cnt * 6):
            yield {"continuum": spec, "dissim": [d for d in DISSIMS if d[0] == "combined"][k % 4], "entry": ENTRY[k % len(ENTRY)],
                   "seed": rng.randint(0, 10 ** 6)}
            k += 1


def mutate(c):
    from pyannote.core import Segment
    c.add("zz_new", Segment(100.0, 101.0), "zz_label")
    for a in list(c.annotators)[:1]:
        us = list(c.iter_annotator(a))
        if us:
            c.remove(a, us[0])


def check(inp):
    import tempfile, os
    pa = pkg()
    from pyannote.core import Segment
    np.random.seed(inp["seed"])
    c = common.make_continuum(inp["continuum"])
    d = common.make_dissim(inp["dissim"])
    e = inp["entry"]
    before, dbefore = snap(c), dsnap(d)
    derived = []
    allow_bws = False
    try:
        if e == "best":
            c.get_best_alignment(d)
        elif e == "soft":
            c.get_best_soft_alignment(d)
        elif e == "fast":
            c.get_fast_alignment(d, 1)
        elif e == "first_window":
            w, _ = c.get_first_window(d, 1)
            derived.append(w)
        elif e in ("gamma", "gamma_fast", "gamma_cat"):
            g = c.compute_gamma(d, n_samples=2, fast=(e == "gamma_fast"), sampler=pa.ShuffleContinuumSampler(pivot_type="float_pivot"))
            allow_bws = e == "gamma_fast"
            _ = g.gamma
            if e == "gamma_cat":
                _ = g.gamma_cat
                for cat in c.categories:
                    _ = g.gamma_k(cat)
        elif e == "valid_alignments":
            d.valid_alignments(c)
        elif e == "compute_disorder":
            al = c.get_best_alignment(d)
            al.compute_disorder(d)
        elif e == "stat_sampler":
            s = pa.StatisticalContinuumSampler()
            s.init_sampling(c)
            derived.append(s.sample_from_continuum)
        elif e == "shuffle_sampler":
            s = pa.ShuffleContinuumSampler()
            s.init_sampling(c)
            derived.append(s.sample_from_continuum)
        elif e in ("cst_init", "cst_corpus", "cst_shuffle"):
            cst = pa.CorpusShufflingTool(0.5, c, categories=["extra_cat"] if e == "cst_init" else None)
            if e == "cst_corpus":
                derived.append(cst.corpus_from_reference(2))
            if e == "cst_shuffle":
                derived.append(cst.corpus_shuffle(2, shift=True, false_pos=True, false_neg=True, cat_shuffle=True, split=True))
        elif e == "copy":
            derived.append(c.copy())
        elif e == "merge":
            o = pa.Continuum()
            o.add("other", Segment(0.0, 2.0), "q")
            derived.append(c.merge(o, in_place=False))
            derived.append(c + o)
        elif e == "getitem":
            a = c.annotators[0]
            st = c[a]
            if len(st):
                st.pop(0)
        elif e == "to_csv":
            fd, path = tempfile.mkstemp(suffix=".csv")
            os.close(fd)
            c.to_csv(path)
            os.unlink(path)
    except Exception as ex:   # noqa
        return fail(f"entry point {e} returns", inp, repr(ex), "normal return")
    after, dafter = snap(c), dsnap(d)
    if allow_bws:
        after["bws"] = before["bws"]
    if after != before:
        return fail(f"{e} leaves the continuum it was given (annotators, units, categories, bounds) unchanged", inp, after, before)
    if dafter != dbefore:
        return fail(f"{e} leaves the dissimilarity it was given unchanged", inp, dafter, dbefore)
    for x in derived:
        if x is None:
            continue
        try:
            mutate(x)
        except Exception as ex:   # noqa
            return fail(f"a continuum derived by {e} can be mutated", inp, repr(ex), "ok")
        if snap(c) != before and not allow_bws:
            return fail(f"mutating a continuum derived by {e} never changes its source", inp, snap(c), before)
    return None


Oracle(CT + "Continuum.compute_gamma#purity", cases, check)
