"""Oracles for Continuum.get_best_alignment / get_best_soft_alignment (C01, C02, C08, C11) on the real code, both MIP
back ends (cylp masked from the harness for the GLPK path).  Brute force over all partitions / covers made of unitary
alignments, with the documented dissimilarity formulas written here from the property statements."""
import itertools
import sys
import numpy as np
import common
from common import pkg, fail, close
from . import Oracle

CT = "pygamma_agreement/continuum.py::"


def d_formula(desc, u, v):
    """documented formulas (C04 statement): u, v = (start, end, label)"""
    kind = desc[0]
    def pos(delta):
        return ((abs(u[0] - v[0]) + abs(u[1] - v[1])) / ((u[1] - u[0]) + (v[1] - v[0]))) ** 2 * delta
    def cat(delta):
        return (0.0 if u[2] == v[2] else 1.0) * delta
    if kind == "positional":
        return pos(desc[1])
    if kind == "absolute":
        return cat(desc[1])
    if kind == "combined":
        return desc[1] * pos(desc[3]) + desc[2] * cat(desc[3])
    raise ValueError(kind)


def delta_of(desc):
    return desc[1] if desc[0] in ("positional", "absolute") else desc[3]


def ud(desc, tau):
    """unitary disorder of a tuple of units-or-None (one slot per annotator)"""
    n = len(tau)
    s = 0.0
    for i in range(n):
        for j in range(i):
            s += delta_of(desc) if tau[i] is None or tau[j] is None else d_formula(desc, tau[i], tau[j])
    return s / (n * (n - 1) / 2)


def all_unitary(spec):
    anns = sorted(spec)
    opts = [[None] + [tuple(u) for u in spec[a]] for a in anns]
    for tau in itertools.product(*opts):
        if any(x is not None for x in tau):
            yield tau


def min_partition(spec, desc):
    anns = sorted(spec)
    units = [(i, tuple(u)) for i, a in enumerate(anns) for u in spec[a]]
    taus = [(t, ud(desc, t)) for t in all_unitary(spec)]
    best = [float("inf")]
    def covers(t):
        return frozenset((i, t[i]) for i in range(len(t)) if t[i] is not None)
    items = [(covers(t), c) for t, c in taus]
    allu = frozenset(units)
    memo = {}
    def rec(rem):
        if not rem:
            return 0.0
        if rem in memo:
            return memo[rem]
        first = min(rem, key=lambda x: (x[0], x[1][0], x[1][1], x[1][2] is not None, x[1][2] or ''))
        b = float("inf")
        for cov, c in items:
            if first in cov and cov <= rem:
                b = min(b, c + rec(rem - cov))
        memo[rem] = b
        return b
    return rec(allu)


def min_cover(spec, desc):
    anns = sorted(spec)
    units = [(i, tuple(u)) for i, a in enumerate(anns) for u in spec[a]]
    items = [(frozenset((i, t[i]) for i in range(len(t)) if t[i] is not None), ud(desc, t)) for t in all_unitary(spec)]
    allu = frozenset(units)
    memo = {}
    def rec(rem):
        if not rem:
            return 0.0
        if rem in memo:
            return memo[rem]
        first = min(rem, key=lambda x: (x[0], x[1][0], x[1][1], x[1][2] is not None, x[1][2] or ''))
        b = float("inf")
        for cov, c in items:
            if first in cov:
                b = min(b, c + rec(rem - cov))
        memo[rem] = b
        return b
    return rec(allu)


DISSIMS = [["combined", 1.0, 1.0, 1.0, None], ["positional", 1.0], ["absolute", 1.0], ["combined", 3.0, 1.0, 0.5, None],
           ["combined", 0.0, 2.0, 2.0, None], ["combined", 1.0, 0.0, 1.0, None], ["positional", 2.0], ["absolute", 0.5]]


def cases(rng, tier):
    labels = ["a", "b"]
    k = 0
    fixed = [{"ann0": [[0.0, 1.0, "a"]], "ann1": []},
             {"ann0": [[0.0, 1.0, None]], "ann1": [[0.0, 2.0, None], [3.0, 4.0, None]]},          # unlabelled units
             {"ann0": [[0.0, 1.0, None], [0.0, 1.0, "a"]], "ann1": [[0.5, 2.0, "a"]]},            # mixed
             {"ann0": [[0.0, 2.0, "a"], [0.0, 2.0, "b"]], "ann1": [[0.0, 2.0, "a"]]},
             {"ann0": [[0.0, 4.0, "a"], [1.0, 2.0, "a"]], "ann1": [[0.0, 4.0, "b"], [1.0, 2.0, "b"]], "ann2": []}]
    for spec in fixed:
        for backend in ("cbc", "glpk"):
            yield {"continuum": spec, "dissim": DISSIMS[k % len(DISSIMS)], "backend": backend}
        k += 1
    # odd cycles: three annotators disputing one place with three different labels (pairs are cheap, the triple and the singletons are
    # dear) - where a relaxed (non 0/1) program has fractional optima
    tri = {"ann0": [[0.0, 10.0, "x"]], "ann1": [[2.0, 12.0, "y"]], "ann2": [[4.0, 14.0, "z"]]}
    tri2 = {"ann0": [[0.0, 10.0, "x"], [30.0, 40.0, "x"]], "ann1": [[2.0, 12.0, "y"], [31.0, 40.0, "x"]], "ann2": [[4.0, 14.0, "z"], [30.0, 41.0, "x"]]}
    for spec in (tri, tri2):
        for desc in (["combined", 1.0, 2.0, 1.0, None], ["combined", 3.0, 1.0, 1.0, None], ["combined", 1.0, 1.0, 1.0, None]):
            for backend in ("cbc", "glpk"):
                yield {"continuum": spec, "dissim": desc, "backend": backend}
    for spec in common.grid_continua(rng, 3, 2, 6, ["x", "y", "z"], allow_empty=False, count=6 if tier == "quick" else 40):
        yield {"continuum": spec, "dissim": ["combined", 1.0, 2.0, 1.0, None], "backend": "cbc" if k % 2 else "glpk"}
        k += 1
    for n, mx, cnt in ((2, 3, 14), (3, 2, 10), (4, 1, 3)):
        for spec in common.grid_continua(rng, n, mx, 5, labels, count=cnt if tier == "quick" else cnt * 6):
            yield {"continuum": spec, "dissim": DISSIMS[k % len(DISSIMS)], "backend": "cbc" if k % 2 else "glpk"}
            k += 1


def run_alignment(inp, soft):
    pa = pkg()
    saved = sys.modules.get("cylp", "absent")
    if inp.get("backend") == "glpk":
        sys.modules["cylp"] = None        # `import cylp` raises ImportError: the library falls back to GLPK_MI
    try:
        c = common.make_continuum(inp["continuum"])
        d = common.make_dissim(inp["dissim"])
        return c, d, (c.get_best_soft_alignment(d) if soft else c.get_best_alignment(d))
    finally:
        if saved == "absent":
            sys.modules.pop("cylp", None)
        else:
            sys.modules["cylp"] = saved


def structure(inp, al, soft):
    spec = inp["continuum"]
    anns = sorted(spec)
    counts = {}
    taus = []
    for ua in al.unitary_alignments:
        slots = ua.n_tuple
        if [a for a, _ in slots] != anns:
            return "every unitary alignment has exactly one slot per annotator (in order)", None
        tau = []
        for a, u in slots:
            if u is None:
                tau.append(None)
                continue
            key = (a, (float(u.segment.start), float(u.segment.end), u.annotation))
            if list(key[1]) not in [list(x) for x in spec[a]]:
                return f"no unit foreign to the continuum ({key})", None
            counts[key] = counts.get(key, 0) + 1
            tau.append(key[1])
        if all(x is None for x in tau):
            return "every unitary alignment contains at least one real unit", None
        taus.append(tuple(tau))
    for a in anns:
        for u in spec[a]:
            c = counts.get((a, tuple(u)), 0)
            if c < 1 or (not soft and c != 1):
                return f"unit {(a, u)} occurs {c} times (expected {'>= 1' if soft else 'exactly 1'})", None
    return None, taus


def check(inp, soft=False):
    try:
        c, d, al = run_alignment(inp, soft)
    except Exception as e:   # noqa
        return fail("the computation returns on a continuum with >= 2 annotators and >= 1 unit", inp, repr(e), "an alignment")
    bad, taus = structure(inp, al, soft)
    if bad:
        return fail(("soft alignment is a cover: " if soft else "best alignment is a partition: ") + bad, inp,
                    [[(a, None if u is None else (u.segment.start, u.segment.end, u.annotation)) for a, u in ua.n_tuple]
                     for ua in al.unitary_alignments], "see clause")
    desc = inp["dissim"]
    n = len(inp["continuum"])
    xbar = sum(len(v) for v in inp["continuum"].values()) / n
    expect = (min_cover if soft else min_partition)(inp["continuum"], desc) / xbar
    got = float(al.disorder)
    if not close(got, expect, rtol=2e-3, atol=1e-5):
        return fail("disorder == minimum over all " + ("covers" if soft else "partitions") + " made of unitary alignments",
                    inp, got, expect)
    mine = sum(ud(desc, t) for t in taus) / xbar
    if not close(got, mine, rtol=2e-3, atol=1e-5):
        return fail("reported disorder == sum of the unitary disorders of the returned alignment / mean units per annotator",
                    inp, got, mine)
    for ua, t in zip(al.unitary_alignments, taus):
        if not close(float(ua.disorder), ud(desc, t), rtol=2e-3, atol=1e-5):
            return fail("each returned unitary alignment carries its own disorder", inp, float(ua.disorder), ud(desc, t))
    return None


Oracle(CT + "Continuum.get_best_alignment", cases, lambda inp: check(inp, False))
Oracle(CT + "Continuum.get_best_soft_alignment", cases, lambda inp: check(inp, True))
