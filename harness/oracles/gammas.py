"""Oracle for C05: a gamma computation reports the requested kind of alignment of the input as observed disorder, holds exactly
max(n_samples, N_required) chance alignments - each the same kind of alignment of a freshly sampled valid continuum over the
ground-truth annotators - and gamma = 1 - observed / mean chance (1 when observed is 0)."""
import math
import numpy as np
import common
from common import pkg, fail, close
from . import Oracle
from .alignments import DISSIMS, min_partition, min_cover, ud

CT = "pygamma_agreement/continuum.py::"
LEVELS = {"high": 0.01, "medium": 0.02, "low": 0.1}


def cases(rng, tier):
    k = 0
    for n, mx, cnt in ((2, 3, 6), (3, 2, 6), (4, 2, 3)):
        for spec in common.grid_continua(rng, n, mx, 14, ["a", "b"], allow_empty=False, count=cnt if tier == "quick" else cnt * 6):
            anns = sorted(spec)
            yield {"continuum": spec, "dissim": DISSIMS[k % len(DISSIMS)], "sampler": ["stat", "int_pivot", "float_pivot"][k % 3],
                   "mode": ["exact", "soft", "fast"][k % 3], "n_samples": [1, 3, 5][k % 3], "precision": [None, 0.3, "low", 0.6][k % 4],
                   "ground_truth": None if k % 2 or n < 3 else anns[:2], "seed": rng.randint(0, 10 ** 6),
                   "identical": k % 7 == 0}
            k += 1


def check(inp):
    pa = pkg()
    spec = inp["continuum"]
    if inp["identical"]:
        first = sorted(spec)[0]
        spec = {a: [list(u) for u in spec[first]] for a in spec}
    c = common.make_continuum(spec)
    d = common.make_dissim(inp["dissim"])
    sampler = pa.StatisticalContinuumSampler() if inp["sampler"] == "stat" else pa.ShuffleContinuumSampler(pivot_type=inp["sampler"])
    np.random.seed(inp["seed"])
    try:
        g = c.compute_gamma(d, n_samples=inp["n_samples"], precision_level=inp["precision"], sampler=sampler,
                            ground_truth_annotators=inp["ground_truth"], fast=inp["mode"] == "fast", soft=inp["mode"] == "soft")
    except Exception as e:   # noqa
        return fail("the gamma computation returns", inp, repr(e), "a GammaResults")
    n = inp["n_samples"]
    ch = [float(a.disorder) for a in g.chance_alignments]
    p = inp["precision"]
    if p is None:
        want_n = n
    else:
        pv = LEVELS[p] if isinstance(p, str) else p
        first = np.array(ch[:n])
        cv = float(np.std(first) / np.mean(first)) if np.mean(first) != 0 else float("inf")
        nreq = math.ceil((cv * 1.96 / pv) ** 2) if math.isfinite(cv) else None
        want_n = None if nreq is None else max(n, nreq)
    if want_n is not None and len(ch) != want_n:
        return fail("exactly max(n_samples, ceil((1.96*CV/precision)^2)) chance alignments (CV of the first n_samples); n_samples when no "
                    "precision level is given", inp, len(ch), want_n)
    gt = sorted(inp["ground_truth"] or spec)
    seen = set()
    for a in g.chance_alignments:
        s = a.continuum
        if s is None or id(s) in seen:
            return fail("each chance alignment is the alignment of its own freshly sampled continuum", inp, repr(s), "a fresh sample")
        seen.add(id(s))
        if not s or len(s.annotators) != len(gt):
            return fail("every sample is non-empty and has as many annotators as the ground truth", inp, list(s.annotators), gt)
        if inp["sampler"] == "stat" and list(s.annotators) != gt:
            return fail("statistical samples have exactly the ground-truth annotators", inp, list(s.annotators), gt)
        if inp["sampler"] != "stat":
            # every sampled annotator carries the durations and labels of one ground-truth annotator
            sig = lambda us: sorted((round(float(e) - float(b), 6), l or "") for (b, e, l) in us)      # noqa: E731
            gts = [sig(spec[g_]) for g_ in gt]
            for ann in s.annotators:
                mine = sig([(u.segment.start, u.segment.end, u.annotation) for u in s.iter_annotator(ann)])
                if mine not in gts:
                    return fail("chance continua are made of the ground-truth annotators' units only", inp, mine, gts)
        for ann in s.annotators:
            for u in s.iter_annotator(ann):
                if not u.segment.end - u.segment.start > 1e-6:
                    return fail("samples contain only segments longer than the precision", inp, (u.segment.start, u.segment.end), "> 1e-6")
        try:
            a.check(s)
        except Exception as e:   # noqa
            if inp["mode"] != "soft":
                return fail("each chance alignment is a valid alignment of its sample", inp, repr(e), "valid")
    # observed disorder = the requested kind of alignment of the input continuum
    xbar = sum(len(v) for v in spec.values()) / len(spec)
    obs = float(g.observed_disorder)
    if inp["dissim"][0] in ("positional", "absolute", "combined") and sum(len(v) for v in spec.values()) <= 8:
        best = min_partition(spec, inp["dissim"]) / xbar
        soft = min_cover(spec, inp["dissim"]) / xbar
        if inp["mode"] == "exact" and not close(obs, best, rtol=2e-3, atol=1e-5):
            return fail("observed disorder == best-alignment disorder of the input", inp, obs, best)
        if inp["mode"] == "soft" and not close(obs, soft, rtol=2e-3, atol=1e-5):
            return fail("observed disorder == soft-alignment disorder of the input (soft mode)", inp, obs, soft)
        if inp["mode"] == "fast" and obs < best - 1e-4:
            return fail("fast observed disorder is never below the best disorder", inp, obs, best)
    exp = float(np.mean(ch))
    if not close(float(g.expected_disorder), exp, rtol=1e-4):
        return fail("expected disorder == mean chance disorder", inp, float(g.expected_disorder), exp)
    if exp == 0 and obs != 0:
        return None       # 1 - observed/0 is not defined (every chance sample aligned with zero disorder): outside the statement
    want = 1.0 if obs == 0 else 1 - obs / exp
    if not close(float(g.gamma), want, rtol=1e-4, atol=1e-6) or float(g.gamma) > 1 + 1e-9:
        return fail("gamma == 1 - observed/expected (1 when observed is 0), never above 1", inp, float(g.gamma), want)
    if inp["identical"] and inp["mode"] != "fast" and not close(float(g.gamma), 1.0, atol=1e-5):
        return fail("gamma == 1 when all annotators made identical annotations", inp, float(g.gamma), 1.0)
    return None


for q in (CT + "Continuum.compute_gamma", CT + "GammaResults.gamma", CT + "GammaResults.expected_disorder"):
    Oracle(q, cases, check)
