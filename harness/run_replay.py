"""Replay a recorded counter-example against the real code:  /venv/bin/python /verif/harness/run_replay.py <file>
Exit 1 if the violation reproduces (prints observed vs expected), 0 if the code now satisfies the clause."""
import json
import os
import sys

sys.path.insert(0, os.path.dirname(os.path.abspath(__file__)))
import common  # noqa: E402
from oracles import ORACLES  # noqa: E402


def main():
    rec = json.load(open(sys.argv[1]))
    if "--inline" not in sys.argv:
        print("property   :", rec.get("property"))
        print("obligation :", rec.get("obligation"))
        print("clause     :", rec.get("clause"))
    if not rec.get("reproduced") or "inputs" not in rec:
        print("no failing input was recorded for this obligation (verifier output follows)")
        print(json.dumps(rec.get("solver", {}), indent=1)[:3000])
        return 2
    oracle = ORACLES[rec["oracle"]]
    if "--inline" not in sys.argv:
        # run the real code in a child: a crash of the interpreter (memory corruption) is itself the reproduction
        import subprocess
        p = subprocess.run([sys.executable, os.path.abspath(__file__), sys.argv[1], "--inline"], capture_output=True, text=True)
        sys.stdout.write(p.stdout[-6000:])
        if p.returncode in (0, 1, 2):
            return p.returncode
        print(p.stderr[-1500:])
        print(f"REPRODUCED (the real code crashed the interpreter, exit status {p.returncode})")
        return 1
    f = oracle.check(rec["inputs"])
    if f is None:
        print("NOT reproduced: the real code satisfies the clause on the recorded input")
        return 0
    print("inputs     :", json.dumps(common.jsonable(f["inputs"]))[:2000])
    print("observed   :", json.dumps(common.jsonable(f["observed"]))[:2000])
    print("expected   :", json.dumps(common.jsonable(f["expected"]))[:2000])
    print("REPRODUCED")
    return 1


if __name__ == "__main__":
    sys.exit(main())
