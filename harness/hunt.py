"""Bounded hunt: run the executable contract (oracle) of one function under contract on the REAL code over enumerated
small inputs plus VERIF_SEED-seeded random ones.  Exit 0: nothing found / 1: failing input found (replay file written)
/ 4: no oracle for this function / 3: harness error."""
import argparse
import json
import os
import random
import sys
import time
import traceback

sys.path.insert(0, os.path.dirname(os.path.abspath(__file__)))
import common  # noqa: E402
from oracles import ORACLES  # noqa: E402


def main():
    ap = argparse.ArgumentParser()
    ap.add_argument("--fn", required=True)
    ap.add_argument("--prop", default="")
    ap.add_argument("--seed", type=int, default=0)
    ap.add_argument("--tier", default="quick")
    ap.add_argument("--out", required=True)
    ap.add_argument("--obligation", default="")
    ap.add_argument("--reason", default="")
    a = ap.parse_args()
    oracle = ORACLES.get(a.fn)
    if oracle is None:
        print(f"no executable contract registered for {a.fn}")
        return 4
    known = []
    kf = os.path.join(os.path.dirname(os.path.dirname(os.path.abspath(__file__))), "known_findings.json")
    if os.path.exists(kf):
        known = [k for k in json.load(open(kf)) if k.get("status") == "known" and k.get("oracle_match")]
    known_hits = {}
    rng = random.Random(a.seed)
    t0 = time.time()
    n = 0
    budget = 120 if a.tier == "quick" else 900
    try:
        for inputs in oracle.cases(rng, a.tier):
            n += 1
            # side file: if the real code crashes the interpreter (numba does no bounds checking), the parent process
            # still knows which input was running
            json.dump({"inputs": common.jsonable(inputs), "case": n}, open(a.out + ".current", "w"))
            f = oracle.check(inputs)
            if f is not None:
                # a failure that is a listed known finding (same clause, inputs in the listed region) is reported as such and
                # the hunt goes on: a different violation of the same property is still reported
                hit = None
                for k in known:
                    m = k["oracle_match"]
                    if m.get("clause_contains", "") in f["clause"] and all(inputs.get(kk) == vv for kk, vv in m.get("inputs", {}).items()):
                        hit = k
                        break
                if hit is not None:
                    known_hits.setdefault(hit["id"], {"what": hit["what"], "count": 0, "example": common.jsonable(inputs)})
                    known_hits[hit["id"]]["count"] += 1
                    if time.time() - t0 > budget:
                        break
                    continue
            if f is not None:
                rec = {"property": a.prop, "obligation": a.obligation, "function": a.fn, "oracle": a.fn,
                       "reproduced": True, "clause": f["clause"], "inputs": common.jsonable(f["inputs"]),
                       "observed": common.jsonable(f["observed"]), "expected": common.jsonable(f["expected"]),
                       "verifier": a.reason, "cases_tried": n, "repo": common.REPO,
                       "how": f"/venv/bin/python /verif/harness/run_replay.py {a.out}"}
                json.dump(rec, open(a.out, "w"), indent=1)
                os.unlink(a.out + ".current")
                for kid, h in known_hits.items():
                    print("KNOWN-FINDING-HIT " + json.dumps({"id": kid, "what": h["what"], "count": h["count"], "example": h["example"]}))
                print(f"failing input found after {n} cases: {f['clause']}")
                return 1
            if time.time() - t0 > budget:
                break
    except Exception:   # noqa
        traceback.print_exc()
        return 3
    if os.path.exists(a.out + ".current"):
        os.unlink(a.out + ".current")
    for kid, h in known_hits.items():
        print("KNOWN-FINDING-HIT " + json.dumps({"id": kid, "what": h["what"], "count": h["count"], "example": h["example"]}))
    print(f"no failing input in {n} cases ({time.time() - t0:.1f}s)")
    return 0


if __name__ == "__main__":
    sys.exit(main())
